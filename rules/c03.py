"""C03 Save/load through .fil/.h5 preserves data and axis registration (DESIGN §4.C03)."""
import ast
import importlib.util
import os
from vstatic import terms as T
from vstatic.terms import sym, Term, Atom, lift, pretty, TRUE, FALSE, NONE
from .common import agree_ref, selfattr, kind_of, dominates

FR = 'frame.Frame.'
GEOMETRY = {'f_start', 'f_stop', 'selection_shape', 't_start', 't_stop', 'n_ints_in_file'}

REF_CHECK_WF = '''
def check_waterfall(self):
    if self.waterfall is None:
        return None
    else:
        return self.get_waterfall()
'''
REF_GET_WF = 'def get_waterfall(self):\n    self._update_waterfall()\n    return self.waterfall\n'
REF_SAVE = '''
def {name}(self, filename, max_load=1):
    self._update_waterfall(filename=filename, max_load=max_load)
    self._encode_bytestrings()
    self.waterfall.{writer}(filename)
    self._decode_bytestrings()
'''


def blimpy_read_set(ctx):
    """Attributes of the Waterfall *container* that blimpy's write path reads (derived from blimpy's own source;
    blimpy is parsed, never imported)."""
    spec = importlib.util.find_spec('blimpy')
    ctx.require(spec is not None and spec.submodule_search_locations, 'blimpy package not found (needed to derive the write-path read set)')
    root = list(spec.submodule_search_locations)[0]

    def parse(rel):
        p = os.path.join(root, rel)
        ctx.require(os.path.exists(p), f'blimpy source {rel} not found')
        return ast.parse(open(p).read())
    wf = parse('waterfall.py')
    br = parse('io/base_reader.py')
    reader = next((n for n in br.body if isinstance(n, ast.ClassDef) and n.name == 'Reader'), None)
    wcls = next((n for n in wf.body if isinstance(n, ast.ClassDef) and n.name == 'Waterfall'), None)
    ctx.require(reader is not None and wcls is not None, 'blimpy: Reader / Waterfall classes not found')
    rmeth = {n.name: n for n in reader.body if isinstance(n, ast.FunctionDef)}
    reads, seen = set(), set()

    def reader_method(name):
        if name in seen or name not in rmeth:
            return
        seen.add(name)
        for n in ast.walk(rmeth[name]):
            if isinstance(n, ast.Attribute) and isinstance(n.value, ast.Name) and n.value.id == 'self' and isinstance(n.ctx, ast.Load):
                if n.attr in rmeth:
                    reader_method(n.attr)
                else:
                    reads.add(n.attr)

    def container_uses(tree_node, var):
        for n in ast.walk(tree_node):
            if isinstance(n, ast.Attribute) and isinstance(n.value, ast.Attribute) and n.value.attr == 'container' and \
                    isinstance(n.value.value, ast.Name) and n.value.value.id == var and isinstance(n.ctx, ast.Load):
                if n.attr in rmeth:
                    reader_method(n.attr)
                else:
                    reads.add(n.attr)
    upd = next((n for n in wcls.body if isinstance(n, ast.FunctionDef) and n.name == '_update_header'), None)
    ctx.require(upd is not None, 'blimpy: Waterfall._update_header not found')
    container_uses(upd, 'self')
    hdr_writes = sorted({n.slice.value for n in ast.walk(upd) if isinstance(n, ast.Subscript) and isinstance(n.ctx, ast.Store)
                         and isinstance(n.slice, ast.Constant)})
    for rel in ('io/fil_writer.py', 'io/hdf_writer.py'):
        tree = parse(rel)
        for fn in tree.body:
            if isinstance(fn, ast.FunctionDef) and (fn.name.startswith('write_to') or 'light' in fn.name):
                container_uses(fn, 'wf')
    ctx.require({'f_start', 'f_stop', 'selection_shape'} <= reads or len(reads) >= 3,
                f'blimpy write-path read set implausibly small: {sorted(reads)}')
    return reads, hdr_writes


def dict_entries(t):
    a = t.single_atom()
    if a is not None and a.kind == 'dict':
        return {k.single_atom().args[0]: v for k, v in a.args if k.single_atom() is not None and k.single_atom().kind == 'str'}
    return None


def run(ctx):
    # ---- D1 container refresh on every path
    ctx.clause = 'D1'
    reads, hdr_writes = blimpy_read_set(ctx)
    ctx.note(f'blimpy write path reads container.{{{", ".join(sorted(reads))}}} and overwrites header{hdr_writes}')
    uw = ctx.func(FR + '_update_waterfall')
    r, I = ctx.run(uw, max_depth=1)
    CONT = T.mk_attr(T.mk_attr(sym('self'), 'waterfall'), 'container')

    def on_container(e):
        """the object written is self.waterfall.container (by VALUE: through a local, a loop over targets, a helper)"""
        b = e.data.get('base')
        if b is None:
            return False
        def cont(t):
            if t.key == CONT.key:
                return True
            a = t.single_atom()
            if a is not None and a.kind == 'ite':       # the frame's Waterfall: newly created or already present
                return cont(a.args[1]) and cont(a.args[2])
            return a is not None and a.kind == 'attr' and a.args[1] == 'container'
        return cont(b)
    sets = [e for e in I.events if e.kind == 'store' and e.data.get('via') == 'setattr']
    direct = [e for e in I.events if e.kind == 'store' and e.data.get('target') == 'attr' and e.data.get('via') is None
              and on_container(e)]
    written = {}        # attr -> (value term, event)
    for e in sets:
        if not on_container(e):
            continue
        if e.loops:
            it = e.loops[-1]['iter'].single_atom()
            d = dict_entries(it.args[1][0]) if it is not None and it.kind == 'call' and it.args[0] == 'items' else None
            if d:
                for k, v in d.items():
                    written[k] = (v, e)
        else:
            na = e.data['name']
            written[na] = (e.data['value'], e)
    for e in direct:
        written[e.data['name']] = (e.data['value'], e)
    need = sorted(GEOMETRY & reads)
    ctx.require(need, 'no geometry attribute in the blimpy read set (extraction failed)')
    specs = {'f_start': 'self.fmin * 1e-6', 'f_stop': 'self.fmax * 1e-6', 'selection_shape': '(self.tchans, 1, self.fchans)',
             't_start': '0', 't_stop': 'self.tchans', 'n_ints_in_file': 'self.tchans'}
    for a in need:
        if a not in written:
            ctx.ob('MUSTPASS', f'container.{a} (read by blimpy when writing) is refreshed from the frame', uw, False,
                   {'written_container_attributes': sorted(written)}, node=uw.node, construct=f'container.{a}')
            continue
        v, e = written[a]
        none_guard = [pretty(c) for c in e.pc if 'waterfall' in pretty(c) and 'None' in pretty(c)]
        ctx.ob('MUSTPASS', f'container.{a} is refreshed on every save / get_waterfall, also when the frame already has a Waterfall '
               '(inherited from a file or a parent frame)', uw, not e.pc,
               {'path_condition': [pretty(c)[:120] for c in e.pc]}, node=e.node, construct=f'container.{a} [unconditional]')
        ctx.formula('FORMULA', f'container.{a} == {specs[a]}', uw, v, ctx.spec(uw, specs[a]), node=e.node, construct=f'container.{a} [value]')
    # header fields written by setigen
    upd = [e for e in I.events if e.kind == 'call' and e.data.get('name') == '.update' and 'header' in ast.unparse(e.data['recv_node'])]
    ctx.require(upd, '_update_waterfall no longer updates the Waterfall header')
    hdr = dict_entries(upd[0].data['args'][1])
    if hdr is None:
        # dictionary built by literal + conditional item stores
        base = upd[0].data['args'][1]
        hdr = {}
        for k in ('tsamp', 'tstart', 'nchans', 'fch1', 'foff', 'source_name'):
            hdr[k] = T.mk_sub(base, lift(k))
    for k, spec in (('tsamp', 'self.dt'), ('nchans', 'self.fchans'), ('fch1', 'self.fch1 * 1e-6'),
                    ('foff', 'ITE(self.ascending, 1, -1) * self.df * 1e-6'), ('tstart', 'Time(self.t_start, format="unix").mjd')):
        ctx.formula('FORMULA', f"header['{k}'] == {spec}", uw, hdr.get(k, NONE), ctx.spec(uw, spec, I=ctx.interp()),
                    node=upd[0].node, construct=f"header_attr['{k}']")
    both = [(pretty(e.data['recv']) if e.data.get('recv') is not None else ast.unparse(e.data['recv_node'])) for e in upd]
    ctx.ob('MUSTPASS', 'both header dictionaries of the Waterfall (header, file_header) receive the update on every path', uw,
           any(x.endswith('.header') for x in both) and any(x.endswith('file_header') for x in both) and all(not e.pc for e in upd),
           {'updates': both}, node=upd[0].node, construct='header.update / file_header.update')
    # ---- D3 orientation pairing
    ctx.clause = 'D3'
    wd = [e for e in I.events if e.kind == 'store' and e.data.get('target') == 'attr' and e.data.get('name') == 'data'
          and 'waterfall' in ast.unparse(e.data['base_node'])]
    ctx.require(wd, '_update_waterfall no longer stores waterfall.data')
    final = I.heap.get((wd[-1].data['base'].key, 'data'))
    want = ctx.spec(uw, 'ITE(self.ascending, self.data[:, np.newaxis, :], self.data[:, np.newaxis, :][:, :, ::-1])')
    ctx.formula('AGREE', 'saved data == frame data with a unit polarisation axis, frequency axis reversed iff descending', uw,
                final if final is not None else NONE, want, node=wd[-1].node, construct='waterfall.data')
    init = ctx.func(FR + '__init__')
    T.SYMKIND['WF'] = 'object:Waterfall'
    T.NOTNONE.add('WF')
    r2, I2 = ctx.run(init, args={'waterfall': sym('WF'), 'fchans': NONE, 'tchans': NONE, 'data': NONE, 'kwargs': Term.of(Atom('dict'))},
                     no_inline=(FR + '_update_noise_frame_stats', FR + 'get_params', FR + '_update_fs', FR + '_update_ts'), expand=False)
    T.SYMKIND.clear()
    ld = selfattr(r2, 'data')
    want_ld = ctx.spec(init, 'ITE(WF.header["foff"] > 0, WF.data[:, 0, :], WF.data[:, 0, :][:, ::-1])', env={'WF': sym('WF')})
    ctx.formula('AGREE', 'loaded data == file data without the polarisation axis, frequency axis reversed iff the file is descending',
                init, ld if ld is not None else NONE, want_ld, node=init.node, construct='self.data [waterfall route]')
    # ---- D2 reader∘writer == identity on the header fields
    ctx.clause = 'D2'
    wcont = {k: v for k, (v, e) in written.items()}

    def compose(t):
        def fn(a):
            if a.kind == 'sub' and a.args[0].key == T.mk_attr(sym('WF'), 'header').key:
                ka = a.args[1].single_atom()
                if ka is not None and ka.kind == 'str' and ka.args[0] in hdr:
                    return hdr[ka.args[0]]
            if a.kind == 'attr' and a.args[0].key == T.mk_attr(sym('WF'), 'container').key and a.args[1] in wcont:
                return wcont[a.args[1]]
            return None
        return T.subst(t, fn)
    J = ctx.interp()
    for attr, spec in (('df', 'self.df'), ('dt', 'self.dt'), ('ascending', 'self.ascending'), ('fch1', 'self.fch1'),
                       ('tchans', 'self.tchans'), ('fchans', 'self.fchans'), ('t_start', 'self.t_start')):
        v = selfattr(r2, attr)
        ctx.require(v is not None, f'Frame.__init__ (waterfall route) no longer stores self.{attr}')
        comp = compose(v)
        ctx.formula('AGREE', f'loading what was saved returns the same {attr}', init, comp, ctx.spec(uw, spec, I=J), node=init.node,
                    construct=f'self.{attr} [load ∘ save]')
    # a frame may be loaded from a frequency SELECTION of a file (Frame(waterfall=path, f_start=.., f_stop=..) or a Waterfall
    # opened that way): blimpy describes the selection in container.f_start / f_stop / selection_shape and leaves
    # header['fch1'] at the FILE's first channel (it is rewritten only at write time), so the loaded frame's fch1 has to come
    # from the selection bounds -- from the header it would register a sub-band at the file's band edge
    vf = selfattr(r2, 'fch1')
    ats_f = list(T.all_atoms(vf).values()) if vf is not None else []
    from_sel = any(a.kind == 'attr' and a.args[1] == 'f_start' for a in ats_f) and any(a.kind == 'attr' and a.args[1] == 'f_stop' for a in ats_f)
    from_hdr = any(a.kind == 'sub' and a.args[1].key == lift('fch1').key for a in ats_f)
    ctx.ob('AGREE', 'a frame loaded from a file takes fch1 from the bounds of the loaded selection (container.f_start / f_stop by '
           'orientation), not from the header card, which blimpy leaves at the file\'s first channel under a frequency selection',
           init, from_sel and not from_hdr, {'fch1': pretty(vf)[:300] if vf is not None else None}, node=init.node,
           construct='self.fch1 [waterfall route, selection]')
    sn = selfattr(r2, 'source_name')
    ctx.formula('AGREE', 'source name is read from the header', init, sn if sn is not None else NONE,
                T.mk_sub(T.mk_attr(sym('WF'), 'header'), lift('source_name')), node=init.node, construct='self.source_name [waterfall route]')
    # the saved source name is the FRAME's (like every other field it is refreshed on every update, also when the Waterfall
    # was inherited from a file or a parent frame and the frame has its own name)
    snw = [e for e in I.events if e.kind == 'store' and e.data.get('target') == 'sub' and e.data['key'].key == lift('source_name').key
           and not e.pc]
    want_sn = ctx.spec(uw, 'self.source_name')
    in_update = hdr.get('source_name') is not None and all(not e.pc for e in upd)
    ok_sn = (bool(snw) and snw[-1].data['value'].key == want_sn.key) or (in_update and hdr['source_name'].key == want_sn.key)
    ctx.ob('AGREE', 'every save / get_waterfall writes the frame\'s own source name into the header (not only for a frame without a '
           'Waterfall)', uw, ok_sn,
           {'unconditional_stores': [e.text() for e in snw], 'in_header_update': pretty(hdr['source_name']) if hdr.get('source_name') is not None else None},
           node=(snw[0].node if snw else upd[0].node), construct="header['source_name'] [every update]")

    # ---- D4 helper axes
    ctx.clause = 'D4'
    T.SYMKIND['waterfall'] = 'object:Waterfall'
    for short, spec, what in (('waterfall_utils.get_fs', "SEQ(waterfall.header['fch1'], waterfall.header['foff'], waterfall.header['nchans'])",
                               'frequency axis: nchans values from fch1 in steps of foff'),
                              ('waterfall_utils.get_ts', "SEQ(0, waterfall.header['tsamp'], waterfall.container.selection_shape[0])",
                               'time axis: one value per integration in steps of tsamp')):
        fi = ctx.func(short)
        r, I3 = ctx.run(fi)
        ctx.formula('FORMULA', what, fi, r.ret, ctx.spec(fi, spec), node=fi.node, construct=f'return {fi.name}')
        s = T.as_seq(T.subst(r.ret, lambda a: None))
        ar = [a for a in T.all_atoms(r.ret).values() if a.kind == 'call' and a.args[0] == 'arange']
        if s is not None and not ar:
            k, bad = kind_of(s[2])
            ctx.ob('EXACTCOUNT', 'the axis length is the integer count from the file, not the result of stepping floats', fi,
                   k in ('Int', 'Unknown') and not bad, {'length': pretty(s[2]), 'kind': k}, node=fi.node, construct=f'{fi.name} [length]')
        else:
            ctx.ob('EXACTCOUNT', 'the axis length is the integer count from the file, not the result of stepping floats', fi, False,
                   {'expression': pretty(r.ret)[:200], 'arange_with_float_step': [pretty(Term.of(a))[:120] for a in ar]}, node=fi.node,
                   construct=f'{fi.name} [length]')
    for short, idx in (('waterfall_utils.max_freq', -1), ('waterfall_utils.min_freq', 0)):
        fi = ctx.func(short)
        r, I3 = ctx.run(fi, no_inline=('waterfall_utils.get_fs',))
        want = ctx.spec(fi, f'np.sort(get_fs(waterfall))[{idx}]', I=ctx.interp(no_inline=('waterfall_utils.get_fs',)))
        ctx.formula('FORMULA', f'{fi.name} is the ' + ('largest' if idx == -1 else 'smallest') + ' value of the frequency axis', fi, r.ret, want,
                    node=fi.node, construct=f'return {fi.name}')
    gd = ctx.func('waterfall_utils.get_data')
    r, I3 = ctx.run(gd, args={'db': FALSE})
    ctx.formula('FORMULA', 'get_data drops the polarisation axis', gd, r.ret, ctx.spec(gd, 'waterfall.data[:, 0, :]'), node=gd.node,
                construct='return get_data')
    T.SYMKIND.clear()
    if ctx.tier == 'thorough':
        for fi in ctx.prog.functions.values():
            if isinstance(fi.node, ast.Lambda) or not any(isinstance(n, ast.Attribute) and n.attr == 'arange' for n in ast.walk(fi.node)):
                continue
            try:
                rr, II = ctx.run(fi, max_depth=0)
            except Exception:
                continue
            for e in II.events:
                if e.kind == 'call' and e.data.get('name', '').endswith('.arange') and e.owner == fi.short and len(e.data['args']) == 3:
                    k, bad = kind_of(e.data['args'][2])
                    ctx.ob('EXACTCOUNT', 'np.arange is not stepped by a float', fi, k != 'Real', {'call': e.text(), 'step_kind': k}, node=e.node)

    # ---- D5 save path and inherited Waterfalls
    ctx.clause = 'D5'
    editors = {}
    for f2 in ctx.prog.functions.values():
        if isinstance(f2.node, ast.Lambda):
            continue
        for n in ast.walk(f2.node):
            tgt = None
            if isinstance(n, ast.Subscript) and isinstance(n.ctx, (ast.Store, ast.Del)):
                tgt = n.value
            elif isinstance(n, ast.Call) and isinstance(n.func, ast.Attribute) and n.func.attr in ('update', 'pop', 'setdefault', 'clear'):
                tgt = n.func.value
            if tgt is not None and isinstance(tgt, ast.Attribute) and tgt.attr in ('header', 'file_header') and \
                    'waterfall' in ast.unparse(tgt.value):
                owner = ctx.prog.enclosing_function(f2.module, n) or f2
                editors.setdefault(owner.short, n)
    from .common import fold_new_helpers
    editors = fold_new_helpers(ctx, editors)
    ok_ed = {FR + '_update_waterfall', FR + '_encode_bytestrings', FR + '_decode_bytestrings'}
    extra = sorted(set(editors) - ok_ed)
    ctx.ob('WHOWRITES', 'only the frame\'s own save path edits a Waterfall header (an inherited Waterfall is shared state: what is saved '
           'must describe the frame being saved)', 'setigen/**', not extra, {'editors': sorted(editors), 'unexpected': extra},
           node=(editors[extra[0]] if extra else None), construct='waterfall.header writers')
    NI = (FR + '_update_waterfall', FR + '_encode_bytestrings', FR + '_decode_bytestrings', FR + 'get_waterfall')
    for name, writer in (('save_fil', 'write_to_fil'), ('save_hdf5', 'write_to_hdf5')):
        agree_ref(ctx, ctx.func(FR + name), REF_SAVE.format(name=name, writer=writer), f'{name}: refresh, encode strings, write, decode',
                  what=('calls',), no_inline=NI, expand=False)
    REF_ENC = """
def _encode_bytestrings(self):
    for key in ['source_name', 'rawdatafile']:
        if key in self.waterfall.header:
            if not isinstance(self.waterfall.header[key], bytes):
                self.waterfall.header[key] = self.waterfall.header[key].encode()
"""
    REF_DEC = """
def _decode_bytestrings(self):
    for key in ['source_name', 'rawdatafile']:
        if key in self.waterfall.header:
            if isinstance(self.waterfall.header[key], bytes):
                self.waterfall.header[key] = self.waterfall.header[key].decode()
"""
    agree_ref(ctx, ctx.func(FR + '_encode_bytestrings'), REF_ENC, 'string header fields are encoded for the writer iff present and not bytes',
              what=('substores',), expand=False)
    agree_ref(ctx, ctx.func(FR + '_decode_bytestrings'), REF_DEC, 'and decoded back afterwards (the frame keeps str source names)',
              what=('substores',), expand=False)
    h5 = ctx.func(FR + 'save_h5')
    r, I4 = ctx.run(h5, no_inline=(FR + 'save_hdf5',))
    c = [e for e in I4.events if e.kind == 'call' and e.data.get('name') == FR + 'save_hdf5']
    ctx.ob('AGREE', 'save_h5 is save_hdf5', h5, len(c) == 1 and c[0].data['bound'].get('filename', NONE).key == sym('filename').key,
           {'calls': [e.text() for e in c]}, node=h5.node, construct='save_h5 -> save_hdf5')
    agree_ref(ctx, ctx.func(FR + 'get_waterfall'), REF_GET_WF, 'get_waterfall refreshes before handing out the Waterfall',
              what=('return', 'calls'), no_inline=NI, expand=False)
    agree_ref(ctx, ctx.func(FR + 'check_waterfall'), REF_CHECK_WF, 'check_waterfall: None for purely synthetic frames, else the '
              'refreshed Waterfall', what=('return', 'calls'), no_inline=NI, expand=False)
    for short in ('slice.get_slice', 'dedrift.dedrift'):
        fi = ctx.func(short)
        T.NOTNONE.add('drift_rate')
        r, I5 = ctx.run(fi, typed_params={'fr': 'frame.Frame'}, no_inline=(FR + 'from_data', FR + 'check_waterfall'))
        c = [e for e in I5.events if e.kind == 'call' and e.data.get('name') == FR + 'from_data']
        ctx.require(c, f'{short} no longer uses from_data')
        w = c[0].data['bound'].get('waterfall', NONE)
        ctx.formula('PROPAGATE', 'derived frames inherit the parent\'s Waterfall through check_waterfall()', fi, w,
                    T.mk_call(FR + 'check_waterfall', [sym('fr')]), node=c[0].node, construct='from_data(waterfall=...)')
    # "derived frames inherit the parent's Waterfall object" -- as a deep copy: a slice / de-drifted frame and its parent refresh
    # their own container on save; sharing one Waterfall makes a Waterfall handed out for the parent describe the child after
    # the child is saved (and the reverse)
    from .c17 import REF_FROM_DATA
    agree_ref(ctx, ctx.func(FR + 'from_data'), REF_FROM_DATA, 'from_data: the Waterfall handed to a derived frame is attached as a deep '
              'copy (h5 handle dropped first), never shared with the parent', what=('attrstores', 'deletes'),
              no_inline=(FR + '__init__', FR + 'add_metadata'))
    # the helpers and the load path describe the file as it is NOW
    from .common import memo_obligation
    ctx.clause = 'D6'
    memo_obligation(ctx, ctx.func('waterfall_utils.get_fs'), 'file helpers and loads re-read the file on every call')


META = {
    'technique': 'static analysis: must-pass/unconditional-store analysis of the container refresh against a read set extracted '
                 'from blimpy\'s own source (MUSTPASS), reader∘writer composition of header terms (AGREE), symbolic flip pairing, '
                 'affine-sequence form and kind of the helper axes (FORMULA/EXACTCOUNT), call-trace comparison of the save path',
    'level': 'Decides from the source that every container attribute blimpy reads when writing (f_start, f_stop, '
             'selection_shape, t_start, t_stop, ...) is refreshed from the frame on every path of _update_waterfall (also for '
             'inherited Waterfalls), that loading what the save path writes returns the same df, dt, orientation, fch1, shape '
             'and start time, that data is reversed on the frequency axis iff descending on both paths, that the helper axes '
             "have exactly the file's integer channel/integration counts, and the order of the save path. float32 equality and"
             " what blimpy/h5py actually write are not decided. Also decided: the saved source name is the frame's own on "
             'every update (not only when the Waterfall is created).',
    'note': 'blimpy is parsed (not imported) to derive its read set; astropy Time(x, unix).mjd / Time(x, mjd).unix treated as an '
            'inverse pair; real arithmetic.',
}
