"""C08 Polyphase filterbank == FIR+DFT definition, chunk invariance (DESIGN §4.C08)."""
import ast
from vstatic import terms as T
from vstatic.terms import sym, Term, Atom, lift, pretty
from .common import agree_ref, who_writes, inline_locals

PF = 'voltage.polyphase_filterbank.'

REF_FRONTEND = '''
def pfb_frontend(x, pfb_window, num_taps, num_branches):
    W = int(len(x) / num_taps / num_branches)
    x_p = x[:W * num_taps * num_branches].reshape((W * num_taps, num_branches))
    h_p = pfb_window.reshape((num_taps, num_branches))
    x_summed = xp.zeros(((W - 1) * num_taps, num_branches))
    for t in range(0, (W - 1) * num_taps):
        x_weighted = x_p[t:t + num_taps, :] * h_p
        x_summed[t, :] = xp.sum(x_weighted, axis=0)
    return x_summed
'''

REF_CHANNELIZE = '''
def channelize(self, x, cache=True):
    if cache:
        if self.cache is not None:
            x = xp.concatenate([self.cache, x])
        self.cache = xp.copy(x[-self.num_taps * self.num_branches:])      # the filterbank's own copy of the tail
    x = pfb_frontend(x, self.window, self.num_taps, self.num_branches)
    X_pfb = xp.fft.fft(x, self.num_branches, axis=1)[:, 0:self.num_branches // 2] / self.num_branches**0.5
    return X_pfb
'''

REF_WINDOW = '''
def get_pfb_window(num_taps, num_branches, window_fn='hamming'):
    window = scipy.signal.firwin(num_taps * num_branches, cutoff=1.0 / num_branches, window=window_fn, scale=True)
    window *= num_taps * num_branches
    return xp.array(window)
'''

REF_VOLTAGES = '''
def get_pfb_voltages(x, num_taps, num_branches, window_fn='hamming'):
    win_coeffs = get_pfb_window(num_taps, num_branches, window_fn)
    x_fir = pfb_frontend(x, win_coeffs, num_taps, num_branches)
    X_pfb = xp.fft.rfft(x_fir, num_branches, axis=1) / num_branches**0.5
    return X_pfb
'''


def strip_dtype(t):
    """the allocation dtype of the accumulator is decided by DTYPE (D6), not by the formula clauses"""
    def fn(a):
        if a.kind == 'call' and a.args[0] in ('zeros', 'empty') and any(k == 'dtype' for k, _ in a.args[2]):
            return T.mk_call(a.args[0], a.args[1], [(k, v) for k, v in a.args[2] if k != 'dtype'])
        return None
    return T.subst(t, fn)


def depends_raw(v, names):
    """does term v depend on one of the symbols `names` other than through abs/real/imag/len/shape?"""
    def t_(t):
        return any(a_(a) for a in t.atoms())

    def a_(a):
        if a.kind == 'sym':
            return a.args[0] in names
        if a.kind == 'call' and a.args[0] in ('abs', 'real', 'imag', 'len', 'shape', 'std', 'iscomplexobj', 'trunc',
                                             'floor', 'ceil', 'round'):
            return False
        for x in a.args:
            if isinstance(x, Term) and t_(x):
                return True
            if isinstance(x, tuple):
                for y in x:
                    if isinstance(y, Term) and t_(y):
                        return True
                    if isinstance(y, tuple) and any(isinstance(z, Term) and t_(z) for z in y):
                        return True
        return False
    return t_(v)


def dtype_rule(ctx, fi):
    """DTYPE: a buffer allocated with a fixed (default float) dtype must not be filled by subscript
    stores with values derived from the function's array parameters."""
    r, I = ctx.run(fi, max_depth=0)
    params = set(fi.all_params()) - {'self', 'cls'}
    allocs = {}
    n = 0
    for e in I.events:
        if e.kind == 'store' and e.data.get('target') == 'name':
            va = e.data['value'].single_atom()
            if va is not None and va.kind == 'call' and va.args[0] in ('zeros', 'empty', 'ones', 'full'):
                kw = dict(va.args[2])
                dt = kw.get('dtype')
                fixed = (dt is None or not depends_raw(dt, params)) and not (dt is not None and 'complex' in pretty(dt))
                dparams = {p for p in params if dt is not None and depends_raw(dt, {p})}
                allocs[e.data['name']] = (e, fixed, dt, dparams)
            elif e.data['name'] in allocs and e.data.get('aug') is None:
                del allocs[e.data['name']]
        fill_name = None
        if e.kind == 'store' and e.data.get('target') == 'sub' and isinstance(e.data.get('base_node'), ast.Name):
            fill_name = e.data['base_node'].id
        elif e.kind == 'store' and e.data.get('target') == 'name' and e.data.get('aug') is not None and e.data['name'] in allocs:
            fill_name = e.data['name']          # `buf += values`: accumulated in place, in the buffer's own dtype
        if fill_name is not None:
            nm = fill_name
            if nm in allocs:
                al, fixed, dt, dparams = allocs[nm]
                v = e.data['rhs'] if e.data.get('aug') else e.data['value']
                dep = depends_raw(v, params)
                vparams = {p for p in params if depends_raw(v, {p})}
                if not fixed and dep and not vparams <= dparams:
                    fixed = True       # the dtype follows only some of the inputs the stored value is computed from
                n += 1
                ctx.ob('DTYPE', f'buffer `{nm}` filled from the input has an input-derived dtype (complex input keeps its '
                                f'imaginary part)', fi, not (fixed and dep),
                       {'allocation': al.text(), 'dtype': pretty(dt) if dt is not None else 'default float64',
                        'stored_value': pretty(v)[:200]}, node=e.node)
    return n


def run(ctx):
    T.INTEGER.update({'num_taps', 'num_branches'})
    T.POSITIVE.update({'num_taps', 'num_branches'})
    # ---- D1 window
    ctx.clause = 'D1'
    agree_ref(ctx, ctx.func(PF + 'get_pfb_window'), REF_WINDOW, 'window = firwin(T*B, 1/B, scale)*T*B', what=('return',), rule='FORMULA')
    cls = ctx.prog.cls(PF + 'PolyphaseFilterbank')
    derived, base = ctx.exp.build(cls)
    init = ctx.func(PF + 'PolyphaseFilterbank.__init__')
    if 'window' not in derived:
        ctx.ob('FORMULA', 'self.window is a pure function of (num_taps, num_branches, window_fn) — no hidden state enters the window',
               init, False, {'derived_attributes': sorted(derived)}, node=init.node, construct='self.window')
    else:
        ctx.formula('FORMULA', 'self.window == get_pfb_window(num_taps, num_branches, window_fn)', init, derived['window'],
                    ctx.spec(init, 'get_pfb_window(self.num_taps, self.num_branches, self.window_fn)', I=ctx.interp(expand=False)),
                    node=init.node, construct='self.window')

    # ---- D2 front end
    ctx.clause = 'D2'
    # the filterbank is a function of the sample VALUES: nothing in the module may read an array through its memory layout
    # (stride tricks, raw buffers, dtype re-interpretation) -- a non-contiguous input (x[::2], z.real) holds the same values
    # in a different layout
    LAYOUT_CALLS = {'frombuffer', 'ndpointer', 'from_dlpack'}
    LAYOUT_ATTRS = {'ctypes', 'data', '__array_interface__'}
    mod = ctx.prog.module('voltage.polyphase_filterbank')
    bad = []
    for fn_ in [f_ for f_ in ctx.prog.functions.values() if f_.module is mod and not isinstance(f_.node, ast.Lambda)]:
        for n in ast.walk(fn_.node):
            if isinstance(n, ast.Call):
                f = n.func
                name = f.attr if isinstance(f, ast.Attribute) else (f.id if isinstance(f, ast.Name) else None)
                if name in LAYOUT_CALLS or (name == 'view' and isinstance(f, ast.Attribute) and (n.args or n.keywords)):
                    bad.append(n)
                elif name == 'as_strided':
                    # a strided view is value-correct only when its strides come from the array's own .strides
                    st_ = next((k.value for k in n.keywords if k.arg == 'strides'), n.args[2] if len(n.args) > 2 else None)
                    src = ast.unparse(inline_locals(fn_.node, st_)) if st_ is not None else ''
                    if '.strides' not in src or 'itemsize' in src:
                        bad.append(n)
            elif isinstance(n, ast.Attribute) and n.attr in LAYOUT_ATTRS and not (
                    isinstance(n.value, ast.Name) and n.value.id == 'self'):
                bad.append(n)
    ctx.ob('EFFECTS', 'the filterbank reads its input by value only (no stride tricks / raw-buffer views / dtype re-interpretation: '
           'the result must not depend on the memory layout of the input array)', 'setigen/voltage/polyphase_filterbank.py',
           not bad, {'layout_dependent_constructs': [ast.unparse(n)[:100] for n in bad]}, node=(bad[0] if bad else None),
           construct=(ast.unparse(bad[0])[:80] if bad else 'module sweep'))
    fe = ctx.func(PF + 'pfb_frontend')
    r, I = ctx.run(fe)
    rr, IR = ctx.run_ref(fe, REF_FRONTEND)
    ctx.formula('AGREE', 'front end: result buffer == reference ((W-1)*T rows of B, W = floor(len/(T*B)))', fe,
                strip_dtype(r.ret), rr.ret, node=fe.node, construct='return pfb_frontend')
    sa = [e for e in I.events if e.kind == 'store' and e.data.get('target') == 'sub']
    sb = [e for e in IR.events if e.kind == 'store' and e.data.get('target') == 'sub']
    loops_a = [e for e in I.events if e.kind == 'loop']
    ctx.require(sa or loops_a, 'pfb_frontend: neither a row store nor a loop found (the sliding-window sum vanished)')
    if len(sa) != 1 or not sa[0].loops:
        # the weighted sum is organised differently (e.g. accumulated tap by tap over all rows instead of row by row):
        # equality of two summation orders is not a normal-form comparison -- not decided here; the returned buffer, the
        # layout sweep and the dtype rule above/below still are
        ctx.ob('AGREE', 'front end: the sliding-window sum is organised row by row as in the reference (one row store per output '
               'row); otherwise the row-wise comparison does not apply', fe, None,
               {'stores': [e.text() for e in sa], 'loops': [e.text()[:60] for e in loops_a]}, node=fe.node,
               construct='pfb_frontend loop organisation')
    else:
        ctx.formula('AGREE', 'front end: row index of the store == loop index', fe, sa[0].data['key'], sb[0].data['key'], node=sa[0].node,
                    construct='x_summed[t, :] [index]')
        ctx.formula('AGREE', 'front end: row t == sum over axis 0 of x_p[t:t+T] * h_p', fe, strip_dtype(sa[0].data['value']),
                    sb[0].data['value'], node=sa[0].node, construct='x_summed[t, :] [value]')
        la, lb = sa[0].loops[-1], sb[0].loops[-1]
        ctx.formula('AGREE', 'front end: number of output rows == (W-1)*T', fe, la['trip'], lb['trip'], node=la['node'],
                    construct='for t in range(...)')

    # ---- D3/D4 channelize incl. cache protocol
    ctx.clause = 'D3'
    ch = ctx.func(PF + 'PolyphaseFilterbank.channelize')
    T.SYMKIND['x'] = 'array'       # the voltage chunk is a numpy array
    agree_ref(ctx, ch, REF_CHANNELIZE, 'channelize = fft(frontend(cache ++ x), B)[:, :B//2]/sqrt(B); cache = tail T*B of the input',
              what=('return', 'heap'), no_inline=(PF + 'pfb_frontend',), expand=False)
    T.SYMKIND.pop('x', None)
    ctx.clause = 'D4'
    w = who_writes(ctx, 'cache', None)
    allowed = {PF + 'PolyphaseFilterbank.' + m for m in ('__init__', '_reset_cache', 'channelize')}
    extra = {k: v for k, v in w.items() if k.startswith('voltage.') and k not in allowed}
    ctx.ob('WHOWRITES', 'PolyphaseFilterbank.cache is written only by __init__, _reset_cache and channelize', cls.qual,
           not extra, {'writers': sorted(w), 'unexpected': sorted(extra)},
           node=(list(extra.values())[0] if extra else None), construct='.cache writers')
    # the filterbank's own use of channelize (the noise-level estimate) must not go through the streaming cache: run with
    # cache=True it would leave calibration noise in the cache (and consume the carried-over tail) of a stream in progress
    n_own = 0
    for mname, mfi in sorted(cls.methods.items()):
        if mname == 'channelize' or not isinstance(mfi.node, ast.FunctionDef):
            continue
        for n in ast.walk(mfi.node):
            if isinstance(n, ast.Call) and isinstance(n.func, ast.Attribute) and n.func.attr == 'channelize' and \
                    isinstance(n.func.value, ast.Name) and n.func.value.id == 'self':
                n_own += 1
                kwv = next((k.value for k in n.keywords if k.arg == 'cache'), n.args[1] if len(n.args) > 1 else None)
                ok = isinstance(kwv, ast.Constant) and kwv.value is False
                ctx.ob('EFFECTS', f'{mname}: the filterbank channelises its own calibration noise with cache=False (the streaming cache '
                       'of a stream in progress is neither consumed nor overwritten)', mfi, ok,
                       {'call': ast.unparse(n)[:100]}, node=n)
    ctx.require(n_own >= 1, 'PolyphaseFilterbank: no internal use of channelize found (estimate_channelized_stds anchor)')
    # the carried-over window must be the filterbank's own copy: a view of the caller's chunk would change when the caller
    # refills its buffer for the next chunk, and the chunked result would no longer equal the one-shot result
    from vstatic.effects import summaries
    esc = summaries(ctx.prog)[ch.qual]['escapes']
    held = [(pn, tgt) for pn, lst in esc.items() for tgt, _ in lst if pn != 'self']
    ctx.ob('ALIASINPLACE', 'channelize keeps no view of the caller\'s array between calls (the cached tail is a copy)', ch, not held,
           {'parameter_stored_into': held}, node=(esc[held[0][0]][0][1] if held else ch.node),
           construct=(ast.unparse(esc[held[0][0]][0][1])[:80] if held else 'self.cache = <copy>'))
    mod = ctx.prog.module('voltage.polyphase_filterbank')
    # (a module-level container that no function of the package modifies or re-binds is a constant table, not state;
    #  a name a function uses as a memo -- `_W.setdefault(...)`, `_W[k] = v` -- is state whether or not it is defined there)
    mg = ctx.prog.mutated_globals()
    mut_globals = sorted({k for (mn, k) in mg if mn == mod.name})
    cls_state = [ast.unparse(s)[:60] for s in cls.node.body if isinstance(s, ast.Assign)
                 and not isinstance(s.value, (ast.Constant, ast.Tuple))]
    ctx.ob('EFFECTS', 'no module-level or class-level mutable state (filterbank objects are independent)', cls.qual,
           not mut_globals and not cls_state, {'module_globals': mut_globals, 'class_attrs': cls_state},
           construct='module/class state')
    ctx.clause = 'D3b'
    agree_ref(ctx, ctx.func(PF + 'get_pfb_voltages'), REF_VOLTAGES, 'get_pfb_voltages = rfft(frontend(x, window))/sqrt(B)',
              what=('return',), no_inline=(PF + 'pfb_frontend', PF + 'get_pfb_window'))

    # ---- D6 dtype of pre-allocated buffers
    ctx.clause = 'D6'
    n = dtype_rule(ctx, fe)
    ctx.require(n >= 1, 'DTYPE: no pre-allocated buffer store found in pfb_frontend (rule would be vacuous)')
    if ctx.tier == 'thorough':
        for fi in ctx.prog.functions.values():
            if fi.module.name.startswith('setigen.voltage') and fi is not fe and not isinstance(fi.node, ast.Lambda):
                dtype_rule(ctx, fi)


META = {
    'technique': 'static analysis: symbolic value analysis against reference transcriptions of the FIR+DFT definition '
                 '(FORMULA/AGREE incl. loop-body stores and trip counts), attribute writer sets (WHOWRITES), allocation-dtype '
                 'dataflow (DTYPE) , module sweep for layout-dependent reads (EFFECTS)',
    'level': 'Decides from the source that the window, the sliding weighted sum (row t = sum of T rows from t times the '
             'window), the FFT length/axis/lower-half selection/normalisation and the cache protocol (tail of the concatenated'
             ' input taken before the front end, untouched when cache=False, written by three methods only) are those of the '
             'definition, and that no fixed-dtype buffer drops the imaginary part of complex input. Numerical equality with an'
             ' independent FIR+DFT evaluation is not decided. Also decided: the window carried between calls is the '
             "filterbank's own copy, never a view of the caller's array (ALIASINPLACE). Also decided: nothing in the "
             'filterbank module reads an array through its memory layout (as_strided with strides not taken from the array, '
             'raw buffers, dtype re-interpretation), so the result is a function of the sample values.',
    'note': 'Real arithmetic; numpy reshape/fft/sum/concatenate semantics taken from their signatures; the loop is analysed '
            'for a symbolic iteration index.',
}
