"""C07 Voltage frequency registration (DESIGN §4.C07)."""
import ast
from vstatic import terms as T
from vstatic.terms import sym, Term, Atom, lift, pretty, TRUE, FALSE
from vstatic.argbind import sweep
from .common import B, selfattr, header_terms

RU = 'voltage.raw_utils.'
DS = 'voltage.data_stream.DataStream'

REF_PFB_WATERFALL = '''
def get_pfb_waterfall(pfb_voltages_x, pfb_voltages_y=None, fftlength=256, int_factor=1):
    XX_psd = xp.zeros((pfb_voltages_x.shape[1], pfb_voltages_x.shape[0] // fftlength, fftlength))
    pfb_voltages_list = [pfb_voltages_x]
    if pfb_voltages_y is not None:
        pfb_voltages_list.append(pfb_voltages_y)
    for pfb_voltages in pfb_voltages_list:
        X_samples = pfb_voltages.T
        X_samples = X_samples[:, :(X_samples.shape[1] // fftlength) * fftlength]
        X_samples = X_samples.reshape((X_samples.shape[0], X_samples.shape[1] // fftlength, fftlength))
        XX = xp.fft.fft(X_samples, fftlength, axis=2) / fftlength**0.5
        XX = xp.fft.fftshift(XX, axes=2)
        XX_psd += xp.abs(XX)**2
    XX_psd = xp.concatenate(XX_psd, axis=1)
    XX_psd = XX_psd[:(XX_psd.shape[0] // int_factor) * int_factor]
    XX_psd = XX_psd.reshape(XX_psd.shape[0] // int_factor, int_factor, XX_psd.shape[1])
    XX_psd = XX_psd.sum(axis=1)
    return XX_psd
'''


def chirp_term(ctx):
    fi = ctx.func(DS + '.add_constant_signal')
    r, I = ctx.run(fi)
    app = [e for e in I.events if e.kind == 'call' and e.data.get('name') == '.append'
           and 'signal_sources' in ast.unparse(e.data['recv_node'])]
    ctx.require(app, 'DataStream.add_constant_signal no longer appends to signal_sources')
    clo = app[-1].data['args'][1]
    ctx.require(clo.single_atom() is not None and clo.single_atom().kind == 'closure',
                'the appended signal source is not a locally defined function')
    val = ctx.apply(I, fi, clo, [sym('ts')])
    return fi, app[-1], val


def run(ctx):
    # ---- D1 chirp
    ctx.clause = 'D1'
    fi, ev, val = chirp_term(ctx)
    spec = ctx.spec(fi, 'level * xp.cos(ITE(self.ascending, 1, -1) * 2 * xp.pi * ((f_start - self.fch1) * ts + '
                        'drift_rate * ts**2 / 2) + phase)', env={'ts': sym('ts')})
    ctx.formula('FORMULA', 'chirp == level*cos(±2π((f_start-fch1)t + drift t²/2) + phase)', fi, val, spec, node=ev.node,
                construct='signal_func')

    # ---- D2 coarse channel selection
    ctx.clause = 'D2'
    cdb = ctx.func(B + '.collect_data_block')
    r, I = ctx.run(cdb)
    sel = [e for e in I.events if e.kind == 'store' and e.data.get('target') == 'name' and e.owner == cdb.short
           and e.data['value'].single_atom() is not None and e.data['value'].single_atom().kind == 'sub'
           and '.channelize' in pretty(e.data['value'].single_atom().args[0])[:40]]
    ctx.require(sel, 'collect_data_block: the coarse-channel selection of the channelizer output was not found')
    idx = sel[0].data['value'].single_atom().args[1]
    J = ctx.interp()
    want = ctx.spec(cdb, 'ANY[:, self.start_chan:self.start_chan + self.num_chans]', env={'ANY': sym('ANY')}, I=J)
    ctx.formula('FORMULA', 'recorded channels are columns start_chan .. start_chan+num_chans-1 of the PFB output', cdb,
                idx, want.single_atom().args[1], node=sel[0].node)

    # ---- D3 header <-> parameters round trip
    ctx.clause = 'D3'
    hfi, Ih, rh, get = header_terms(ctx)
    grp = ctx.func(RU + 'get_raw_params')
    r, I = ctx.run(grp, no_inline=(RU + 'read_header',), args={'start_chan': ctx.spec(hfi, 'self.start_chan')})
    hdr = [e for e in I.events if e.kind == 'call' and e.data.get('name') == RU + 'read_header']
    ctx.require(hdr, 'get_raw_params no longer calls read_header')
    hatom_key = hdr[0].data['ret'].key if hdr[0].data.get('ret') is not None else None       # the parsed header, however it is named
    ctx.require(hatom_key is not None, 'get_raw_params: the value returned by read_header was not found')
    written = {}

    def sub_header(a):
        if a.kind == 'sub' and a.args[0].key == hatom_key:
            ka = a.args[1].single_atom()
            if ka is not None and ka.kind == 'str':
                written[ka.args[0]] = True
                return get(ka.args[0])
        if a.kind == 'cmp' and a.args[0] == 'in' and a.args[2].key == hatom_key:
            return T.mk_in(a.args[1], rh.ret)              # `key in header`: decided by what the writer stores
        if a.kind == 'call' and a.args[0] in ('.get', 'get') and len(a.args[1]) in (2, 3) and a.args[1][0].key == hatom_key:
            ka = a.args[1][1].single_atom()
            if ka is not None and ka.kind == 'str' and T.mk_in(a.args[1][1], rh.ret).key == TRUE.key:
                written[ka.args[0]] = True
                return get(ka.args[0])                     # header.get(key, default) of a key the writer always stores
        return None
    for key, spec in (('fch1', 'self.fch1'), ('chan_bw', 'self.chan_bw'), ('ascending', 'self.ascending'),
                      ('num_chans', 'self.num_chans'), ('num_bits', 'self.num_bits'),
                      ('num_pols', 'ITE(self.num_pols == 4, 2, self.num_pols)'), ('block_size', 'self.block_size'),
                      ('tbin', 'self.tbin'), ('num_antennas', 'self.num_antennas'), ('obs_length', 'self.obs_length')):
        v = I.subscript(r.ret, lift(key))
        comp = T.subst(v, sub_header)
        # the writer stores every key read here unconditionally (C04-D2): no KeyError arm
        exc = {k: False for k in T.conditions(comp) if 'exc(' in k}
        if exc:
            comp = T.assume(comp, exc)
        ctx.formula('AGREE', f"get_raw_params['{key}'] of a written header == backend.{key}", grp, comp,
                    ctx.spec(hfi, spec), node=grp.node, construct=f"raw_params['{key}']")

    # ---- D4 positional argument binding, package wide
    ctx.clause = 'D4'
    finds, resolved, total = sweep(ctx.prog)
    ctx.require(resolved >= 150, f'ARGBIND resolved only {resolved} package-internal call sites (vacuity guard)')
    ctx.note(f'ARGBIND: {resolved} of {total} call sites resolve to package functions and were checked')
    by_call = {}
    for cfi, n, callee, i, actual, formal in finds:
        by_call.setdefault((cfi.short, id(n)), (cfi, n, callee, []))[3].append((i, actual, formal))
    for (cs, _), (cfi, n, callee, lst) in by_call.items():
        ctx.ob('ARGBIND', f'positional arguments of {callee.short} bind to the formals they are named after', cfi, False,
               {'callee': callee.short, 'formals': callee.params(),
                'misbound': [f'position {i}: `{a}` is passed for formal `{f}`' for i, a, f in lst]}, node=n)
    if not finds:
        ctx.ob('ARGBIND', 'no positional argument is named like a different formal of its callee', 'setigen/**', True,
               {'resolved_call_sites': resolved}, construct='package sweep')
    wf = ctx.func('voltage.waterfall.get_waterfall_from_raw')
    r, I = ctx.run(wf, no_inline=('voltage.waterfall.get_pfb_waterfall', RU + 'read_header', RU + 'get_header_size'))
    call = [e for e in I.events if e.kind == 'call' and e.data.get('name') == 'voltage.waterfall.get_pfb_waterfall']
    ctx.require(call, 'get_waterfall_from_raw no longer calls get_pfb_waterfall')
    b = call[-1].data['bound']
    for p in ('fftlength', 'int_factor'):
        ctx.formula('AGREE', f'quick-look reducer forwards {p} to the fine channeliser', wf, b.get(p, T.NONE), sym(p),
                    node=call[-1].node, construct=f'get_pfb_waterfall({p}=...)')
    # byte de-interleave of the reducer (8 bit, 2 pol)
    rb = [e for e in I.events[:I.events.index(call[-1])] if e.kind == 'store' and e.data.get('target') == 'name' and e.owner == wf.short
          and e.data['value'].single_atom() is not None and e.data['value'].single_atom().kind == 'call'
          and any(a.kind == 'call' and a.args[0] == 'frombuffer' for a in T.all_atoms(e.data['value']).values())]
    ctx.require(rb, 'get_waterfall_from_raw: the raw byte buffer (np.frombuffer(...)) was not found')
    for pname, lo in (('pfb_voltages_x', 0), ('pfb_voltages_y', 2)):
        v = b.get(pname, T.NONE)
        want = ctx.spec(wf, f'(RB[:, {lo}::4] + RB[:, {lo + 1}::4] * 1j).T', env={'RB': rb[-1].data['value']})
        ctx.formula('AGREE', f'{pname} is re = byte {lo}::4, im = byte {lo + 1}::4 of each 4-byte sample', wf, v, want,
                    node=call[-1].node, construct=f'rawbuffer -> {pname}')

    # ---- D5 fine channelisation
    ctx.clause = 'D5'
    pw = ctx.func('voltage.waterfall.get_pfb_waterfall')
    r, I = ctx.run(pw)
    rr, IR = ctx.run_ref(pw, REF_PFB_WATERFALL)
    o_ret = ctx.formula('AGREE', 'get_pfb_waterfall (after the accumulation loop) == reference: concatenate coarse channels on the '
                        'frequency axis, integrate int_factor time rows', pw, r.ret, rr.ret, node=pw.node,
                        construct='return XX_psd')
    # when the polarisation loop is unrolled on both sides the returned value is a closed form that contains every
    # accumulation: decided equal, it leaves nothing for the step-by-step comparison (which would only pin down WHERE the
    # shift is applied: before or after adding the polarisations is the same function)
    closed = o_ret.verdict == 'HOLDS' and not any(a_.kind in ('after', 'loopvar') for t_ in (r.ret, rr.ret)
                                                  for a_ in T.all_atoms(t_).values())

    def accum(II):
        # the per-polarisation accumulation (inside a loop, or unrolled over the literal polarisation list)
        es = [e for e in II.events if e.kind == 'store' and e.data.get('target') == 'name' and e.data.get('aug') == 'Add'
              and e.data.get('rhs') is not None and any(a.kind == 'call' and a.args[0] in ('fft', 'fftshift')
                                                        for a in T.all_atoms(e.data['rhs']).values())]
        return es
    a, ar = accum(I), accum(IR)
    ctx.require(a and ar, 'get_pfb_waterfall: accumulation into XX_psd inside the polarisation loop not found')
    # (compared as guarded events: the x polarisation added once under either branch, or once unconditionally, is the same)
    from .common import _match_groups
    if not closed:
        _match_groups(ctx, 'AGREE', 'get_pfb_waterfall: |fftshift(fft(fine axis)/sqrt(F))|^2 of every given polarisation is added once',
                      pw, 'accumulation', a, ar, lambda e: [('value', e.data['rhs']), ('guard', e.cond())], lambda e: e.text()[:70])
    def zeros_init(II, acc):
        nm = acc[0].data['name']
        return [e for e in II.events if e.kind == 'store' and e.data.get('target') == 'name' and e.data.get('name') == nm
                and e.data.get('aug') is None and e.seq < acc[0].seq]
    init, initr = zeros_init(I, a), zeros_init(IR, ar)
    ctx.require(init and initr, 'get_pfb_waterfall: the initialisation of the accumulator was not found')
    ctx.formula('AGREE', 'accumulator shape == (chan, time//F, F)', pw, init[0].data['value'], initr[0].data['value'],
                node=init[0].node)

    # ---- D6 unit drift rate
    ctx.clause = 'D6'
    u = ctx.func('voltage.level_utils.get_unit_drift_rate')
    r, I = ctx.run(u, typed_params={'raw_voltage_backend': B})
    ctx.formula('FORMULA', 'get_unit_drift_rate == (chan_bw/fftlength) / (tbin*fftlength*int_factor)', u, r.ret,
                ctx.spec(u, '(raw_voltage_backend.chan_bw / fftlength) / (raw_voltage_backend.tbin * fftlength * int_factor)',
                         typed_params={'raw_voltage_backend': B}), node=u.node, construct='return get_unit_drift_rate')
    lf = ctx.func('voltage.level_utils.get_leakage_factor')
    r, I = ctx.run(lf, typed_params={'raw_voltage_backend': B})
    ctx.formula('FORMULA', 'leakage factor uses the fine-bin offset (f_start - fch1)/(chan_bw/fftlength)', lf, r.ret,
                ctx.spec(lf, '1 / np.sinc(np.min([np.modf((f_start - raw_voltage_backend.fch1) / (raw_voltage_backend.chan_bw / fftlength))[0], '
                             '1 - np.modf((f_start - raw_voltage_backend.fch1) / (raw_voltage_backend.chan_bw / fftlength))[0]]))',
                         typed_params={'raw_voltage_backend': B}), node=lf.node, construct='return get_leakage_factor')
    # a tone is a cosine of the stream's time axis: it sits at its header frequency in the recording only if that axis is continuous
    # across the many short requests (sub-blocks) a recording is made of -- one repeated or skipped time stamp per request scales
    # every baseband frequency by (N -+ 1)/N
    from .c10 import stream_time_step
    ctx.clause = 'D7'
    stream_time_step(ctx, ' [tone registration across sub-block requests]')
    # registration "from the file's own header": the header is the one on disk at the time of the call
    from .common import memo_obligation
    memo_obligation(ctx, ctx.func('voltage.raw_utils.read_header'), "the reducer registers frequencies from the file's own header, re-read on every call")


META = {
    'technique': 'static analysis: symbolic value analysis (FORMULA, reader∘writer AGREE by substituting the written header '
                 'terms into the reader), package-wide argument-binding check over the resolved call graph (ARGBIND), '
                 'reference-transcription comparison of the fine channeliser',
    'level': 'Decides from the source that the chirp phase is the stated closed form (sign flipped for descending bands), '
             'that the recorded channels are start_chan..start_chan+num_chans-1, that get_raw_params applied to the header '
             "terms the backend writes returns the backend's own fch1/chan_bw/orientation/counts, that no positional argument "
             'in the package is bound to a differently named formal, and that the fine channeliser applies FFT/fftshift on '
             'the fine axis, concatenates on the frequency axis and integrates time rows. Whether a tone lands in the '
             'predicted bin numerically is not decided.',
    'note': 'Real arithmetic; header formatting/parsing (str<->number) treated as the identity; receivers of duck-typed '
            'calls resolved by unique method name.',
}
