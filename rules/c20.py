"""C20 Block / length / sample accounting (DESIGN §4.C20)."""
import ast
from vstatic import terms as T
from vstatic.terms import sym, Term, lift, pretty
from .common import B, selfattr, kind_of, header_terms, RECORD_NO_INLINE, record_block_requests


def run(ctx):
    cls = ctx.prog.cls(B)
    init = ctx.func(B + '.__init__')
    derived, base = ctx.exp.build(cls)

    # ---- D1 derived sizes
    ctx.clause = 'D1'
    for attr, spec in (
            ('bytes_per_sample', '2 * self.num_pols * self.num_bits // 8'),
            ('samples_per_block', 'self.block_size // (self.num_antennas * self.num_chans * (2 * self.num_pols * self.num_bits // 8))'),
            ('tbin', 'self.num_branches / self.sample_rate'),
            ('time_per_block', '(self.block_size // (self.num_antennas * self.num_chans * (2 * self.num_pols * self.num_bits // 8))) * self.num_branches / self.sample_rate'),
            ('chan_bw', 'ITE(self.ascending, 1, -1) * self.sample_rate / self.num_branches')):
        ctx.require(attr in derived, f'RawVoltageBackend.{attr} is no longer derived purely from the configuration in __init__')
        I0 = ctx.interp(expand=False)
        ctx.formula('FORMULA', f'{attr} == {spec}', init, derived[attr], ctx.spec(init, spec, I=I0), node=init.node,
                    construct=f'self.{attr}')
    # block_size divisibility assertion (licenses exact division below)
    r, I = ctx.run(init, expand=False)
    asserts = [e for e in I.events if e.kind == 'assert' and 'block_size' in pretty(e.data['cond']) and 'mod(' in pretty(e.data['cond'])]
    ctx.ob('GUARDDOM', 'constructor asserts block_size is a multiple of antennas*chans*taps*bytes_per_sample', init,
           bool(asserts), {'asserts': [e.text() for e in asserts]}, node=init.node, construct='assert block_size % ... == 0')

    # ---- record(): obs_length, total samples
    rec = ctx.func(B + '.record')
    T.INTEGER.update({'num_blocks'})
    r, I = ctx.run(rec, no_inline=RECORD_NO_INLINE)
    ol = ctx.stores(I, 'attr', 'obs_length', func=rec.short)
    tot = ctx.stores(I, 'attr', 'total_obs_num_samples', func=rec.short)
    ctx.require(ol and tot, 'record() no longer stores obs_length / total_obs_num_samples')
    ctx.formula('FORMULA', 'obs_length == num_blocks * time_per_block', rec, ol[-1].data['value'],
                ctx.spec(rec, 'self.num_blocks * self.time_per_block', env={}, I=_with_heap(ctx, I, rec)),
                node=ol[-1].node)
    ctx.formula('FORMULA', 'total_obs_num_samples == num_blocks * samples_per_block * num_branches (over the reals)', rec,
                tot[-1].data['value'],
                ctx.spec(rec, 'self.num_blocks * self.samples_per_block * self.num_branches', I=_with_heap(ctx, I, rec)),
                node=tot[-1].node)

    # ---- D3 EXACTCOUNT: integer accounting quantities in Int arithmetic
    ctx.clause = 'D3'
    r2, I2 = ctx.run(rec, no_inline=RECORD_NO_INLINE, expand=False, sticky_attrs=('num_blocks',))
    tot2 = ctx.stores(I2, 'attr', 'total_obs_num_samples', func=rec.short)
    k, bad = kind_of(tot2[-1].data['value'])
    ctx.ob('EXACTCOUNT', 'total_obs_num_samples is computed in integer arithmetic (no truncation of float quotients)',
           rec, (k == 'Int' and not bad) if k != 'Unknown' or bad else None,
           {'kind': k, 'float_truncations': bad, 'term': pretty(tot2[-1].data['value'])}, node=tot2[-1].node)
    r3, I3 = ctx.run(init, expand=False)
    spb = ctx.stores(I3, 'attr', 'samples_per_block')
    ctx.require(spb, '__init__ no longer stores samples_per_block')
    v = _attrs_only(ctx, init, 'self.block_size // (self.num_antennas * self.num_chans * self.bytes_per_sample)')
    k, bad = kind_of(_reexpress(spb[-1].data['value'], I3))
    ctx.ob('EXACTCOUNT', 'samples_per_block is computed in integer arithmetic', init,
           (k == 'Int' and not bad) if k != 'Unknown' or bad else None, {'kind': k, 'float_truncations': bad},
           node=spb[-1].node)
    fi, Ih, rh, get = header_terms(ctx)
    for key in ('PKTSTOP',):
        k, bad = kind_of(get(key))
        ctx.ob('EXACTCOUNT', f'{key} is computed in integer arithmetic', fi, (not bad) if k != 'Real' else False,
               {'kind': k, 'float_truncations': bad, 'term': pretty(get(key))[:300]}, node=fi.node,
               construct=f"header_dict['{key}']")
    ctx.formula('FORMULA', 'PKTSTOP == PKTSTART + num_blocks * samples_per_block', fi, get('PKTSTOP'),
                ctx.spec(fi, "int(HD_PKTSTART) + self.num_blocks * self.samples_per_block",
                         env={'HD_PKTSTART': get('PKTSTART')}), node=fi.node, construct="header_dict['PKTSTOP']")
    ctx.formula('FORMULA', 'SCANLEN == obs_length', fi, get('SCANLEN'), ctx.spec(fi, 'self.obs_length'), node=fi.node,
                construct="header_dict['SCANLEN']")

    # ---- D2 helpers agree with the backend (exact division licensed by the constructor assertion)
    ctx.clause = 'D2'
    T.EXACT_MODE[0] = True
    try:
        gnb = ctx.func(B + '.get_num_blocks')
        r, I = ctx.run(gnb)
        ctx.formula('AGREE', 'get_num_blocks == floor(obs_length / time_per_block)', gnb, r.ret,
                    ctx.spec(gnb, 'int(obs_length / self.time_per_block)'), node=gnb.node, construct='return get_num_blocks')
        h = ctx.func('voltage.backend.get_total_obs_num_samples')
        T.INTEGER.update({'num_blocks', 'block_size', 'num_antennas', 'num_chans', 'num_pols', 'num_bits', 'num_branches'})
        T.NOTNONE.update({'num_blocks', 'obs_length'})
        r, I = ctx.run(h, args={'length_mode': lift('num_blocks')})
        ctx.formula('AGREE', 'get_total_obs_num_samples(num_blocks mode) == backend total', h, r.ret,
                    ctx.spec(h, 'num_blocks * (block_size / (num_antennas * num_chans * (2 * num_pols * num_bits / 8))) * num_branches'),
                    node=h.node, construct='return [num_blocks mode]')
        r, I = ctx.run(h, args={'length_mode': lift('obs_length')})
        ctx.formula('AGREE', 'get_total_obs_num_samples(obs_length mode) uses the backend block count', h, r.ret,
                    ctx.spec(h, 'int(obs_length * (sample_rate / num_branches) * num_antennas * num_chans * (2 * num_pols * num_bits / 8) / block_size)'
                                ' * (block_size / (num_antennas * num_chans * (2 * num_pols * num_bits / 8))) * num_branches'),
                    node=h.node, construct='return [obs_length mode]')
        k, bad = kind_of(ctx.run(h, args={'length_mode': lift('num_blocks')}, expand=False)[0].ret)
        g = ctx.func('voltage.backend.get_block_size')
        r, I = ctx.run(g)
        ctx.formula('AGREE', 'get_block_size == tchans_per_block*fftlength*int_factor * obsnchan * bytes_per_sample', g, r.ret,
                    ctx.spec(g, 'tchans_per_block * fftlength * int_factor * num_chans * num_antennas * (2 * num_pols * num_bits / 8)'),
                    node=g.node, construct='return get_block_size')
    finally:
        T.EXACT_MODE[0] = False
    u = ctx.func('voltage.level_utils.get_unit_drift_rate')
    r, I = ctx.run(u, typed_params={'raw_voltage_backend': B})
    ctx.formula('AGREE', 'get_unit_drift_rate == (chan_bw/fftlength) / (tbin*fftlength*int_factor)', u, r.ret,
                ctx.spec(u, '(raw_voltage_backend.chan_bw / fftlength) / (raw_voltage_backend.tbin * fftlength * int_factor)',
                         typed_params={'raw_voltage_backend': B}), node=u.node, construct='return get_unit_drift_rate')
    # the sub-blocks of a block cover all of its spectra (so exactly samples_per_block*num_branches samples are drawn per block)
    ctx.clause = 'D4'
    cdb = ctx.func(B + '.collect_data_block')
    rc, Ic = ctx.run(cdb, heap={'num_bits': lift(8), 'input_file_stem': T.NONE}, args={'requantize': T.TRUE},
                     no_inline=(B + '._read_next_block',), expand=False, max_depth=0)
    nsb = [e for e in Ic.events if e.kind == 'store' and e.data.get('target') == 'attr' and e.data.get('name') == 'num_subblocks']
    ctx.require(nsb, 'collect_data_block no longer re-derives num_subblocks')
    J = ctx.interp(expand=False)
    # spectra per block / per sub-block, written over the backend's attributes only (no local names of the code are used)
    TT = ctx.spec(cdb, 'int(self.block_size / (self.num_chans * self.num_antennas * self.bytes_per_sample))', I=J)
    ST = ctx.spec(cdb, 'self.num_taps * int(xp.ceil(TT / self.num_taps / self.num_subblocks))', env={'TT': TT}, I=J)
    ctx.formula('FORMULA', 'number of sub-blocks == ceil(T / subblock_T) with T = block_size/(channels*antennas*bytes_per_sample) and '
                'subblock_T = num_taps*ceil(T/num_taps/num_subblocks): the trailing partial sub-block is kept, so the sub-blocks cover '
                'the whole block', cdb, nsb[0].data['value'],
                ctx.spec(cdb, 'int(xp.ceil(TT / ST))', env={'TT': TT, 'ST': ST}, I=J), node=nsb[0].node)
    # the window count of a sub-block is what is requested from the antenna source at the start of an observation, in units of
    # one window (num_taps*num_branches samples): every sub-block asks for a full sub-block, a trailing partial one for the
    # remainder  (stated on the request, whatever locals the code uses to get there)
    req = [e for e in Ic.events if e.kind == 'call' and e.data.get('name') == '.get_samples' and e.loops
           and 'antenna_source' in ast.unparse(e.data['recv_node'])]
    ctx.require(len(req) == 1, 'collect_data_block: the per-sub-block request to the antenna source was not found')
    so = T.mk_attr(T.mk_attr(sym('self'), 'antenna_source'), 'start_obs')
    TB = ctx.spec(cdb, 'self.num_taps * self.num_branches', I=ctx.interp(expand=False))
    W1 = T.assume(req[0].data['args'][1], {so.key: True}) / TB
    JH = _with_heap(ctx, Ic, cdb)
    wantW = ctx.spec(cdb, 'ITE(TT % ST != 0 and SB == self.num_subblocks - 1, int((TT % ST) / self.num_taps) + 1, ST / self.num_taps + 1)',
                     env={'TT': TT, 'ST': ST, 'SB': req[0].loops[0]['index']}, I=JH)
    ctx.formula('FORMULA', 'every sub-block requests a full sub-block of windows; only a trailing partial sub-block is shortened, to '
                'exactly the remainder T mod subblock_T', cdb, W1, wantW, node=req[0].node,
                construct='antenna_source.get_samples(...) [windows per sub-block]')
    # number of blocks chosen per length mode
    ctx.clause = 'D2b'
    T.NOTNONE.update({'obs_length', 'num_blocks'})
    for mode, spec in (('obs_length', 'self.get_num_blocks(obs_length)'), ('num_blocks', 'num_blocks')):
        r, I = ctx.run(rec, args={'length_mode': lift(mode)}, no_inline=RECORD_NO_INLINE,
                       heap={'input_num_blocks': T.NONE})
        nb = ctx.stores(I, 'attr', 'num_blocks', func=rec.short)
        ctx.require(nb, 'record() no longer stores num_blocks')
        ctx.formula('FORMULA', f'length_mode={mode}: num_blocks == {spec}', rec, nb[-1].data['value'],
                    ctx.spec(rec, spec), node=nb[-1].node, construct=f'self.num_blocks [{mode}]')
    # exactly num_blocks blocks are requested from the antenna (file split included)
    ctx.clause = 'D2c'
    r, Ir = ctx.run(rec, no_inline=RECORD_NO_INLINE)
    record_block_requests(ctx, rec, Ir)
    # SCANLEN / PKTSTOP describe THIS recording: the cards are rendered per block from the current dictionary
    from .common import header_rendered_afresh
    ctx.clause = 'D4'
    header_rendered_afresh(ctx, ' (SCANLEN and PKTSTOP of a later recording on the same backend)')
    # "...and advances its clock accordingly": every source class advances its own clock by exactly the samples it hands out --
    # for an array that is num_samples, not the (max_delay longer) background request of the first call of an observation
    ctx.clause = 'D5'
    for cls_ in ('voltage.antenna.Antenna', 'voltage.antenna.MultiAntennaArray'):
        gs = ctx.func(cls_ + '.get_samples')
        rg, Ig = ctx.run(gs, max_depth=0, expand=False)
        own = [e for e in Ig.events if e.kind == 'store' and e.data.get('target') == 'attr' and e.data.get('name') == 't_start'
               and e.data['base'].key == sym('self').key]
        ctx.require(own, f'{cls_}.get_samples no longer advances its own clock')
        ctx.formula('FORMULA', f'{cls_.split(".")[-1]}.get_samples advances the source clock by num_samples * dt', gs, own[-1].data['value'],
                    ctx.spec(gs, 'self.t_start + num_samples * self.dt', I=ctx.interp(expand=False)), node=own[-1].node,
                    construct='self.t_start += ... [source clock]')


def _with_heap(ctx, I, fi):
    """A spec interpreter that sees the attribute values stored so far by I (flow-sensitive reads)."""
    J = ctx.interp()
    J.heap = dict(I.heap)
    return J


def _attrs_only(ctx, fi, expr):
    return ctx.spec(fi, expr, I=ctx.interp(expand=False))


def _reexpress(v, I):
    return v


META = {
    'technique': 'static analysis: symbolic value analysis (FORMULA/AGREE), kind inference (EXACTCOUNT), guard presence',
    'level': 'Decides from the source that samples-per-block, tbin, time-per-block, obs_length, total samples, SCANLEN, '
             'PKTSTOP and the block count per length mode are the stated closed forms of the configuration, that the stand-'
             'alone helpers compute the same real functions as the backend (exact division licensed by the constructor '
             'assertion, whose presence is checked), and that the integer accounting quantities are not obtained by truncating'
             ' float quotients. Also decided: record() requests exactly num_blocks blocks (file/block loop trip counts) and '
             'the sub-blocks of a block cover all its spectra (every sub-block requests a full sub-block of windows, only a '
             'trailing partial one is shortened to the remainder; stated on the request to the antenna source). The floating-'
             'point value of time products is not decided.',
    'note': 'Real arithmetic; kinds (Int/Rat/Real) come from a name table of the configuration attributes; '
            'divisibility of block_size is taken from the constructor assert.',
}
