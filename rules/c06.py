"""C06 Injection is additive, confined to its bounding range, state-preserving (DESIGN §4.C06)."""
import ast
from vstatic import terms as T
from vstatic.terms import sym, Term, Atom, lift, pretty, TRUE, FALSE, NONE
from vstatic.effects import summaries
from vstatic.argbind import resolve_callee
from .common import who_writes, INT_ATTRS, REAL_ATTRS, leaf_mutations, fold_new_helpers

FR = 'frame.Frame.'


def lower_ok(t):
    c = t.const()
    if c is not None:
        return c >= 0
    at = t.single_atom()
    if at is not None and at.kind == 'call' and at.args[0] in ('max', 'maximum'):
        return any(lower_ok(x) for x in at.args[1])
    if at is not None and at.kind == 'call' and at.args[0] in ('min', 'minimum'):
        return all(lower_ok(x) for x in at.args[1])
    if at is not None and at.kind == 'call' and at.args[0] == 'clip':
        kw = dict(at.args[2])
        lo = kw.get('a_min')
        return lo is not None and lower_ok(lo)
    if at is not None and at.kind == 'ite':
        return lower_ok(at.args[1]) and lower_ok(at.args[2])
    return T.is_nonneg(t)


def upper_ok(t, F):
    if t.key == F.key:
        return True
    c = t.const()
    if c is not None:
        return c <= 0
    at = t.single_atom()
    if at is not None and at.kind == 'call' and at.args[0] in ('min', 'minimum'):
        return any(upper_ok(x, F) for x in at.args[1])
    if at is not None and at.kind == 'call' and at.args[0] in ('max', 'maximum'):
        return all(upper_ok(x, F) for x in at.args[1])
    if at is not None and at.kind == 'call' and at.args[0] == 'clip':
        kw = dict(at.args[2])
        hi = kw.get('a_max')
        return hi is not None and upper_ok(hi, F)
    if at is not None and at.kind == 'ite':
        return upper_ok(at.args[1], F) and upper_ok(at.args[2], F)
    return False


def evaluated_frequencies(value):
    """the frequencies the injected signal is evaluated on: the first argument of the (user) frequency profile in the value
    that is added to the data, with the row replication of the grid (np.meshgrid / repeat) taken off"""
    fp = sym('f_profile')
    for a in T.all_atoms(value).values():
        if a.kind == 'call' and a.args[0] == 'apply' and a.args[1] and a.args[1][0].key == fp.key and len(a.args[1]) >= 2:
            ff = a.args[1][1]
            fa = ff.single_atom()
            if fa is not None and fa.kind == 'call' and fa.args[0] == 'tile_rows' and fa.args[1]:
                return fa.args[1][0]
            return ff
    return None


def callees_of(prog, fi, seen=None):
    seen = seen if seen is not None else set()
    for n in ast.walk(fi.node):
        if isinstance(n, ast.Call):
            rc = resolve_callee(prog, fi, n)
            if rc is not None and rc[0].qual not in seen:
                seen.add(rc[0].qual)
                callees_of(prog, rc[0], seen)
    return seen


def run(ctx):
    prog = ctx.prog
    S = summaries(prog)
    fi = ctx.func(FR + 'add_signal')
    s = S[fi.qual]
    # ---- D1 write set
    ctx.clause = 'D1'
    other = []
    for kind, path, how, node, owner in leaf_mutations(prog, S, fi):
        leaf = path.split('.')[-1]
        if how == 'augmented assignment' and (leaf in INT_ATTRS or leaf in REAL_ATTRS):
            continue      # `x = self.n; x += 1` rebinds a local number
        if path == 'self.data' and how in ('item aug-store',):
            continue
        other.append((path, how, ast.unparse(node)[:80], node))
    ctx.ob('EFFECTS', 'add_signal writes nothing but an in-place addition into self.data[...]', fi, not other,
           {'other_writes': [o[:3] for o in other]}, node=(other[0][3] if other else fi.node),
           construct=(other[0][2] if other else 'write set of add_signal'))
    reach = callees_of(prog, fi) | {fi.qual}
    noisy = sorted(q for q in reach if q.split('.')[-1] in ('add_noise', 'add_noise_from_obs', '_update_noise_frame_stats',
                                                           'zero_data', '_update_fs', '_update_ts'))
    ctx.ob('EFFECTS', 'add_signal reaches no noise routine, statistics update or axis rebuild', fi, not noisy,
           {'reachable_package_functions': sorted(q[8:] for q in reach), 'forbidden': noisy}, node=fi.node,
           construct='callees of add_signal')
    rng_reads = []
    for q in reach:
        f2 = prog.functions[q]
        for n in ast.walk(f2.node):
            if isinstance(n, ast.Attribute) and n.attr == 'rng' and q in (fi.qual,):
                rng_reads.append((f2.short, n.lineno))
            if isinstance(n, ast.Attribute) and isinstance(n.value, ast.Attribute) and n.value.attr == 'random':
                rng_reads.append((f2.short, n.lineno))
    ctx.ob('EFFECTS', 'add_signal does not touch the frame\'s random generator', fi, not rng_reads, {'reads': rng_reads},
           node=fi.node, construct='self.rng in add_signal')

    # ---- D2 caller arrays and axes are not modified in place
    ctx.clause = 'D2'
    pm = [(p, [h for _, h in v]) for (k, p), v in s['mutates'].items() if k == 'param' and not p.startswith('self')]
    ctx.ob('ALIASINPLACE', 'no caller-supplied array (path, t_profile, bp_profile, bounding range) is modified', fi, not pm,
           {'mutated_parameters': pm}, node=fi.node, construct='parameters of add_signal')
    views = []
    for n in ast.walk(fi.node):
        if isinstance(n, ast.Call) and isinstance(n.func, ast.Attribute) and n.func.attr == 'meshgrid':
            for kw in n.keywords:
                if kw.arg in ('copy', 'sparse'):
                    views.append(ast.unparse(n))
        if isinstance(n, ast.Call) and isinstance(n.func, ast.Attribute) and n.func.attr in ('asarray', 'asanyarray', 'broadcast_to'):
            views.append(ast.unparse(n))
    ctx.ob('ALIASINPLACE', 'working grids are fresh copies (meshgrid default copy=True, np.array not asarray)', fi, not views,
           {'view_producing_calls': views}, node=fi.node, construct='meshgrid/asarray in add_signal')

    # ---- D3/D4 the slice
    ctx.clause = 'D3'
    # the bounding frequencies become a half-open channel range [get_index(lo), get_index(hi)): the exclusive upper index has to
    # be able to reach fchans (and exceed it, then clipped by add_signal), so get_index must be the plain rounded offset --
    # an index clamped into [0, fchans-1] would drop the last channel of every range that touches the upper band edge
    gi = ctx.func(FR + 'get_index')
    rgi, _ = ctx.run(gi)
    ctx.formula('FORMULA', 'get_index is the unclamped rounded channel offset round((f - fmin)/df) (the exclusive upper bound of a '
                'bounding range can reach fchans)', gi, rgi.ret,
                ctx.spec(gi, 'np.round((frequency - self.fmin) / self.df).astype(int)'), node=gi.node, construct='return get_index')
    T.NOTNONE.update({'path', 't_profile', 'f_profile', 'BFR'})
    T.INTEGER.update({'t_subsamples', 'f_subsamples', 'smearing_subsamples'})      # (sub-sample counts are positive integers)
    T.POSITIVE.update({'t_subsamples', 'f_subsamples', 'smearing_subsamples'})
    T.SYMKIND.update({'path': 'callable', 't_profile': 'callable'})
    F = ctx.spec(fi, 'self.fchans')
    for bounded in (False, True):
        r, I = ctx.run(fi, args={'bounding_f_range': sym('BFR') if bounded else NONE, 'bp_profile': NONE,
                                 'integrate_path': FALSE, 'integrate_t_profile': FALSE, 'integrate_f_profile': FALSE,
                                 'doppler_smearing': FALSE}, no_inline=(FR + 'get_index',))
        tag = 'bounded' if bounded else 'unbounded'
        ds = [e for e in I.events if e.kind == 'store' and e.data.get('target') == 'sub' and e.owner == fi.short
              and ast.unparse(e.data['base_node']) == 'self.data']
        sf = [e for e in I.events if e.kind == 'store' and e.data.get('target') == 'sub' and e.owner == fi.short
              and isinstance(e.data['base_node'], ast.Name)]
        if not (len(ds) == 1 and len(sf) == 1):
            ctx.ob('AGREE', f'[{tag}] the data is updated by exactly one in-place addition into self.data[:, lo:hi] and the returned '
                   'frame is filled once', fi, False, {'data_updates': [e.text() for e in ds], 'returned_frame_fills': [e.text() for e in sf]},
                   node=fi.node, construct='self.data[:, lo:hi] += signal')
            continue
        # the update is not skipped for some signals: whenever the call returns, the addition has been made (an early `return zeros`
        # for a signal centred outside the range would drop the wings of its profile that reach into the range)
        reach_ = T.mk_or([c_ for c_, _ in r.returns] + ([r.live] if r.live.key != FALSE.key else []))
        ctx.formula('AGREE', f'[{tag}] every call that returns has made the addition (no early exit that depends on where the signal '
                    'lies)', fi, ds[0].cond(), reach_, node=ds[0].node, construct=ds[0].text() + ' [reached whenever the call returns]')
        ctx.ob('AGREE', f'[{tag}] the data update is an in-place addition (injections superpose)', fi, ds[0].data.get('aug') == 'Add',
               {'statement': ds[0].text()}, node=ds[0].node)
        ctx.formula('AGREE', f'[{tag}] the columns added to the data are the columns filled in the returned frame', fi,
                    ds[0].data['key'], sf[0].data['key'], node=sf[0].node, construct=sf[0].text() + ' [columns]')
        ctx.formula('AGREE', f'[{tag}] what is added to the data is what is returned', fi, ds[0].data['rhs'], sf[0].data['value'],
                    node=sf[0].node, construct=sf[0].text() + ' [value]')
        base = sf[0].data['base']
        ctx.formula('AGREE', f'[{tag}] the returned frame is zero outside those columns', fi, base,
                    ctx.spec(fi, 'np.zeros(self.shape)'), node=sf[0].node, construct='signal_frame allocation')
        ctx.clause = 'D4'
        ka = ds[0].data['key'].single_atom()
        ok_shape = ka is not None and ka.kind == 'tuple' and len(ka.args) == 2 and ka.args[1].single_atom() is not None \
            and ka.args[1].single_atom().kind == 'slice' and ka.args[0].key == T.mk_slice(NONE, NONE, NONE).key
        ctx.ob('RANGE', f'[{tag}] all time rows, one contiguous column slice', fi, ok_shape, {'index': pretty(ds[0].data['key'])},
               node=ds[0].node, construct=ds[0].text() + ' [shape of index]')
        if ok_shape:
            lo, hi, st = ka.args[1].single_atom().args
            for nm, b in (('start', lo), ('stop', hi)):
                ctx.ob('RANGE', f'[{tag}] column slice {nm} lies in [0, fchans] (a negative bound would wrap around)', fi,
                       lower_ok(b) and upper_ok(b, F), {'bound': pretty(b), '>=0': lower_ok(b), '<=fchans': upper_ok(b, F)},
                       node=ds[0].node, construct=ds[0].text() + f' [{nm}]')
            fr_ = evaluated_frequencies(ds[0].data.get('rhs') if ds[0].data.get('rhs') is not None else ds[0].data['value'])
            ctx.require(fr_ is not None, 'add_signal: the frequencies handed to f_profile (the frequency grid) were not found')
            want = ctx.spec(fi, 'self.fs[LO:HI]', env={'LO': lo, 'HI': hi})
            ctx.formula('AGREE', f'[{tag}] the frequencies evaluated are those of the written columns', fi, fr_, want,
                        node=ds[0].node, construct='f_profile(<frequency grid>, ...)')
            # with frequency sub-sampling the grid must still be anchored on (and span) exactly the written columns
            r2, I2 = ctx.run(fi, args={'bounding_f_range': sym('BFR') if bounded else NONE, 'bp_profile': NONE,
                                       'integrate_path': FALSE, 'integrate_t_profile': FALSE, 'integrate_f_profile': TRUE,
                                       'doppler_smearing': FALSE}, no_inline=(FR + 'get_index',))
            ds2 = [e for e in I2.events if e.kind == 'store' and e.data.get('target') == 'sub' and e.owner == fi.short
                   and ast.unparse(e.data['base_node']) == 'self.data']
            ctx.require(ds2, 'add_signal: the store into self.data was not found [integrate_f_profile]')
            fr2 = evaluated_frequencies(ds2[0].data.get('rhs') if ds2[0].data.get('rhs') is not None else ds2[0].data['value'])
            ctx.require(fr2 is not None, 'add_signal: the frequencies handed to f_profile (the sub-sampled grid) were not found')
            # (an empty range -- wholly outside the band -- has nothing to sub-sample and must not be indexed)
            want2 = ctx.spec(fi, 'ITE(len(self.fs[LO:HI]) > 0, np.linspace(self.fs[LO:HI][0], self.fs[LO:HI][0] + len(self.fs[LO:HI]) * self.df, '
                                 'len(self.fs[LO:HI]) * f_subsamples, endpoint=False), self.fs[LO:HI])', env={'LO': lo, 'HI': hi})
            ctx.formula('AGREE', f'[{tag}, integrate_f_profile] the sub-sampled frequencies start at the first written column and span '
                        'exactly the written columns', fi, fr2, want2, node=ds2[0].node,
                        construct='f_profile(<sub-sampled frequency grid>, ...)')
        ctx.clause = 'D3'
    T.SYMKIND.clear()

    # ---- D5 who may change the noise estimates
    ctx.clause = 'D5'
    allowed = {FR + m for m in ('_update_noise_frame_stats', 'zero_data', 'add_noise', 'add_noise_from_obs')}
    for attr in ('noise_mean', 'noise_std'):
        w = {k: v for k, v in who_writes(ctx, attr, None).items() if not k.startswith('voltage.')}   # DataStream.noise_std is another class
        extra = sorted(set(w) - allowed)
        ctx.ob('WHOWRITES', f'{attr} is written only by the noise routines', 'frame.Frame', not extra,
               {'writers': sorted(w), 'unexpected': extra}, node=(w[extra[0]] if extra else None), construct=f'.{attr} writers')
    callers = {}
    for f2 in prog.functions.values():
        if isinstance(f2.node, ast.Lambda):
            continue
        for n in ast.walk(f2.node):
            if isinstance(n, ast.Call) and isinstance(n.func, ast.Attribute) and n.func.attr == '_update_noise_frame_stats':
                callers.setdefault(f2.short, n)
    callers = list(fold_new_helpers(ctx, callers))          # a helper extracted from a noise routine counts as that routine
    ok_callers = {FR + '__init__', FR + 'add_noise', FR + 'add_noise_from_obs', 'normalize.sigma_clip_norm'}
    extra = sorted(set(callers) - ok_callers)
    ctx.ob('WHOWRITES', 'the noise re-estimate is triggered only by construction, the noise routines and normalisation of a copy',
           'frame.Frame', not extra, {'callers': sorted(set(callers)), 'unexpected': extra}, construct='_update_noise_frame_stats callers')
    frame_family = {c.qual for c in prog.classes.values() if any(b.name == 'Frame' for b in c.mro())}
    for attr in ('fs', 'ts', 'shape', 'metadata', 'rng', 'fchans', 'tchans', 'df', 'dt', 'fch1'):
        w = who_writes(ctx, attr, None, cls_family=frame_family)
        bad = sorted(q for q in w if q == FR + 'add_signal' or q == FR + 'add_constant_signal')
        if bad:
            ctx.ob('EFFECTS', f'injection does not assign frame.{attr}', fi, False, {'writers': bad}, node=w[bad[0]],
                   construct=f'.{attr} written by injection')


META = {
    'technique': 'static analysis: interprocedural write-set/alias summaries (EFFECTS, ALIASINPLACE), attribute writer sets '
                 '(WHOWRITES), symbolic slice terms with interval reasoning over min/max/clip (RANGE, AGREE)',
    'level': "Decides from the source that add_signal's only effect is `self.data[:, lo:hi] += signal`, that the returned "
             'frame is zeros with the same signal in the same columns, that get_index is the unclamped rounded offset (so an '
             'exclusive upper bound can reach fchans), that both slice bounds are clipped into [0, fchans] for every bounding '
             'range (no wrap-around), that the frequencies evaluated (also the sub-sampled grid of integrate_f_profile) start '
             'at and span exactly the written columns, that no caller array / axis / generator is touched and that the noise '
             'estimates are written only by the noise routines. Bit-for-bit equality and commutation of float additions are '
             'not decided.',
    'note': 'Alias analysis is name/attribute-path based; numpy constructors and meshgrid (default copy=True) are treated as fresh.',
}
