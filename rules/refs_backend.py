"""Reference transcriptions of the RAW block writer / decoder (shared by C02 and C14)."""

REF_READ_NEXT_BLOCK = '''
def _read_next_block(self):
    _ = self.input_file_handler.read(self.header_size)
    data_chunk = self.input_file_handler.read(self.block_size)
    obsnchan = self.num_chans * self.num_antennas
    rawbuffer = np.frombuffer(data_chunk, dtype=np.int8).reshape((obsnchan, int(self.block_size / obsnchan)))
    input_voltages = np.zeros((obsnchan, int(rawbuffer.shape[1] / self.bytes_per_sample * self.num_pols)), dtype=complex)
    for antenna in range(self.num_antennas):
        for pol in range(self.num_pols):
            requantizer = self.requantizer[antenna][pol]
            c_idx = antenna * self.num_chans + np.arange(0, self.num_chans)
            if self.num_bits == 8:
                t_idx = 2 * pol + np.arange(0, rawbuffer.shape[1], 2 * self.num_pols)
                R = rawbuffer[c_idx[:, np.newaxis], t_idx[np.newaxis, :]]
                I = rawbuffer[c_idx[:, np.newaxis], (t_idx + 1)[np.newaxis, :]]
            elif self.num_bits == 4:
                t_idx = pol + np.arange(0, rawbuffer.shape[1], self.num_pols)
                Q = rawbuffer[c_idx[:, np.newaxis], t_idx[np.newaxis, :]]
                R = Q // 16
                I = Q - 16 * R
                I[I >= 8] -= 16
            else:
                raise ValueError('bits not supported')
            requantizer.quantizer_r._set_target_stats(np.mean(R), np.std(R))
            requantizer.quantizer_i._set_target_stats(np.mean(I), np.std(I))
            t_idx = pol + np.arange(0, input_voltages.shape[1], self.num_pols)
            input_voltages[c_idx[:, np.newaxis], t_idx[np.newaxis, :]] = R + I * 1j
    return input_voltages
'''

REF_COLLECT = '''
def collect_data_block(self, digitize=True, requantize=True, verbose=True):
    obsnchan = self.num_chans * self.num_antennas
    final_voltages = np.empty((obsnchan, int(self.block_size / obsnchan)))
    if self.input_file_stem is not None:
        if not requantize:
            raise ValueError("Must set 'requantize=True' when using input RAW data!")
        input_voltages = self._read_next_block()
    assert self.block_size % int(obsnchan * self.num_taps * self.bytes_per_sample) == 0
    T = int(self.block_size / (obsnchan * self.bytes_per_sample))
    W = int(xp.ceil(T / self.num_taps / self.num_subblocks)) + 1
    subblock_T = self.num_taps * (W - 1)
    self.num_subblocks = int(xp.ceil(T / subblock_T))
    subblock_t_len = int(subblock_T * self.bytes_per_sample)
    with tqdm(total=self.num_antennas * self.num_pols * self.num_subblocks, leave=False) as pbar:
        pbar.set_description('Subblocks')
        for subblock in range(self.num_subblocks):
            if verbose:
                tqdm.write('Creating subblock')
            if T % subblock_T != 0 and subblock == self.num_subblocks - 1:
                W = int((T % subblock_T) / self.num_taps) + 1
            if self.antenna_source.start_obs:
                num_samples = self.num_branches * self.num_taps * W
            else:
                num_samples = self.num_branches * self.num_taps * (W - 1)
            t = time.time()
            antennas_v = self.antenna_source.get_samples(num_samples)
            self.sample_stage_t += time.time() - t
            for antenna in range(self.num_antennas):
                if verbose and self.is_antenna_array:
                    tqdm.write('Creating antenna')
                c_idx = antenna * self.num_chans + np.arange(0, self.num_chans)
                for pol in range(self.num_pols):
                    if T % subblock_T != 0 and subblock == self.num_subblocks - 1:
                        subblock_t_range = self.num_taps * (W - 1) * self.bytes_per_sample
                    else:
                        subblock_t_range = subblock_t_len
                    t_idx = subblock * subblock_t_len + self.num_bits // 4 * pol + np.arange(0, subblock_t_range, self.num_bits // 4 * self.num_pols)
                    v = antennas_v[antenna][pol]
                    if digitize:
                        t = time.time()
                        v = self.digitizer[antenna][pol].quantize(v)
                        self.digitizer_stage_t += time.time() - t
                    t = time.time()
                    v = self.filterbank[antenna][pol].channelize(v, cache=True)
                    v = v[:, self.start_chan:self.start_chan + self.num_chans]
                    self.filterbank_stage_t += time.time() - t
                    if requantize:
                        t = time.time()
                        if self.input_file_stem is not None:
                            temp_mean_r = self.requantizer[antenna][pol].quantizer_r.target_mean
                            self.requantizer[antenna][pol].quantizer_r.target_mean = 0
                            temp_mean_i = self.requantizer[antenna][pol].quantizer_i.target_mean
                            self.requantizer[antenna][pol].quantizer_i.target_mean = 0
                            if self.filterbank[antenna][pol].channelized_stds is None:
                                self.filterbank[antenna][pol].estimate_channelized_stds()
                            custom_stds = self.filterbank[antenna][pol].channelized_stds
                            if digitize:
                                custom_stds = custom_stds * self.digitizer[antenna][pol].target_std
                            v = self.requantizer[antenna][pol].quantize(v, custom_stds=custom_stds)
                            self.requantizer[antenna][pol].quantizer_r.target_mean = temp_mean_r
                            self.requantizer[antenna][pol].quantizer_i.target_mean = temp_mean_i
                            if self.num_bits == 8:
                                input_v = input_voltages[c_idx[:, np.newaxis], (t_idx // 2)[np.newaxis, :]]
                            elif self.num_bits == 4:
                                input_v = input_voltages[c_idx[:, np.newaxis], t_idx[np.newaxis, :]]
                            input_v = xp.array(input_v)
                            v += input_v.T
                        v = self.requantizer[antenna][pol].quantize(v)
                        self.requantizer_stage_t += time.time() - t
                    try:
                        R = xp.asnumpy(xp.real(v).T)
                        I = xp.asnumpy(xp.imag(v).T)
                    except AttributeError:
                        R = xp.real(v).T
                        I = xp.imag(v).T
                    if self.num_bits == 8 or not requantize:
                        final_voltages[c_idx[:, np.newaxis], t_idx[np.newaxis, :]] = R
                        final_voltages[c_idx[:, np.newaxis], (t_idx + 1)[np.newaxis, :]] = I
                    elif self.num_bits == 4:
                        I[I < 0] += 16
                        final_voltages[c_idx[:, np.newaxis], t_idx[np.newaxis, :]] = R * 16 + I
                    else:
                        raise ValueError('bits not supported')
                    pbar.update(1)
    return final_voltages
'''

REF_BACKEND_INIT = '''
def __init__(self, antenna_source, digitizer, filterbank, requantizer, start_chan=0, num_chans=64, block_size=134217728,
             blocks_per_file=128, num_subblocks=32):
    self.antenna_source = antenna_source
    if isinstance(antenna_source, v_antenna.Antenna):
        self.num_antennas = 1
        self.is_antenna_array = False
    elif isinstance(antenna_source, v_antenna.MultiAntennaArray):
        self.num_antennas = self.antenna_source.num_antennas
        self.is_antenna_array = True
    else:
        raise ValueError("Invalid type provided for 'antenna_source'.")
    self.sample_rate = self.antenna_source.sample_rate
    self.num_pols = self.antenna_source.num_pols
    self.fch1 = self.antenna_source.fch1
    self.ascending = self.antenna_source.ascending
    self.start_chan = start_chan
    self.num_chans = num_chans
    self.block_size = block_size
    self.blocks_per_file = blocks_per_file
    self.num_subblocks = num_subblocks
    self.digitizer = digitizer
    if isinstance(self.digitizer, quantization.RealQuantizer) or isinstance(self.digitizer, quantization.ComplexQuantizer):
        self.digitizer = [[copy.deepcopy(self.digitizer) for pol in range(self.num_pols)] for antenna in range(self.num_antennas)]
    elif isinstance(self.digitizer, list):
        assert len(self.digitizer) == self.num_antennas
        assert len(self.digitizer[0]) == self.num_pols
        for antenna in range(self.num_antennas):
            for pol in range(self.num_pols):
                assert isinstance(self.digitizer[antenna][pol], (quantization.RealQuantizer, quantization.ComplexQuantizer))
    else:
        raise TypeError('Digitizer is incorrect type!')
    self.filterbank = filterbank
    if isinstance(self.filterbank, polyphase_filterbank.PolyphaseFilterbank):
        self.filterbank = [[copy.deepcopy(self.filterbank) for pol in range(self.num_pols)] for antenna in range(self.num_antennas)]
    elif isinstance(self.filterbank, list):
        assert len(self.filterbank) == self.num_antennas
        assert len(self.filterbank[0]) == self.num_pols
        for antenna in range(self.num_antennas):
            for pol in range(self.num_pols):
                assert isinstance(self.filterbank[antenna][pol], polyphase_filterbank.PolyphaseFilterbank)
    else:
        raise TypeError('Filterbank is incorrect type!')
    self.num_taps = self.filterbank[0][0].num_taps
    self.num_branches = self.filterbank[0][0].num_branches
    assert self.start_chan + self.num_chans <= self.num_branches // 2
    self.tbin = self.num_branches / self.sample_rate
    self.chan_bw = 1 / self.tbin
    if not self.ascending:
        self.chan_bw = -self.chan_bw
    self.requantizer = requantizer
    if isinstance(self.requantizer, quantization.ComplexQuantizer):
        self.requantizer = [[copy.deepcopy(self.requantizer) for pol in range(self.num_pols)] for antenna in range(self.num_antennas)]
    elif isinstance(self.requantizer, list):
        assert len(self.requantizer) == self.num_antennas
        assert len(self.requantizer[0]) == self.num_pols
        for antenna in range(self.num_antennas):
            for pol in range(self.num_pols):
                assert isinstance(self.requantizer[antenna][pol], quantization.ComplexQuantizer)
    else:
        raise TypeError('Requantizer is incorrect type!')
    self.num_bits = self.requantizer[0][0].num_bits
    self.num_bytes = self.num_bits // 8
    self.bytes_per_sample = 2 * self.num_pols * self.num_bits // 8
    self.total_obs_num_samples = None
    assert self.block_size % int(self.num_antennas * self.num_chans * self.num_taps * self.bytes_per_sample) == 0
    self.samples_per_block = self.block_size // (self.num_antennas * self.num_chans * self.bytes_per_sample)
    self.time_per_block = self.samples_per_block * self.tbin
    self.sample_stage_t = 0
    self.digitizer_stage_t = 0
    self.filterbank_stage_t = 0
    self.requantizer_stage_t = 0
    self.input_file_stem = None
    self.input_header_dict = None
    self.header_size = None
    self.input_num_blocks = None
    self.input_file_handler = None
'''
