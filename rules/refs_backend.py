"""Reference transcriptions of the RAW block writer / decoder (shared by C02 and C14)."""

REF_READ_NEXT_BLOCK = '''
def _read_next_block(self):
    _ = self.input_file_handler.read(self.header_size)
    data_chunk = self.input_file_handler.read(self.block_size)
    obsnchan = self.num_chans * self.num_antennas
    rawbuffer = np.frombuffer(data_chunk, dtype=np.int8).reshape((obsnchan, int(self.block_size / obsnchan)))
    input_voltages = np.zeros((obsnchan, int(rawbuffer.shape[1] / self.bytes_per_sample * self.num_pols)), dtype=complex)
    for antenna in range(self.num_antennas):
        for pol in range(self.num_pols):
            requantizer = self.requantizer[antenna][pol]
            c_idx = antenna * self.num_chans + np.arange(0, self.num_chans)
            if self.num_bits == 8:
                t_idx = 2 * pol + np.arange(0, rawbuffer.shape[1], 2 * self.num_pols)
                R = rawbuffer[c_idx[:, np.newaxis], t_idx[np.newaxis, :]]
                I = rawbuffer[c_idx[:, np.newaxis], (t_idx + 1)[np.newaxis, :]]
            elif self.num_bits == 4:
                t_idx = pol + np.arange(0, rawbuffer.shape[1], self.num_pols)
                Q = rawbuffer[c_idx[:, np.newaxis], t_idx[np.newaxis, :]]
                R = Q // 16
                I = Q - 16 * R
                I[I >= 8] -= 16
            else:
                raise ValueError('bits not supported')
            requantizer.quantizer_r._set_target_stats(np.mean(R), np.std(R))
            requantizer.quantizer_i._set_target_stats(np.mean(I), np.std(I))
            t_idx = pol + np.arange(0, input_voltages.shape[1], self.num_pols)
            input_voltages[c_idx[:, np.newaxis], t_idx[np.newaxis, :]] = R + I * 1j
    return input_voltages
'''

REF_COLLECT = '''
def collect_data_block(self, digitize=True, requantize=True, verbose=True):
    obsnchan = self.num_chans * self.num_antennas
    final_voltages = np.empty((obsnchan, int(self.block_size / obsnchan)))
    if self.input_file_stem is not None:
        if not requantize:
            raise ValueError("Must set 'requantize=True' when using input RAW data!")
        input_voltages = self._read_next_block()
    assert self.block_size % int(obsnchan * self.num_taps * self.bytes_per_sample) == 0
    T = int(self.block_size / (obsnchan * self.bytes_per_sample))
    W = int(xp.ceil(T / self.num_taps / self.num_subblocks)) + 1
    subblock_T = self.num_taps * (W - 1)
    self.num_subblocks = int(xp.ceil(T / subblock_T))
    subblock_t_len = int(subblock_T * self.bytes_per_sample)
    with tqdm(total=self.num_antennas * self.num_pols * self.num_subblocks, leave=False) as pbar:
        pbar.set_description('Subblocks')
        for subblock in range(self.num_subblocks):
            if verbose:
                tqdm.write('Creating subblock')
            if T % subblock_T != 0 and subblock == self.num_subblocks - 1:
                W = int((T % subblock_T) / self.num_taps) + 1
            if self.antenna_source.start_obs:
                num_samples = self.num_branches * self.num_taps * W
            else:
                num_samples = self.num_branches * self.num_taps * (W - 1)
            t = time.time()
            antennas_v = self.antenna_source.get_samples(num_samples)
            self.sample_stage_t += time.time() - t
            for antenna in range(self.num_antennas):
                if verbose and self.is_antenna_array:
                    tqdm.write('Creating antenna')
                c_idx = antenna * self.num_chans + np.arange(0, self.num_chans)
                for pol in range(self.num_pols):
                    if T % subblock_T != 0 and subblock == self.num_subblocks - 1:
                        subblock_t_range = self.num_taps * (W - 1) * self.bytes_per_sample
                    else:
                        subblock_t_range = subblock_t_len
                    t_idx = subblock * subblock_t_len + self.num_bits // 4 * pol + np.arange(0, subblock_t_range, self.num_bits // 4 * self.num_pols)
                    v = antennas_v[antenna][pol]
                    if digitize:
                        t = time.time()
                        v = self.digitizer[antenna][pol].quantize(v)
                        self.digitizer_stage_t += time.time() - t
                    t = time.time()
                    v = self.filterbank[antenna][pol].channelize(v, cache=True)
                    v = v[:, self.start_chan:self.start_chan + self.num_chans]
                    self.filterbank_stage_t += time.time() - t
                    if requantize:
                        t = time.time()
                        if self.input_file_stem is not None:
                            temp_mean_r = self.requantizer[antenna][pol].quantizer_r.target_mean
                            self.requantizer[antenna][pol].quantizer_r.target_mean = 0
                            temp_mean_i = self.requantizer[antenna][pol].quantizer_i.target_mean
                            self.requantizer[antenna][pol].quantizer_i.target_mean = 0
                            if self.filterbank[antenna][pol].channelized_stds is None:
                                self.filterbank[antenna][pol].estimate_channelized_stds()
                            custom_stds = self.filterbank[antenna][pol].channelized_stds
                            if digitize:
                                custom_stds = custom_stds * self.digitizer[antenna][pol].target_std
                            v = self.requantizer[antenna][pol].quantize(v, custom_stds=custom_stds)
                            self.requantizer[antenna][pol].quantizer_r.target_mean = temp_mean_r
                            self.requantizer[antenna][pol].quantizer_i.target_mean = temp_mean_i
                            if self.num_bits == 8:
                                input_v = input_voltages[c_idx[:, np.newaxis], (t_idx // 2)[np.newaxis, :]]
                            elif self.num_bits == 4:
                                input_v = input_voltages[c_idx[:, np.newaxis], t_idx[np.newaxis, :]]
                            input_v = xp.array(input_v)
                            v += input_v.T
                        v = self.requantizer[antenna][pol].quantize(v)
                        self.requantizer_stage_t += time.time() - t
                    try:
                        R = xp.asnumpy(xp.real(v).T)
                        I = xp.asnumpy(xp.imag(v).T)
                    except AttributeError:
                        R = xp.real(v).T
                        I = xp.imag(v).T
                    if self.num_bits == 8 or not requantize:
                        final_voltages[c_idx[:, np.newaxis], t_idx[np.newaxis, :]] = R
                        final_voltages[c_idx[:, np.newaxis], (t_idx + 1)[np.newaxis, :]] = I
                    elif self.num_bits == 4:
                        I[I < 0] += 16
                        final_voltages[c_idx[:, np.newaxis], t_idx[np.newaxis, :]] = R * 16 + I
                    else:
                        raise ValueError('bits not supported')
                    pbar.update(1)
    return final_voltages
'''
