"""C16 Cadence injection is time-continuous and leaves frame time axes intact (DESIGN §4.C16)."""
import ast
from vstatic import terms as T
from vstatic.terms import sym, Term, Atom, lift, pretty, TRUE, FALSE, NONE
from .common import agree_ref

CD = 'cadence.Cadence.'

REF_OVERWRITE = '''
def overwrite_times(self):
    for i, frame in enumerate(self.frames[1:]):
        frame.t_start = self.frames[i].t_stop + self.t_slew
'''
REF_SLEW = '''
def slew_times(self):
    return np.array([self.frames[i].t_start - self.frames[i - 1].t_stop for i in range(1, len(self.frames))])
'''
REF_CONSOLIDATE = '''
def consolidate(self):
    if len(self.frames) == 0:
        return None
    c_frame = _frame.Frame(fchans=self.fchans, tchans=self.tchans, df=self.df, dt=self.dt, fch1=self.fch1,
                           ascending=self.ascending, t_start=self.t_start)
    c_frame.data = np.concatenate([frame.data for frame in self.frames], axis=0)
    c_frame.ts = np.concatenate([frame.ts + frame.t_start for frame in self.frames], axis=0)
    return c_frame
'''
REF_TSTART = '''
def t_start(self):
    if len(self.frames) == 0:
        return None
    return self.frames[0].t_start
'''


def run(ctx):
    fi = ctx.func(CD + 'add_signal')
    r, I = ctx.run(fi, max_depth=1, no_inline=('frame.Frame.add_signal',), expand=False)
    # (the loop that encloses the per-frame injection: written in add_signal itself or in a helper it hands the body to)
    inj = [e for e in I.events if e.kind == 'call' and e.data.get('name') == '.add_signal' and e.loops]
    loops = [e for e in I.events if e.kind == 'loop' and (e.owner == fi.short or (
        inj and e.data['info']['id'] in [l['id'] for l in inj[0].loops]))]
    ctx.require(loops, 'Cadence.add_signal no longer iterates over its frames')
    ctx.ob('FORMULA', 'the injection visits every frame of the cadence, in order', fi,
           pretty(loops[0].data['info']['iter']) == 'self.frames', {'iterates': pretty(loops[0].data['info']['iter'])},
           node=loops[0].node, construct='for frame in self.frames')
    calls = [e for e in I.events if e.kind == 'call' and e.data.get('name') == '.add_signal' and e.loops]
    ctx.require(len(calls) == 1, 'Cadence.add_signal: the per-frame injection call was not found')
    C = calls[0]
    elem = C.data['recv']
    ts_st = [e for e in I.events if e.kind == 'store' and e.data.get('target') == 'attr' and e.data.get('name') == 'ts'
             and e.data['base'].key == elem.key]
    before = [e for e in ts_st if e.seq < C.seq]
    after = [e for e in ts_st if e.seq > C.seq]
    # ---- D1 the shift
    ctx.clause = 'D1'
    if not before:
        ctx.ob('ORDER', 'the time axis is shifted before the per-frame injection', fi, False,
               {'stores_to_ts': [e.text() for e in ts_st], 'injection': C.text()}, node=C.node, construct='shift before frame.add_signal')
        return
    M = before[0]
    prev = M.data['old'] if M.data.get('aug') else None
    if prev is None:
        # plain assignment: previous value is what a read of frame.ts returned before the store
        cands = [a for a in T.all_atoms(M.data['value']).values() if (a.kind == 'loopvar' and str(a.args[0]).endswith('.ts'))
                 or (a.kind == 'attr' and a.args[1] == 'ts' and a.args[0].key == elem.key)]
        prev = Term.of(cands[0]) if cands else None
    ctx.require(prev is not None, 'Cadence.add_signal: cannot identify the original time axis in the shifted value')
    shift = M.data['value'] - prev
    want = T.mk_attr(elem, 't_start') - ctx.spec(fi, 'self.t_start', I=ctx.interp(max_depth=0, expand=False))
    r2, I2 = ctx.run(ctx.func(CD + 't_start'), expand=False)
    agree_ref(ctx, ctx.func(CD + 't_start'), REF_TSTART, 'cadence start time is the first frame\'s', what=('return',), expand=False)
    # self.t_start inside add_signal is the property: compare with the inlined property value
    J = ctx.interp(expand=False)
    want2 = T.mk_attr(elem, 't_start') - ctx.spec(fi, 'self.t_start', I=J)
    ctx.formula('FORMULA', 'each frame is injected at its own times shifted by (frame.t_start - cadence.t_start)', fi, shift, want2,
                node=M.node)
    ctx.ob('ORDER', 'the shift is applied once, before the per-frame injection', fi, len(before) == 1 and M.loops == C.loops,
           {'shifts': [e.text() for e in before]}, node=M.node, construct='shift before frame.add_signal')
    ctx.ob('AGREE', 'all positional and keyword arguments are forwarded unchanged to the frame', fi,
           C.data.get('star') is not None or (len(C.node.args) == 1 and isinstance(C.node.args[0], ast.Starred)
                                              and any(k.arg is None for k in C.node.keywords)),
           {'call': C.text()}, node=C.node)
    te = ctx.func('frame.Frame.ts_ext')
    rte, Ite_ = ctx.run(te, expand=False)
    ctx.formula('FORMULA', 'the extra smearing time sample follows the (shifted) axis: ts_ext == append(ts, ts[-1] + dt)', te, rte.ret,
                ctx.spec(te, 'np.append(self.ts, self.ts[-1] + self.dt)', I=ctx.interp(expand=False)), node=te.node,
                construct='return ts_ext [relative to ts]')
    # the shift reaches the signal only through the frame's time axis: in every mode (plain, sub-sample integration of the
    # path / of the time profile, smearing) each evaluation of the user's path and time profile must be at times derived
    # from self.ts -- a grid that starts at 0 would restart the drift / the profile in every frame after the first
    fa = ctx.func('frame.Frame.add_signal')
    saved = (dict(T.SYMKIND), set(T.NOTNONE))
    T.SYMKIND.update({'path': 'callable', 't_profile': 'callable'})
    T.NOTNONE.update({'path', 't_profile', 'f_profile'})
    ts_key = T.mk_attr(sym('self'), 'ts').key
    n_apps = 0
    for ip in (FALSE, TRUE):
        for it in (FALSE, TRUE):
            for sm in (FALSE, TRUE):
                ra, Ia = ctx.run(fa, args={'integrate_path': ip, 'integrate_t_profile': it, 'integrate_f_profile': FALSE,
                                           'doppler_smearing': sm, 'bounding_f_range': NONE, 'bp_profile': NONE},
                                 no_inline=('frame.Frame.get_index',))
                terms = [ra.ret] + [e.data['value'] for e in Ia.events if e.kind == 'store' and isinstance(e.data.get('value'), Term)]
                apps = {}
                for t in terms:
                    for a in T.all_atoms(t).values():
                        if a.kind == 'call' and a.args[0] == 'apply' and a.args[1] and a.args[1][0].single_atom() is not None \
                                and a.args[1][0].single_atom().kind == 'sym' and a.args[1][0].single_atom().args[0] in ('path', 't_profile'):
                            apps[a.key] = a
                for a in apps.values():
                    n_apps += 1
                    who = a.args[1][0].single_atom().args[0]
                    arg = a.args[1][1] if len(a.args[1]) > 1 else NONE
                    ok = any((x.kind == 'attr' and x.args[1] == 'ts' and x.args[0].key == sym('self').key)
                             or (x.kind in ('loopvar', 'after') and str(x.args[0]).endswith('.ts'))
                             for x in T.all_atoms(arg).values())
                    ctx.ob('PROPAGATE', f'add_signal[integrate_path={ip.key == TRUE.key}, integrate_t_profile={it.key == TRUE.key}, '
                           f'smearing={sm.key == TRUE.key}]: {who} is evaluated at times derived from the frame\'s own (shifted) time axis',
                           fa, ok, {'evaluated_at': pretty(arg)[:200]}, node=fa.node, construct=f'{who}(<times>)')
    T.SYMKIND.clear(); T.SYMKIND.update(saved[0]); T.NOTNONE.clear(); T.NOTNONE.update(saved[1])
    ctx.require(n_apps >= 12, f'add_signal: only {n_apps} evaluations of the path / time-profile callables found (vacuity guard)')
    # ---- D2 restoration on every exit
    ctx.clause = 'D2'
    ctx.require(after, 'Cadence.add_signal never restores the frame time axis')
    R = after[-1]
    tries_of_call = {t[0] for t in C.tryctx if t[1] == 'body'}
    in_finally = any(t[1] == 'finally' and t[0] in tries_of_call for t in R.tryctx)
    m_ok = all(t[0] not in tries_of_call or t[1] == 'body' for t in M.tryctx)
    ctx.ob('RESTORE', 'the restoration runs on every exit of the per-frame injection, including when it raises '
           '(a `finally` block of a try that encloses the call)', fi, in_finally and m_ok,
           {'injection': C.text(), 'restoration': R.text(), 'restoration_context': [t[:2] for t in R.tryctx],
            'call_context': [t[:2] for t in C.tryctx]}, node=R.node, construct=R.text() + ' [exceptional exits]')
    exact = R.data.get('aug') is None and R.data['value'].key == prev.key and \
        isinstance(getattr(R.node, 'value', None), (ast.Name, ast.Attribute))
    ctx.ob('RESTORE', 'the restoration re-assigns the saved axis itself (an inverse `-=` is not exact in floating point)', fi, exact,
           {'restoration': R.text(), 'restored_value': pretty(R.data['value'])[:200], 'original': pretty(prev)}, node=R.node,
           construct=R.text() + ' [exactness]')
    others = [e for e in I.events if e.kind == 'store' and e.data.get('target') == 'attr' and e.data['base'].key == elem.key
              and e.data.get('name') != 'ts']
    ctx.ob('EFFECTS', 'cadence injection writes no other attribute of the frames', fi, not others,
           {'stores': [e.text() for e in others]}, node=(others[0].node if others else fi.node), construct='frame attribute stores')

    # ---- D3 times / consolidation
    ctx.clause = 'D3'
    agree_ref(ctx, ctx.func(CD + 'overwrite_times'), REF_OVERWRITE, 'overwrite_times: frame i+1 starts at frame i\'s stop + slew',
              what=('attrstores',), expand=False)
    agree_ref(ctx, ctx.func(CD + 'slew_times'), REF_SLEW, 'slew_times[i-1] = frames[i].t_start - frames[i-1].t_stop',
              what=('return',), expand=False)
    agree_ref(ctx, ctx.func(CD + 'consolidate'), REF_CONSOLIDATE, 'consolidate: data concatenated on the time axis in list order, '
              'absolute times', what=('return', 'attrstores', 'calls'), expand=False, no_inline=('frame.Frame.__init__',),
              max_depth=1)
    from .c18 import REFS as C18REFS
    gi = ctx.func(CD + '__getitem__')
    agree_ref(ctx, gi, C18REFS[CD + '__getitem__'][0], 'selecting a sub-cadence shares the frames and never re-times them (no slew / '
              'overwrite options are passed on)', what=('return', 'calls'), expand=False, max_depth=0,
              no_inline=(CD + '__init__',))
    init = ctx.func(CD + '__init__')
    r, I = ctx.run(init, max_depth=0, expand=False)
    ow = [e for e in I.events if e.kind == 'call' and e.data.get('name') == CD + 'overwrite_times']
    ok = len(ow) == 1 and len(ow[0].pc) == 1 and ow[0].pc[0].key == sym('t_overwrite').key
    sl = [e for e in I.events if e.kind == 'store' and e.data.get('name') == 't_slew']
    ctx.ob('ORDER', 'times are overwritten iff requested, after the slew time is known', init,
           ok and bool(sl) and sl[0].seq < ow[0].seq, {'call': [e.text() for e in ow], 'pc': [pretty(c) for e in ow for c in e.pc]},
           node=(ow[0].node if ow else init.node), construct='if t_overwrite: self.overwrite_times()')


META = {
    'technique': 'static analysis: event-trace path analysis with try/finally context (RESTORE on exceptional exits, exactness of '
                 'the restored value), symbolic value analysis of the shift and of the time bookkeeping against reference '
                 'transcriptions (FORMULA/AGREE)',
    'level': 'Decides from the source that every frame is injected with its time axis shifted by (frame.t_start - first frame\'s '
             't_start), that the original axis object is re-assigned in a `finally` enclosing the injection (so it is restored on '
             'every exit, exactly, also when a user callback raises on the k-th frame), that nothing else of the frames is written, '
             'and the overwrite/slew/consolidation formulas. Seamlessness of the injected values is not decided.',
    'note': 'Every call is assumed able to raise; restoration idioms accepted: try/finally re-assigning the saved name.',
}
