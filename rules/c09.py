"""C09 Quantisers: affine map into the signed b-bit range, stated refresh (DESIGN §4.C09)."""
import ast
from fractions import Fraction as F
from vstatic import terms as T
from vstatic.terms import sym, Term, Atom, lift, pretty
from .common import agree_ref, who_writes, selfattr

Q = 'voltage.quantization.'
DSM = 'voltage.data_stream.'

REF_ESTIMATE = '''
def estimate_stats(voltages, stats_calc_num_samples=10000):
    calc_len = xp.amin(xp.array([stats_calc_num_samples, len(voltages)]))
    data_sigma = xp.std(voltages[:calc_len])
    data_mean = xp.mean(voltages[:calc_len])
    return data_mean, data_sigma
'''

REF_RQ = '''
def quantize(self, voltages, custom_std=None):
    if self.stats_calc_indices == 0:
        self.stats_cache = data_stream.estimate_stats(voltages, self.stats_calc_num_samples)
    if custom_std is not None:
        data_std = custom_std
    else:
        data_std = self.stats_cache[1]
    q_voltages = quantize_real(voltages, target_mean=self.target_mean, target_std=self.target_std,
                               num_bits=self.num_bits, data_mean=self.stats_cache[0], data_std=data_std,
                               stats_calc_num_samples=self.stats_calc_num_samples)
    self.stats_calc_indices += 1
    if self.stats_calc_indices == self.stats_calc_period:
        self.stats_calc_indices = 0
    return q_voltages
'''

REF_CQ = '''
def quantize(self, voltages, custom_stds=None):
    try:
        assert len(custom_stds) == 2
    except TypeError:
        custom_stds = [custom_stds] * 2
    q_r = self.quantizer_r.quantize(xp.real(voltages), custom_std=custom_stds[0])
    q_i = self.quantizer_i.quantize(xp.imag(voltages), custom_std=custom_stds[1])
    self.stats_cache_r = self.quantizer_r.stats_cache
    self.stats_cache_i = self.quantizer_i.stats_cache
    return q_r + q_i * 1j
'''

REF_QC = '''
def quantize_complex(x, target_mean=0, target_std=32/(2*np.sqrt(2*np.log(2))), num_bits=8, stats_calc_num_samples=10000):
    r, i = xp.real(x), xp.imag(x)
    q_r = quantize_real(r, target_mean=target_mean, target_std=target_std, num_bits=num_bits,
                        stats_calc_num_samples=stats_calc_num_samples)
    q_i = quantize_real(i, target_mean=target_mean, target_std=target_std, num_bits=num_bits,
                        stats_calc_num_samples=stats_calc_num_samples)
    return q_r + q_i * 1j
'''


def mentions_std(t):
    return any((a.kind == 'sym' and a.args[0] == 'data_std') or
               (a.kind == 'sub' and 'estimate_stats' in pretty(Term.of(a))) for a in T.all_atoms(t).values())


def zero_variance_test(ctx, ret, fi):
    """the condition (of the returned value) that tests the deviation: the one under which the scale factor is 0"""
    cands = [c for c in T.conditions(ret).values() if mentions_std(c)]
    ctx.require(len(cands) == 1, f'{fi.name}: expected exactly one test of the data deviation in the returned value, found {len(cands)}')
    c = cands[0]
    # polarity: the test G is the one whose truth makes the scale factor vanish (result independent of target_std)
    t_true = T.assume(ret, {c.key: True})
    dep = any(a.kind == 'sym' and a.args[0] == 'target_std' for a in T.all_atoms(t_true).values())
    G = T.mk_not(c) if dep else c
    node = next((n for n in ast.walk(fi.node) if isinstance(n, (ast.If, ast.IfExp)) and 'data_std' in ast.unparse(n.test)), fi.node)
    return G, node


def run(ctx):
    T.NOTNONE.update({'data_std', 'data_mean'})
    # ---- D1 scale / round / clip / cast
    ctx.clause = 'D1'
    qr = ctx.func(Q + 'quantize_real')
    r, I = ctx.run(qr, no_inline=(DSM + 'estimate_stats',))
    # The statement's two arms, with the code's own zero-variance test G left free:  G ? round(target_mean) : round(scaled).
    # G itself must be a tolerance test (see FLOATEQ below), so it is not compared with a fixed expression.
    G, g_node = zero_variance_test(ctx, r.ret, qr)
    spec = ctx.spec(qr, 'xp.clip(xp.around(ITE(G, 0, target_std / data_std) * (x - data_mean) + target_mean), '
                        '-2**(num_bits - 1), 2**(num_bits - 1) - 1).astype(int)', env={'G': G})
    ctx.formula('FORMULA', 'quantize_real == int(clip(round(factor*(x-mean)+target_mean), -2^(b-1), 2^(b-1)-1)), factor 0 for zero variance',
                qr, r.ret, spec, node=qr.node, construct='return quantize_real')
    # FLOATEQ: a constant input has zero variance, but its COMPUTED deviation is zero only up to the rounding of the mean
    # (np.std(np.full(3, 0.1)) == 1.4e-17): the test must hold for every data_std <= c*|data_mean| (some c > 0), an exact
    # `== 0` sends such input through target_std / 1e-17
    ga = G.single_atom()
    exact = ga is not None and ga.kind == 'cmp' and ga.args[0] == '=='
    tol = False
    if ga is not None and not exact:
        inner = ga.args[0].single_atom() if ga.kind == 'not' else ga
        if inner is not None and inner.kind == 'cmp' and inner.args[0] == '<':
            d = inner.args[1] - inner.args[2]
            tol = mentions_std(d) and any(a.kind == 'call' and a.args[0] == 'abs' for a in T.all_atoms(d).values())
    ctx.ob('FLOATEQ', 'the zero-variance test tolerates the rounding of the mean (data_std <= c*|data_mean|), it is not an exact '
           'comparison with 0', qr, (not exact) and tol, {'test': pretty(G)}, node=g_node, construct='zero-variance test of data_std')
    # ... and "the rounding of the mean" is the rounding of the precision the statistics were computed in: the mean of a constant
    # float32 array is off by float32 roundings (np.std(np.full(100, 0.1, np.float32)) is 3e-8, far above 16 * 2.2e-16 * 0.1),
    # so a tolerance built from the float64 epsilon alone lets constant float32 input through target_std / 3e-8.
    # Accepted: the epsilon is taken from the dtype of the statistics / the data, or the tolerance is a plain relative constant
    # of at least 1e-6, or estimate_stats computes both moments in double precision (dtype=float).
    fin = [a for a in T.all_atoms(G).values() if a.kind in ('call', 'attr') and 'finfo' in pretty(Term.of(a))[:40]]
    uses_dtype = any(x.kind == 'attr' and x.args[1] == 'dtype' or (x.kind == 'call' and str(x.args[0]) in ('result_type', 'promote_types', 'getattr', 'issubdtype'))
                     or (x.kind == 'ite')
                     for a in fin for x in T.all_atoms(Term.of(a)).values())
    # (np.result_type / np.promote_types applied to the statistic's VALUE instead of its dtype treats a Python scalar as "weak":
    #  result_type(1e7, float32) is float32 -- explicitly supplied Python statistics would get the float32 epsilon)
    def _value_promoted(a_):
        return a_.kind == 'call' and str(a_.args[0]) in ('result_type', 'promote_types') and any(
            isinstance(x_, Term) and x_.single_atom() is not None and x_.single_atom().kind == 'sym'
            and x_.single_atom().args[0] in ('data_mean', 'data_std') for x_ in a_.args[1])
    weak = [x for a in fin for x in T.all_atoms(Term.of(a)).values() if _value_promoted(x)]
    if weak:
        uses_dtype = False
    es = ctx.func(DSM + 'estimate_stats')
    double_stats = all(any(k.arg == 'dtype' and ast.unparse(k.value) in ('float', 'np.float64', 'xp.float64', 'numpy.float64')
                           for k in n.keywords)
                       for n in ast.walk(es.node) if isinstance(n, ast.Call) and ast.unparse(n.func).split('.')[-1] in ('mean', 'std'))
    coarse = False
    if not fin and ga is not None:
        inner_ = ga.args[0].single_atom() if ga.kind == 'not' else ga
        if inner_ is not None and inner_.kind == 'cmp' and inner_.args[0] == '<':
            d_ = inner_.args[1] - inner_.args[2]
            cs_ = [abs(c_) for m_, c_ in d_.p.items() if any(a_.kind == 'call' and a_.args[0] == 'abs' for a_, _ in m_)]
            coarse = bool(cs_) and min(cs_) >= F(1, 1000000)
    ok_prec = uses_dtype or double_stats or coarse
    # when the epsilon is read off the dtype of the STATISTICS (data_mean.dtype), the statistics must arrive in the precision they
    # were computed in: estimate_stats handing back float(mean) -- a Python float, i.e. double -- makes a float32 mean look exact
    stats_derived = any(x.kind == 'sym' and x.args[0] in ('data_mean', 'data_std') or
                        (x.kind == 'sub' and 'estimate_stats' in pretty(Term.of(x)))
                        for a in fin for x in T.all_atoms(Term.of(a)).values())
    if uses_dtype and stats_derived and not double_stats and not coarse:
        CONV = {'float', 'complex', 'int', 'item', 'tolist', 'astype', 'float64', 'double', 'float_', 'asarray', 'array'}
        stat_names = set()
        for n in ast.walk(es.node):
            if isinstance(n, ast.Assign) and isinstance(n.value, ast.Call) and ast.unparse(n.value.func).split('.')[-1] in ('mean', 'std'):
                stat_names |= {t.id for t in n.targets if isinstance(t, ast.Name)}

        def is_stat(e):
            return any((isinstance(m, ast.Name) and m.id in stat_names) or
                       (isinstance(m, ast.Call) and ast.unparse(m.func).split('.')[-1] in ('mean', 'std')) for m in ast.walk(e))
        conv = [n for n in ast.walk(es.node) if isinstance(n, ast.Call) and ast.unparse(n.func).split('.')[-1] in CONV
                and (any(is_stat(a_) for a_ in n.args) or (isinstance(n.func, ast.Attribute) and is_stat(n.func.value)))]
        ctx.ob('FLOATEQ', 'the statistics reach the zero-variance test in the precision they were computed in (the test reads its '
               'epsilon off their dtype): estimate_stats returns the numpy mean / deviation unconverted', es, not conv,
               {'conversions': [ast.unparse(n)[:80] for n in conv]}, node=(conv[0] if conv else es.node),
               construct='estimate_stats returned statistics [dtype]')
    ctx.ob('FLOATEQ', 'the tolerance of the zero-variance test follows the precision of the statistics (constant float32 input has '
           'a computed deviation of a few float32 roundings of its mean, not float64 ones)', qr, ok_prec,
           {'test': pretty(G)[:300], 'epsilon_from_dtype': uses_dtype, 'statistics_in_double_precision': double_stats},
           node=g_node, construct='zero-variance test of data_std [precision]')
    T.NOTNONE.discard('data_std')
    T.NOTNONE.discard('data_mean')
    r2, I2 = ctx.run(qr, args={'data_std': T.NONE}, no_inline=(DSM + 'estimate_stats',))
    G2, _ = zero_variance_test(ctx, r2.ret, qr)
    spec2 = ctx.spec(qr, 'xp.clip(xp.around(ITE(G, 0, '
                         'target_std / data_stream.estimate_stats(x, stats_calc_num_samples)[1]) * '
                         '(x - data_stream.estimate_stats(x, stats_calc_num_samples)[0]) + target_mean), '
                         '-2**(num_bits - 1), 2**(num_bits - 1) - 1).astype(int)', env={'G': G2},
                     I=ctx.interp(no_inline=(DSM + 'estimate_stats',)))
    ctx.formula('FORMULA', 'without supplied statistics both moments come from estimate_stats(x, n)', qr, r2.ret, spec2,
                node=qr.node, construct='return quantize_real [data_std=None]')

    # ---- D3 prefix estimator
    ctx.clause = 'D3'
    agree_ref(ctx, ctx.func(DSM + 'estimate_stats'), REF_ESTIMATE, 'estimate_stats = (mean, std) of the first min(n, len) samples',
              what=('return',), rule='FORMULA')

    # ---- D2 refresh protocol, D5 custom deviation
    ctx.clause = 'D2'
    rq = ctx.func(Q + 'RealQuantizer.quantize')
    (r, I), (rr, IR) = agree_ref(ctx, rq, REF_RQ, 'RealQuantizer.quantize: refresh iff counter==0, counter+1 reset by equality with '
                                 'the period, custom deviation replaces only data_std', what=('return', 'heap'),
                                 no_inline=(Q + 'quantize_real', DSM + 'estimate_stats'))
    w = who_writes(ctx, 'stats_calc_indices', None)
    allowed = {Q + 'RealQuantizer.' + m for m in ('__init__', '_reset_cache', 'quantize')}
    extra = sorted(set(w) - allowed)
    ctx.ob('WHOWRITES', 'the refresh counter is written only by __init__, _reset_cache and quantize', Q + 'RealQuantizer',
           not extra, {'writers': sorted(w), 'unexpected': extra}, node=(w[extra[0]] if extra else None),
           construct='.stats_calc_indices writers')
    rs = ctx.func(Q + 'RealQuantizer._reset_cache')
    r, I = ctx.run(rs)
    ctx.formula('FORMULA', '_reset_cache zeroes the counter', rs, selfattr(r, 'stats_calc_indices') or T.NONE, lift(0),
                node=rs.node, construct='self.stats_calc_indices')
    ctx.formula('FORMULA', '_reset_cache clears the cached statistics', rs, selfattr(r, 'stats_cache') or T.NONE,
                T.mk_tuple([T.NONE, T.NONE], 'list'), node=rs.node, construct='self.stats_cache')

    # ---- D4 complex quantiser = two independent real quantisers
    ctx.clause = 'D4'
    cq = ctx.func(Q + 'ComplexQuantizer.quantize')
    agree_ref(ctx, cq, REF_CQ, 'ComplexQuantizer.quantize: real part -> quantizer_r with custom_stds[0], imaginary part -> '
              'quantizer_i with custom_stds[1], result q_r + 1j*q_i', what=('return', 'heap'),
              no_inline=(Q + 'RealQuantizer.quantize',), expand=False)
    ci = ctx.func(Q + 'ComplexQuantizer.__init__')
    r, I = ctx.run(ci, no_inline=(Q + 'RealQuantizer.__init__',))
    qr_, qi_ = selfattr(r, 'quantizer_r'), selfattr(r, 'quantizer_i')
    ok = qr_ is not None and qi_ is not None and qr_.key != qi_.key and \
        all(x.single_atom() is not None and x.single_atom().kind == 'new' and x.single_atom().args[0].endswith('RealQuantizer')
            for x in (qr_, qi_))
    ctx.ob('AGREE', 'quantizer_r and quantizer_i are two separately constructed RealQuantizers (separate estimates)', ci, ok,
           {'quantizer_r': pretty(qr_) if qr_ is not None else None, 'quantizer_i': pretty(qi_) if qi_ is not None else None},
           node=ci.node, construct='self.quantizer_r / self.quantizer_i')
    ctor = [e for e in I.events if e.kind == 'call' and e.data.get('name') == Q + 'RealQuantizer.__init__']
    if len(ctor) != 2:
        ctor = []
    for p in ('target_mean', 'target_fwhm', 'num_bits', 'stats_calc_period', 'stats_calc_num_samples'):
        for e, nm in zip(ctor, ('quantizer_r', 'quantizer_i')):
            ctx.formula('AGREE', f'{nm} is configured with the complex quantiser\'s {p}', ci, e.data['bound'].get(p, T.NONE),
                        sym(p), node=e.node, construct=f'{nm}({p}=...)')
    rc = ctx.func(Q + 'ComplexQuantizer._reset_cache')
    r, I = ctx.run(rc, no_inline=(Q + 'RealQuantizer._reset_cache',))
    # (receiver VALUES, not spellings: a loop over the two components is the same two resets)
    resets = [pretty(e.data['recv']) if e.data.get('recv') is not None else ast.unparse(e.data['recv_node']) for e in I.events
              if e.kind == 'call' and e.data.get('name') in (Q + 'RealQuantizer._reset_cache', '._reset_cache')]
    ctx.ob('MUSTPASS', 'ComplexQuantizer._reset_cache resets both component quantisers', rc,
           len(resets) == 2 and len(set(resets)) == 2, {'resets': resets}, node=rc.node, construct='_reset_cache of components')
    agree_ref(ctx, ctx.func(Q + 'quantize_complex'), REF_QC, 'quantize_complex: independent real/imag quantisation', what=('return',),
              no_inline=(Q + 'quantize_real',))
    # target statistics setter
    st = ctx.func(Q + 'RealQuantizer._set_target_stats')
    r, I = ctx.run(st)
    for a, spec in (('target_mean', 'target_mean'), ('target_std', 'target_std'),
                    ('target_fwhm', 'target_std * (2 * np.sqrt(2 * np.log(2)))')):
        ctx.formula('FORMULA', f'_set_target_stats: {a}', st, selfattr(r, a) or T.NONE, ctx.spec(st, spec), node=st.node,
                    construct=f'self.{a}')
    init = ctx.func(Q + 'RealQuantizer.__init__')
    r, I = ctx.run(init)
    ctx.formula('FORMULA', 'target_std == target_fwhm / (2 sqrt(2 ln 2))', init, selfattr(r, 'target_std') or T.NONE,
                ctx.spec(init, 'target_fwhm / (2 * np.sqrt(2 * np.log(2)))'), node=init.node, construct='self.target_std')


META = {
    'technique': 'static analysis: symbolic value analysis against the stated formula and reference transcriptions '
                 '(FORMULA/AGREE incl. attribute state at exit), attribute writer sets (WHOWRITES), call presence (MUSTPASS)',
    'level': 'Decides from the source that quantize_real is int(clip(round(factor*(x-mean)+target_mean), -2^(b-1), 2^(b-1)-1))'
             ' with factor 0 for zero variance, that statistics come from the first min(n,len) samples, that the refresh '
             'counter protocol (refresh iff counter==0, +1 per call, reset by equality with the period) and the custom-'
             'deviation substitution are as stated, and that the complex quantiser routes real/imag parts to two separately '
             'constructed real quantisers. Monotonicity for negative scale factors and NaN behaviour are not decided. Also '
             'decided (FLOATEQ): the zero-variance test is a tolerance test relative to |data_mean|, not an exact comparison '
             'of the computed deviation with 0.',
    'note': 'Real arithmetic; numpy around/clip/astype semantics from their signatures.',
}
