"""C04 Well-formed GUPPI RAW; writer and readers agree on framing (DESIGN §4.C04)."""
import ast
from vstatic import terms as T
from vstatic.terms import sym, Term, Atom, lift, pretty, TRUE, FALSE
from .common import dominates, B, selfattr, header_terms, RECORD_NO_INLINE

RU = 'voltage.raw_utils.'
OWNED = {
    'NBITS': 'self.num_bits',
    'NPOL': 'self.num_pols',
    'OBSNCHAN': 'self.num_chans * self.num_antennas',
    'NANTS': 'self.num_antennas',
    'BLOCSIZE': 'self.block_size',
    'TBIN': 'self.tbin',
    'CHAN_BW': 'self.chan_bw * 1e-6',
    'OBSBW': 'self.chan_bw * self.num_chans * 1e-6',
    'OBSFREQ': '(self.fch1 + (self.start_chan + (self.num_chans - 1) / 2) * self.chan_bw) * 1e-6',
    'SCANLEN': 'self.obs_length',
}


def mentions(t, pred):
    return any(pred(a) for a in T.all_atoms(t).values())


def has_num(t, n):
    """does the constant n occur in t (as a coefficient or inside a call)?"""
    def walk(x):
        if isinstance(x, Term):
            for m, c in x.p.items():
                if abs(c) == n or (c.denominator == n) or (c.numerator % n == 0 and c != 0 and abs(c.numerator) >= n and not m):
                    return True
                if m == () and abs(c) == n:
                    return True
                for a, e in m:
                    if any(walk(y) for y in a.args):
                        return True
        elif isinstance(x, tuple):
            return any(walk(y) for y in x)
        return False
    return walk(t)


def pad_spec(L, d):
    return (-80 * L) % 512 if d else 0


def eval_closed(t, latom, lval, cond_asg):
    """Fold a closed arithmetic term for one value of the free integer and one truth assignment."""
    def fn(a):
        if a.key == latom.key:
            return Term.num(lval)
        return None
    x = T.subst(t, fn)
    if cond_asg:
        x = T.assume(x, cond_asg)
    return x.const()


def directio_conds(t):
    out = {}
    for k, c in T.conditions(t).items():
        if 'DIRECTIO' in k:
            out[k] = c
    return out


def polarity(c):
    """True if `c` being true means DIRECTIO is OFF; False if it means ON; None if unknown."""
    at = c.single_atom()
    if at is not None and at.kind == 'cmp' and at.args[0] == '==':
        a, b = at.args[1], at.args[2]
        if b.const() == 0 or a.const() == 0:
            return True
    if at is not None and at.kind == 'cmp':
        return None
    return False


def check_site(ctx, fi, name, total, latom, loff, node, guard_cond=None):
    """total: term for the bytes from block start to first data byte; latom: the free count atom,
    L = latom + loff.  guard_cond (writer): (cond, on_when_true)."""
    conds = directio_conds(total)
    bad = []
    undec = None
    for d in (0, 1):
        asg = {}
        for k, c in conds.items():
            pol = polarity(c)
            if pol is None:
                undec = f'cannot determine the polarity of {pretty(c)}'
                pol = True
            asg[k] = (d == 0) if pol else (d == 1)
        for L in range(1, 65):
            v = eval_closed(total, latom, L - loff, asg)
            if v is None:
                undec = 'site expression does not fold to a number: ' + pretty(total)[:200]
                break
            want = 80 * L + pad_spec(L, d)
            if v != want:
                bad.append({'cards_incl_END': L, 'DIRECTIO': d, 'site_gives': int(v), 'spec': want})
                break
    # header values read back from a file are TEXT ('0' is truthy): the card must be tested through int()
    textual = []
    for c in conds.values():
        def raw_uses(t, under_int=False):
            out = []
            for a in t.atoms():
                is_card = (a.kind == 'call' and a.args[0] in ('.get', 'get') and len(a.args[1]) >= 2 and a.args[1][1].key == lift('DIRECTIO').key) \
                    or (a.kind == 'sub' and a.args[1].key == lift('DIRECTIO').key)
                if is_card:
                    if not under_int:
                        out.append(a)
                    continue
                if a.kind == 'cmp' and a.args[0] in ('in', 'not in'):
                    continue            # presence test of the key
                if a.kind == 'cmp' and any(isinstance(x, Term) and x.single_atom() is not None and x.single_atom().kind == 'str'
                                           for x in a.args[1:]):
                    # compared with a text literal: a textual test of a textual value -- right only for the NORMALISED text
                    # (read_header keeps the blanks the writer pads short string values with: the card of a string zero
                    # reads back as '0       '); the bare card against a literal is a different test from int(card) != 0
                    def bare_card(x):
                        xa = x.single_atom() if isinstance(x, Term) else None
                        return xa is not None and ((xa.kind == 'call' and xa.args[0] in ('.get', 'get') and len(xa.args[1]) >= 2
                                                    and xa.args[1][1].key == lift('DIRECTIO').key)
                                                   or (xa.kind == 'sub' and xa.args[1].key == lift('DIRECTIO').key))
                    if not under_int:
                        out.extend(x.single_atom() for x in a.args[1:] if bare_card(x))
                    continue
                inner_int = a.kind == 'call' and a.args[0] in ('trunc', 'int', 'float', 'round')
                for x in a.args:
                    for y in (x if isinstance(x, tuple) else (x,)):
                        if isinstance(y, Term):
                            out += raw_uses(y, inner_int)
                        elif isinstance(y, tuple):
                            for z in y:
                                if isinstance(z, Term):
                                    out += raw_uses(z, inner_int)
            return out
        if raw_uses(c):
            textual.append(pretty(c)[:160])
    if textual:
        ctx.ob('RESIDUE', f'{name}: the DIRECTIO card is tested as a number (int(...)), not as text or by truthiness', fi, False,
               {'guard': textual}, node=node, construct=f'{name} [DIRECTIO test]')
    detail = {'expression': pretty(total)[:400], 'directio_guard': [pretty(c) for c in conds.values()] or 'none',
              'residues': 'L=1..64 x DIRECTIO in {0,1}', 'witness': bad}
    if undec and not bad:
        detail['undecided'] = undec
        return ctx.ob('RESIDUE', f'{name}: header bytes == 80*L + pad(L, DIRECTIO)', fi, None, detail, node=node)
    return ctx.ob('RESIDUE', f'{name}: header bytes == 80*L + pad(L, DIRECTIO)', fi, not bad, detail, node=node)


def len_atom(t):
    """the unique len(...) atom (card count of a parsed header) or after-loop counter inside t"""
    cands = {}
    for a in T.all_atoms(t).values():
        if a.kind == 'call' and a.args[0] == 'len':
            cands[a.key] = a
        elif a.kind in ('after', 'loopvar') :
            cands[a.key] = a
    return list(cands.values())


def byte_length(t, N):
    """BLEN: the number of bytes of a header assembled in memory, as a term over N = len(header_dict) -- ASCII text (`.encode()`
    keeps the length), cards formatted `:<80`, `''.join` of a list of cards (a comprehension over the dictionary's items plus
    appended cards), `ljust`, `bytearray(n)` / `bytes(n)`, concatenation, conditional expressions.  None when t is not of these
    forms."""
    a = t.single_atom()
    if a is None:
        # a + b of byte strings (each operand once): the lengths add
        if t.p and all(c == 1 and len(m) == 1 and m[0][1] == 1 for m, c in t.p.items()):
            parts = [byte_length(Term.of(m[0][0]), N) for m in t.p]
            return None if any(x is None for x in parts) else sum(parts[1:], parts[0])
        return None
    if a.kind in ('str', 'bytes'):
        return Term.num(len(a.args[0]))
    if a.kind == 'ite':
        x, y = byte_length(a.args[1], N), byte_length(a.args[2], N)
        return None if x is None or y is None else T.mk_ite(a.args[0], x, y)
    if a.kind != 'call':
        return None
    fn, args, kw = a.args[0], a.args[1], a.args[2]
    if fn in ('.encode', 'fstr', 'bytes', 'str') and len(args) == 1 and (not kw or fn == '.encode'):
        if fn == 'bytes' and byte_length(args[0], N) is None and T._numeric_like(args[0]):
            return args[0]
        return byte_length(args[0], N)
    if fn == 'bytearray' and len(args) == 1 and not kw:
        return _with_lengths(args[0], N)
    if fn == 'fmt' and len(args) == 2 and args[1].key == lift('<80').key:
        return Term.num(80)              # (a card longer than 80 columns is a separate obligation of format_header_line)
    if fn == '.join' and len(args) == 2 and args[0].key == lift('').key:
        return _sum_lengths(args[1], N)
    if fn in ('.ljust', '.rjust', '.center') and len(args) in (2, 3):
        x = byte_length(args[0], N)
        n = _with_lengths(args[1], N)
        return None if x is None or n is None else T.mk_call('max', [x, n])
    if fn == 'concat_bytes' and args:
        parts = [byte_length(x, N) for x in args]
        return None if any(x is None for x in parts) else sum(parts[1:], parts[0])
    return None


def _with_lengths(t, N):
    """an integer expression in which len(<assembled bytes>) is replaced by its BLEN"""
    bad = [False]

    def fn(a):
        if a.kind == 'call' and a.args[0] == 'len' and len(a.args[1]) == 1:
            if a.args[1][0].key == sym('header_dict').key:
                return N
            x = byte_length(a.args[1][0], N)
            if x is None:
                x = _list_len(a.args[1][0], N)
            if x is None:
                bad[0] = True
                return None
            return x
        return None
    r = T.subst(t, fn)
    return None if bad[0] else r


def _sum_lengths(t, N, known=frozenset()):
    """total length of the strings of a list: a comprehension over the items of header_dict (N of them) and appended cards"""
    a = t.single_atom()
    if a is None:
        return None
    if a.kind in ('list', 'tuple'):
        parts = [byte_length(x, N) for x in a.args]
        return None if any(x is None for x in parts) else sum(parts, Term.num(0))
    if a.kind == 'call' and a.args[0] == 'mut.append' and len(a.args[1]) == 2:
        x, y = _sum_lengths(a.args[1][0], N, known), byte_length(a.args[1][1], N)
        return None if x is None or y is None else x + y
    if a.kind == 'call' and a.args[0] in ('concatenate_lists', 'add_lists') and a.args[1]:
        parts = [_sum_lengths(x, N, known) for x in a.args[1]]
        return None if any(x is None for x in parts) else sum(parts, Term.num(0))
    if a.kind == 'comp' and a.args[0] in ('list', 'gen') and len(a.args[2]) == 1:
        g = a.args[2][0].single_atom()
        if g is None or g.kind != 'tuple' or len(g.args) != 1:
            return None                      # (a filtered comprehension: the count is not N)
        n = N if _iterates_header(g.args[0], known) else _list_len(g.args[0], N, known)
        x = byte_length(a.args[1], N)
        return None if x is None or n is None else n * x
    return None


def _list_len(t, N, known=frozenset()):
    """number of items of a list of cards: a comprehension over the items of header_dict (N), appended cards, literals"""
    a = t.single_atom()
    if a is None:
        return None
    if a.kind in ('list', 'tuple'):
        return Term.num(len(a.args))
    if a.kind == 'call' and a.args[0] == 'mut.append' and len(a.args[1]) == 2:
        x = _list_len(a.args[1][0], N, known)
        return None if x is None else x + 1
    if a.kind == 'call' and a.args[0] in ('list', 'tuple') and len(a.args[1]) == 1 and not a.args[2]:
        return _list_len(a.args[1][0], N, known)
    if a.kind == 'comp' and a.args[0] in ('list', 'gen') and len(a.args[2]) == 1:
        g = a.args[2][0].single_atom()
        if g is None or g.kind != 'tuple' or len(g.args) != 1:
            return None
        return N if _iterates_header(g.args[0], known) else _list_len(g.args[0], N, known)
    if _iterates_header(t, known):
        return N
    return None


def _iterates_header(it, known):
    """the iterable visits every card of header_dict once: header_dict / .items() / .keys() of it, or of a copy in which an
    EXISTING key was re-assigned (under the test `key in header_dict`)"""
    a = it.single_atom()
    if a is None:
        return False
    if a.kind == 'ite':
        c = a.args[0].single_atom()
        k2 = known
        if c is not None and c.kind == 'cmp' and c.args[0] == 'in' and c.args[2].key == sym('header_dict').key:
            k2 = known | {c.args[1].key}
        return _iterates_header(a.args[1], k2) and _iterates_header(a.args[2], known)
    if a.kind == 'call' and a.args[0] in ('.items', 'items', '.keys', 'keys', 'list', 'enumerate') and len(a.args[1]) == 1:
        return _iterates_header(a.args[1][0], known)
    if a.kind == 'sym':
        return a.args[0] == 'header_dict'
    if a.kind == 'store' and len(a.args) == 3:
        return a.args[1].key in known and _iterates_header(a.args[0], known)
    return False



def run(ctx):
    # =============================================================== D1 header size, five sites
    ctx.clause = 'D1'
    from .common import header_rendered_afresh
    header_rendered_afresh(ctx, ' (a second recording with other values must not get the first one\'s cards)')
    mk = ctx.func(B + '._make_header')
    # (format_header_line is analysed through its body: a card is 80 columns whether the padding is applied by the formatter,
    #  by the writer, or by both)
    r, I = ctx.run(mk)
    writes = [e for e in ctx.calls(I, name='.write') if e.owner == mk.short]
    ctx.require(writes, '_make_header no longer writes to the file object')
    pads = [e for e in writes if mentions(e.data['args'][1], lambda a: a.kind == 'call' and a.args[0] == 'bytearray')]
    cards = [e for e in writes if e not in pads]
    assembled = None
    if not pads and all(not e.loops and e.cond().key == T.TRUE.key for e in writes):
        # the header is assembled in memory and written with straight-line writes: BLEN, its length in bytes as a term over
        # N = len(header_dict), takes the place of the card writes and the padding write
        N_ = T.mk_call('len', [sym('header_dict')])
        parts_ = [byte_length(e.data['args'][1], N_) for e in writes]
        if all(x is not None for x in parts_):
            assembled = sum(parts_[1:], parts_[0])
    ctx.require(pads or assembled is not None, '_make_header: the padding write (bytearray) was not found')

    class _Site:                        # a padding site: the bytearray write, or the padded arm of an assembled header
        def __init__(self, node, pc, padterm, text):
            self.node, self._pc, self.padterm, self._text = node, pc, padterm, text

        def cond(self):
            return self._pc

        def text(self):
            return self._text
    pad_sites = []
    for e in pads:
        arg = e.data['args'][1]
        ba = [a for a in T.all_atoms(arg).values() if a.kind == 'call' and a.args[0] == 'bytearray'][0]
        pad_sites.append(_Site(e.node, e.cond(), ba.args[1][0], e.text()))
    if assembled is not None:
        cards = []
        ta = assembled.single_atom()
        at0 = lambda t: eval_closed(t, N_.single_atom(), 0, {})
        if ta is not None and ta.kind == 'ite' and at0(ta.args[1]) is not None and at0(ta.args[2]) is not None \
                and (at0(ta.args[1]) == 80) != (at0(ta.args[2]) == 80):
            padded, plain, pc_ = (ta.args[1], ta.args[2], ta.args[0]) if at0(ta.args[2]) == 80 else (ta.args[2], ta.args[1], T.mk_not(ta.args[0]))
            bad_ = [L for L in range(1, 65) if eval_closed(plain, N_.single_atom(), L - 1, {}) != 80 * L]
            ctx.ob('FORMULA', 'without DIRECTIO the assembled header is exactly 80 bytes per card (END included)', mk, not bad_,
                   {'length': pretty(plain)[:200], 'witness_cards_incl_END': bad_[:1]}, node=writes[0].node)
            pad_sites.append(_Site(writes[0].node, pc_, padded - plain, writes[0].text()))
        else:
            # no conditional padding recognisable in the assembled length: every DIRECTIO header would be mis-framed
            bad_ = [L for L in range(1, 65) if eval_closed(assembled, N_.single_atom(), L - 1, {}) is not None
                    and eval_closed(assembled, N_.single_atom(), L - 1, {}) != 80 * L + pad_spec(L, 1)]
            ctx.ob('RESIDUE', 'writer: the assembled header is padded to the next multiple of 512 bytes under a DIRECTIO-derived '
                   'condition', mk, False if bad_ else None, {'length': pretty(assembled)[:300], 'witness_cards_incl_END': bad_[:1]},
                   node=writes[0].node)
    # cards: every non-pad write is an 80-column formatted string
    for e in cards:
        arg = e.data['args'][1]
        # the outermost formatting step of every alternative of the value is `:<80`, or the value is an 80-byte constant
        def padded80(t):
            a = t.single_atom()
            if a is None:
                return False
            if a.kind == 'bytes':
                return len(a.args[0]) == 80
            if a.kind == 'str':
                return len(a.args[0]) == 80
            if a.kind == 'ite':
                return padded80(a.args[1]) and padded80(a.args[2])
            if a.kind == 'call' and a.args[0] in ('.encode', 'fstr') and len(a.args[1]) == 1:
                return padded80(a.args[1][0])
            if a.kind == 'call' and a.args[0] == 'fmt' and len(a.args[1]) == 2:
                return a.args[1][1].key == lift('<80').key
            return False
        ok = padded80(arg)
        ctx.ob('FORMULA', 'every card is written left-justified in 80 columns', mk, ok, {'arg': pretty(arg)[:200]}, node=e.node)
    for e in pad_sites:
        padterm = e.padterm
        las = len_atom(padterm)
        if not las and any(a.kind == 'call' and a.args[0] in ('.tell', 'tell', '.seek') for a in T.all_atoms(padterm).values()):
            # the amount of padding is computed from the position in the FILE, not from the length of this header: from the second
            # block of a file on that is a different number whenever BLOCSIZE is not a multiple of 512
            ctx.ob('FORMULA', 'the padding after a header is (-80 * cards) mod 512: a function of that header\'s own length, as the four '
                   'readers compute it', mk, False, {'padding': pretty(padterm)[:200]}, node=e.node, construct=e.text()[:80] + ' [amount]')
            continue
        ctx.require(len(las) == 1, f'_make_header: cannot identify the card counter in {pretty(padterm)}')
        # L = (#dict items) + 1 for END: the counter term itself is what is multiplied by 80
        # find the header_lines value: evaluate with len := n  =>  counter = n + 1
        pc = e.cond()
        guarded = 'DIRECTIO' in pc.key
        ctx.ob('GUARDDOM', 'padding is written only under a condition derived from the DIRECTIO card', mk, guarded,
               {'path_condition': pretty(pc)[:300]}, node=e.node)
        # a card that comes from the template or from an input recording is TEXT ('0' is a non-empty, hence true, string): on
        # the paths where the card is a string the padding decision must go through int()/float(), never through the text
        conds_all = dict(T.conditions(pc))
        T._basic_conds(pc, conds_all)
        str_tests = {k: c for k, c in conds_all.items()
                     if (T._isinstance_info(c) or (None, set()))[1] == {'str'} and 'DIRECTIO' in k}
        asg_text = {k: True for k in str_tests}
        # (cards that do not parse as a number are outside the property's quantifier -- DIRECTIO 0/1/absent: no exception arm)
        asg_text.update({k: False for k in conds_all if k.startswith("[1*exc(") or 'exc(' in k.split('==')[0][:12]})
        pc_text = T.assume(pc, asg_text) if asg_text else pc

        def text_uses(t, under_num=False):
            out = []
            for a in t.atoms():
                is_card = (a.kind == 'call' and a.args[0] in ('.get', 'get') and len(a.args[1]) >= 2 and a.args[1][1].key == lift('DIRECTIO').key) \
                    or (a.kind == 'sub' and a.args[1].key == lift('DIRECTIO').key)
                if is_card:
                    if not under_num:
                        out.append(a)
                    continue
                if a.kind == 'cmp' and a.args[0] in ('in', 'not in'):
                    continue
                inner = under_num or (a.kind == 'call' and a.args[0] in ('trunc', 'int', 'float', 'round'))
                for x in a.args:
                    for y in (x if isinstance(x, tuple) else (x,)):
                        if isinstance(y, Term):
                            out += text_uses(y, inner)
                        elif isinstance(y, tuple):
                            for z in y:
                                if isinstance(z, Term):
                                    out += text_uses(z, inner)
            return out
        if str_tests:
            raw = text_uses(pc_text)
            ctx.ob('RESIDUE', 'writer: a textual DIRECTIO card decides the padding through its numeric value (int(...)), not as text or '
                   'by truthiness', mk, not raw, {'padding_condition_for_text_cards': pretty(pc_text)[:300]}, node=e.node,
                   construct='_make_header [DIRECTIO test]')
        bad = []
        for L in range(1, 65):
            v = eval_closed(padterm, las[0], L - 1, {})
            if v is None:
                bad = None
                break
            if v != pad_spec(L, 1):
                bad.append({'cards_incl_END': L, 'DIRECTIO': 1, 'writer_pads': int(v), 'spec': pad_spec(L, 1)})
                break
        ctx.ob('RESIDUE', 'writer: padding == (-80*L) mod 512 for every header length', mk,
               None if bad is None else not bad,
               {'expression': pretty(padterm), 'residues': 'L=1..64', 'witness': bad}, node=e.node)
    # readers
    fd = ctx.func(B + '.from_data')
    r, I = ctx.run(fd, no_inline=(B + '.__init__', RU + 'get_raw_params', RU + 'get_blocks_per_file',
                                  RU + 'get_total_blocks', RU + 'read_header'))
    hs = [e for e in I.events if e.kind == 'store' and e.data.get('name') == 'header_size']
    ctx.require(hs, 'from_data no longer stores header_size')
    hv = I.heap.get((hs[-1].data['base'].key, 'header_size'))
    las = [a for a in len_atom(hv)]
    ctx.require(len(las) == 1, 'from_data: cannot identify the card count in header_size')
    check_site(ctx, fd, 'from_data.header_size', hv, las[0], 1, hs[-1].node)

    for short, pick in ((RU + 'get_blocks_in_file', 'store'), (RU + 'get_dists', 'store'),
                        ('voltage.waterfall.get_waterfall_from_raw', 'read')):
        fi = ctx.func(short)
        r, I = ctx.run(fi, no_inline=(RU + 'read_header', 'voltage.waterfall.get_pfb_waterfall'))
        cand = []
        for e in I.events:
            # the quantity is defined by its USE: the size argument of the file reads of this function
            # (skipping the header by reading it or by seeking past it; the read of a whole block may sit in a
            #  loop or in an `iter(lambda: f.read(n), b'')` sentinel iteration)
            if e.kind == 'call' and e.data.get('name') in ('.read', '.seek') and e.owner == fi.short and \
                    (not e.loops or e.data.get('name') == '.read'):
                if e.loops and not any(True for _ in e.data['args'][1:]):
                    continue
                for a in e.data['args'][1:]:
                    v = Term({m: c for m, c in a.p.items() if 'BLOCSIZE' not in T._mkey(m)})
                    if len_atom(v) and not v.is_zero():
                        cand.append((e, a))
        ctx.require(cand, f'{short}: no header-skipping read (size depending on the card count) found')
        e, v = cand[0]
        # drop the data-block addend (BLOCSIZE) if the expression is header+data
        v = Term({m: c for m, c in v.p.items() if 'BLOCSIZE' not in T._mkey(m)})
        las = len_atom(v)
        ctx.require(len(las) == 1, f'{short}: cannot identify the card count in {pretty(v)[:200]}')
        la = las[0]
        if la.kind == 'call':       # len(header) == cards without END
            total, loff = v, 1
        else:                        # loop counter of 80-byte reads (includes END): bytes consumed so far + skip
            total, loff = v + 80 * Term.of(la), 0
        check_site(ctx, fi, fi.name, total, la, loff, e.node)
    # a shared helper, if the package has one, is a site too
    for fi in list(ctx.prog.functions.values()):
        if fi.module.name.endswith('raw_utils') and 'header' in fi.name and 'size' in fi.name and fi.parent is None:
            r, I = ctx.run(fi, no_inline=(RU + 'read_header',))
            las = len_atom(r.ret)
            if len(las) == 1:
                check_site(ctx, fi, fi.name, r.ret, las[0], 1, fi.node)

    # =============================================================== D2 configuration-owned cards
    ctx.clause = 'D2'
    fi, I, r, get = header_terms(ctx)
    for key, spec in OWNED.items():
        v = get(key)
        dep = mentions(v, lambda a: a.kind == 'sym' and a.args[0] == 'header_dict')
        st = [e for e in I.events if e.kind == 'store' and e.data.get('target') == 'sub'
              and e.data['key'].key == lift(key).key]
        ctx.ob('MUSTASSIGN', f'{key} is set by the pipeline on every path (a user value cannot survive)', fi,
               not dep, {'value_at_exit': pretty(v)[:300]}, node=(st[-1].node if st else fi.node),
               construct=f"header_dict['{key}']")
        if not dep:
            ctx.formula('FORMULA', f'{key} == {spec}', fi, v, ctx.spec(fi, spec), node=(st[-1].node if st else fi.node),
                        construct=f"header_dict['{key}'] value")

    # =============================================================== D3 merge order in record()
    ctx.clause = 'D3'
    rec = ctx.func(B + '.record')
    r, Ir = ctx.run(rec, no_inline=RECORD_NO_INLINE, sticky_attrs=('num_blocks',))

    def first(name):
        es = [e for e in Ir.events if e.kind == 'call' and e.data.get('name') == B + '.' + name and e.owner == rec.short]
        return es[0] if es else None
    tpl, inp, pop, mkh = first('_header_add_from_template'), first('_header_add_from_input_header'), \
        first('_header_populate_configuration'), first('_make_header')
    ctx.require(pop is not None and mkh is not None, 'record() no longer calls populate/_make_header')
    order_ok = all(x is None or x.seq < pop.seq for x in (tpl, inp)) and pop.seq < mkh.seq and not mkh.loops == ()
    ctx.ob('ORDER', 'template merge, input-header merge, then configuration, then first header emission', rec, order_ok,
           {'seq': {'template': tpl and tpl.line, 'input': inp and inp.line, 'populate': pop.line, 'make_header': mkh.line}},
           node=pop.node)
    hd_arg = mkh.data['bound'].get('header_dict')
    # (the header writer advances PKTIDX in the dictionary, so inside the block loop the dictionary is loop-carried:
    #  what matters is the object the loop starts from)
    _ha = hd_arg.single_atom() if hd_arg is not None else None
    if _ha is not None and _ha.kind in ('loopvar', 'after') and (_ha.args[0], _ha.args[1]) in Ir.loop_init:
        hd_arg = Ir.loop_init[(_ha.args[0], _ha.args[1])]
        _hb = hd_arg.single_atom()
        if _hb is not None and _hb.kind in ('loopvar', 'after') and (_hb.args[0], _hb.args[1]) in Ir.loop_init:
            hd_arg = Ir.loop_init[(_hb.args[0], _hb.args[1])]       # nested file / block loops
    flows = hd_arg is not None and mentions(hd_arg, lambda a: a.kind == 'call' and a.args[0] == B + '._header_populate_configuration')
    ctx.ob('ORDER', 'the dictionary written by _make_header is the one returned by the configuration step', rec, flows,
           {'arg': pretty(hd_arg)[:200] if hd_arg is not None else None}, node=mkh.node)
    # one header and one data block per iteration of the innermost loop
    dat = [e for e in Ir.events if e.kind == 'call' and e.data.get('name') == B + '.collect_data_block']
    wr = [e for e in ctx.calls(Ir, name='.write') if e.owner == rec.short]
    ctx.ob('ORDER', 'each block: header, then collect_data_block, then one data write, in the same loop body', rec,
           len(dat) == 1 and len(wr) == 1 and mkh.seq < dat[0].seq < wr[0].seq and
           [l['id'] for l in mkh.loops] == [l['id'] for l in dat[0].loops] == [l['id'] for l in wr[0].loops],
           {'make_header': mkh.line, 'collect': [e.line for e in dat], 'write': [e.line for e in wr]}, node=mkh.node,
           construct='block loop body')

    # =============================================================== D4 user cards preserved by the merges
    ctx.clause = 'D4'
    for short in (B + '._header_add_from_template', B + '._header_add_from_input_header'):
        fi = ctx.func(short)
        r, I = ctx.run(fi)
        st = [e for e in I.events if e.kind == 'store' and e.data.get('target') == 'sub']
        ctx.require(st, f'{short}: no store into the header dictionary found')
        for e in st:
            want = T.mk_not(T.mk_in(e.data['key'], e.data['base']))
            ok = any(c.key == want.key or (c.single_atom() is not None and c.single_atom().kind == 'and'
                                           and any(x.key == want.key for x in c.single_atom().args)) for c in e.pc)
            ctx.ob('GUARDDOM', 'a card is copied only if the key is not already present', fi, ok,
                   {'path_condition': [pretty(c)[:120] for c in e.pc]}, node=e.node)

    # the configuration step may assign a card it does not own only when the key is absent, or when the value present
    # is (tested to be) the one inherited from the input recording -- never over a value the user supplied
    pc_fi = ctx.func(B + '._header_populate_configuration')
    rp, Ip = ctx.run(pc_fi, heap={'input_header_dict': sym('INHDR')})
    PKT = {'PKTIDX', 'PKTSTART', 'PKTSTOP'}
    n_free = 0
    for e in Ip.events:
        if not (e.kind == 'store' and e.data.get('target') == 'sub'):
            continue
        ka = e.data['key'].single_atom()
        if ka is None or ka.kind != 'str' or ka.args[0] in OWNED or ka.args[0] in PKT:
            continue
        n_free += 1
        key = ka.args[0]
        absent = T.mk_not(T.mk_in(e.data['key'], e.data['base']))

        def conj(c):
            a = c.single_atom()
            return list(a.args) if (a is not None and a.kind == 'and') else [c]
        conds = [x for c in e.pc for x in conj(c)]
        ok_absent = any(c.key == absent.key for c in conds)

        def inherited_test(c):
            """an equality between the card's present value and a term read from the input header"""
            a = c.single_atom()
            if a is None or a.kind != 'cmp' or a.args[0] != '==':
                return False
            sides = a.args[1:]
            has_card = any(mentions(x, lambda y: y.kind == 'sub' and y.args[1].key == e.data['key'].key and
                                    not mentions(y.args[0], lambda z: z.kind == 'sym' and z.args[0] == 'INHDR')) or
                           any(z.kind == 'sub' and z.args[1].key == e.data['key'].key for z in x.atoms()) for x in sides)
            has_input = any(mentions(x, lambda y: y.kind == 'sym' and y.args[0] == 'INHDR') for x in sides)
            return has_card and has_input
        ok_inherited = any(inherited_test(c) for c in conds) or any(
            a.kind == 'cmp' and a.args[0] == '==' and inherited_test(Term.of(a)) for c in conds for a in T.all_atoms(c).values())

        def provenance_test(c):
            """`KEY not in P` for a parameter P (other than the dictionary) that record() binds to the keys of the user's
            dictionary taken before anything is merged into it: the card is then known not to be the user's.  An equality
            with the input's value alone does not establish that -- the user may supply that very value."""
            a = c.single_atom()
            if a is None or a.kind != 'not':
                return False
            ia = a.args[0].single_atom()
            if ia is None or ia.kind != 'cmp' or ia.args[0] != 'in' or ia.args[1].key != e.data['key'].key:
                return False
            pa = ia.args[2].single_atom()
            if pa is None or pa.kind != 'sym' or pa.args[0] not in pc_fi.all_params() or pa.args[0] == 'header_dict' or pop is None:
                return False
            bound = (pop.data.get('bound') or {}).get(pa.args[0])
            if bound is None:
                return False
            ats = T.all_atoms(bound).values()
            users = any(x.kind == 'sym' and x.args[0] == 'header_dict' for x in ats)
            merged = any((x.kind == 'call' and ('_header_add' in str(x.args[0]) or str(x.args[0]).startswith('mut.')))
                         or x.kind in ('store', 'after', 'loopvar') for x in ats)
            return users and not merged
        ok_user = any(provenance_test(c) for c in conds)
        ctx.ob('GUARDDOM', f'configuration step: the non-owned card {key} is assigned only if absent or if it is known not to be the '
               "user's (the key is tested against the keys of the user's own dictionary, taken in record() before the template "
               'and input header are merged in): user-supplied cards are preserved, also one equal to the input recording\'s',
               pc_fi, ok_absent or ok_user,
               {'path_condition': [pretty(c)[:160] for c in e.pc], 'tested_equal_to_inherited_value': ok_inherited},
               node=e.node, construct=e.text()[:80] + ' [guard]')
    # (dict.setdefault assigns only when the key is absent: guarded by construction)
    n_free += len([e for e in Ip.events if e.kind == 'call' and e.data.get('name') == '.setdefault' and len(e.data['args']) >= 2
                   and e.data['args'][1].single_atom() is not None and e.data['args'][1].single_atom().kind == 'str'
                   and e.data['args'][1].single_atom().args[0] not in OWNED])
    ctx.require(n_free >= 3, 'configuration step: stores of non-owned cards (TELESCOP/OBSERVER/SRC_NAME) not found (vacuity guard)')

    # =============================================================== D5 PKTIDX / END / padding order
    ctx.clause = 'D5'
    r, I = ctx.run(mk, no_inline=(RU + 'format_header_line',))
    # every valid card value is formatted, the empty string included: the writer never reads a character of a value at a
    # fixed position without knowing that the value is that long
    vals = []
    for e in I.events:
        for t in ([e.data.get('value')] if isinstance(e.data.get('value'), Term) else []) + list(e.data.get('args', [])) + \
                [v for _, v in e.data.get('kwargs', [])] + list(e.pc):
            if not isinstance(t, Term):
                continue
            for a in T.all_atoms(t).values():
                if a.kind == 'sub' and a.args[1].const() is not None and a.args[0].single_atom() is not None \
                        and a.args[0].single_atom().kind == 'sub' and \
                        mentions(a.args[0], lambda y: y.kind == 'sym' and y.args[0] == 'header_dict'):
                    # (a subscript of a VALUE of the dictionary: header_dict[k][c] or, through items(), item[1][c];
                    #  item[0] / item[1] themselves are the tuple components, not characters)
                    vals.append((e, a))
    seen_k = set()
    for e, a in vals:
        if a.key in seen_k:
            continue
        seen_k.add(a.key)
        guarded = any(mentions(c, lambda y: y.kind == 'call' and y.args[0] == 'len' and y.args[1] and y.args[1][0].key == a.args[0].key)
                      or c.key == a.args[0].key for c in e.pc)
        ctx.ob('GUARDDOM', 'a character of a card value is read at a fixed position only after the value is known to be long enough '
               '(empty and blank string cards are valid)', mk, guarded, {'read': pretty(Term.of(a))[:120]}, node=e.node,
               construct=pretty(Term.of(a))[:60] + ' [fixed-position read]')
    adv = [e for e in I.events if e.kind == 'store' and e.data.get('target') == 'sub'
           and e.data['key'].key == lift('PKTIDX').key]
    if not adv:
        # other accepted realisation: record() assigns PKTIDX per block, affine in the block ordinal
        # (file index * blocks_per_file + block index) with slope samples_per_block, before the header is written
        alt = [e for e in Ir.events if e.kind == 'store' and e.data.get('target') == 'sub' and e.owner == rec.short
               and e.data['key'].key == lift('PKTIDX').key and len(e.loops) >= 2]
        ok_alt = False
        detail = {'stores_into_PKTIDX': [e.text() for e in alt]}
        if len(alt) == 1 and alt[0].data.get('aug') is None:
            e = alt[0]
            J0 = ctx.interp()
            J0.heap = dict(Ir.heap)
            k = ctx.spec(rec, 'FI * self.blocks_per_file + BJ', env={'FI': e.loops[-2]['index'], 'BJ': e.loops[-1]['index']}, I=J0)
            rest = e.data['value'] - k * ctx.spec(rec, 'self.samples_per_block', I=J0)
            ids = {e.loops[-2]['id'], e.loops[-1]['id']}
            invariant = not any(a.kind in ('idx', 'loopvar', 'elem') and (set(map(str, a.args)) & ids) for a in T.all_atoms(rest).values())
            ok_alt = invariant and dominates(e, mkh) and [l['id'] for l in e.loops] == [l['id'] for l in mkh.loops]
            detail['value_minus_ordinal_times_step'] = pretty(rest)[:200]
        ctx.ob('MUSTASSIGN', 'PKTIDX advances by samples_per_block from one block to the next (in the header writer, or assigned per '
               'block by record() from the block ordinal)', mk if not alt else rec, ok_alt, detail,
               node=(alt[0].node if alt else mk.node), construct="header_dict['PKTIDX'] per block")
        adv = None
    ok = adv is not None and len(adv) == 1 and adv[0].data.get('aug') == 'Add' and not adv[0].pc and not adv[0].loops
    if adv is not None:
        ctx.ob('MUSTASSIGN', 'PKTIDX is advanced exactly once on every normal path', mk, ok,
               {'stores': [e.text() for e in adv], 'pc': [pretty(c) for e in adv for c in e.pc]}, node=adv[0].node)
    if adv is not None and adv[0].data.get('rhs') is not None:
        ctx.formula('FORMULA', 'PKTIDX step == samples_per_block', mk, adv[0].data['rhs'],
                    ctx.spec(mk, 'self.samples_per_block'), node=adv[0].node)
    writes = ctx.calls(I, name='.write')
    endw = [e for e in writes if mentions(e.data['args'][1], lambda a: (a.kind == 'str' and a.args[0] == 'END') or
                                          (a.kind in ('bytes', 'str') and a.args[0] in (b'END' + b' ' * 77, 'END' + ' ' * 77)))]
    pads = [e for e in writes if mentions(e.data['args'][1], lambda a: a.kind == 'call' and a.args[0] == 'bytearray')]
    loopw = [e for e in writes if e.loops]
    ok = len(endw) == 1 and not endw[0].loops and all(e.seq < endw[0].seq for e in loopw) and \
        all(e.seq > endw[0].seq for e in pads) and all(e is endw[0] or e in pads or e in loopw for e in writes)
    ctx.ob('ORDER', 'cards, then END, then padding; nothing else is written', mk, ok,
           {'writes': [(e.line, pretty(e.data['args'][1])[:60]) for e in writes]}, node=(endw[0].node if endw else mk.node))

    # =============================================================== D6 file split
    ctx.clause = 'D6'
    from .common import record_block_requests
    record_block_requests(ctx, rec, Ir)
    ctx.require(len(mkh.loops) >= 2, 'record(): header emission is no longer inside a block loop nested in a file loop')
    i_t = mkh.loops[-2]['index']
    fn = [e for e in Ir.events if e.kind == 'call' and e.data.get('name') == 'open' and len(e.data['args']) >= 2
          and e.data['args'][1].key == lift('wb').key]
    ctx.require(fn, 'record() no longer opens an output file for binary writing')
    ok = mentions(fn[-1].data['args'][0], lambda a: a.kind == 'call' and a.args[0] == 'fmt' and a.args[1][0].key == i_t.key
                  and a.args[1][1].key == lift('04').key)
    ctx.ob('FORMULA', 'file name carries the file-loop index as a 4-digit sequence number', rec, ok,
           {'opened': pretty(fn[-1].data['args'][0])}, node=fn[-1].node)

    # =============================================================== D7 directory listing order
    ctx.clause = 'D7'
    gt = ctx.func(RU + 'get_total_blocks')
    r, I = ctx.run(gt, no_inline=(RU + 'get_blocks_in_file', RU + 'get_blocks_per_file'))
    uses = []
    for e in I.events:
        vals = list(e.data.get('args', [])) + [v for _, v in e.data.get('kwargs', [])] + \
            ([e.data['value']] if 'value' in e.data and isinstance(e.data['value'], Term) else [])
        for v in vals:
            for a in T.all_atoms(v).values():
                if a.kind == 'sub' and _unordered(a.args[0]):
                    uses.append((e, a))
    seen = set()
    for e, a in uses:
        if a.key in seen:
            continue
        seen.add(a.key)
        ctx.ob('UNORDERED', 'a glob/listdir result is not indexed positionally without sorting', gt, False,
               {'expression': pretty(Term.of(a))}, node=e.node)
    if not uses:
        globs = [e for e in I.events if e.kind == 'call' and e.data['name'] in ('glob.glob', 'os.listdir')]
        ctx.ob('UNORDERED', 'a glob/listdir result is not indexed positionally without sorting', gt, True,
               {'listing_calls': [e.text() for e in globs]}, node=gt.node, construct='filenames[...]')

    # =============================================================== D8 card format / reader record size
    ctx.clause = 'D8'
    fh = ctx.func(RU + 'format_header_line')
    r, I = ctx.run(fh)
    ok = True
    for _, v in r.returns:
        va = v.single_atom()
        exact = (va is not None and va.kind == 'call' and va.args[0] == 'fstr' and len(va.args[1]) == 1)
        if exact:
            pa = va.args[1][0].single_atom()
            exact = pa is not None and pa.kind == 'call' and pa.args[0] == 'fmt' and pa.args[1][1].key == lift('<80').key
        ok = ok and exact
    ctx.ob('FORMULA', 'format_header_line pads (never truncates) to 80 columns', fh, ok,
           {'return': pretty(r.ret)[:200]}, node=fh.node, construct='return line')
    # a card carries its value as Python prints it (strings quoted and padded to 8, other values right-justified in 20 columns,
    # TBIN with 14 decimals): a user card reads back equal only if the value is not shortened to fit a field
    REF_FORMAT_LINE = """
def format_header_line(key, value, as_strings=False):
    if as_strings:
        if "'" in value:
            line = f"{key:<8}= {value:<20}"
        else:
            line = f"{key:<8}= {value:>20}"
    else:
        if isinstance(value, str):
            value = f"'{value: <8}'"
            line = f"{key:<8}= {value:<20}"
        else:
            if key == 'TBIN':
                value = f"{value:.14E}"
            line = f"{key:<8}= {value:>20}"
    line = f"{line:<80}"
    return line
"""
    from .common import agree_ref as _agree_ref
    _agree_ref(ctx, fh, REF_FORMAT_LINE, 'format_header_line: the value is written as Python prints it (never shortened to fit a field)',
              what=('return',))
    REF_READ_HEADER = """
def read_header(filename):
    header_dict = {}
    with open(filename, "rb") as f:
        chunk = f.read(80)
        while f"{'END':<80}".encode() not in chunk:
            key, val = get_header_key_val(chunk.decode())
            header_dict[key] = val
            chunk = f.read(80)
    return header_dict
"""
    from .common import agree_ref
    rhf = ctx.func(RU + 'read_header')
    r0, I0 = ctx.run(rhf)
    END80 = b'END' + b' ' * 77
    sentinels = [a for a in T.all_atoms(r0.ret).values() if a.kind == 'call' and a.args[0] == 'iter_until'] if r0.ret is not None else []
    loops0 = [e for e in I0.events if e.kind == 'loop']
    # (also a `for card in iter(<read one card>, <END card>):` statement loop)
    loop_sent = [a for e in loops0 if e.data['info'].get('iter') is not None
                 for a in [e.data['info']['iter'].single_atom()] if a is not None and a.kind == 'call' and a.args[0] == 'iter_until']
    if loop_sent and len(loops0) == 1:
        sentinels = loop_sent
    if (not loops0 or loop_sent) and sentinels:
        # written as a sentinel iteration  iter(<read one card>, <END card>): the loop is numpy's, not a statement -- the card-by-
        # card comparison with the reference loop does not apply; what is decided is the sentinel itself (the WHOLE 80-column END
        # card, compared for equality with an 80-byte record) and, below, the record size
        sa_ = sentinels[0].args[1][1].single_atom()
        ok_s = sa_ is not None and ((sa_.kind == 'bytes' and sa_.args[0] == END80) or (sa_.kind == 'str' and sa_.args[0] == END80.decode()))
        ctx.ob('AGREE', 'read_header stops at the END card (the whole 80-column card, not a prefix match)', rhf, ok_s,
               {'sentinel': pretty(sentinels[0].args[1][1])[:120]}, node=rhf.node, construct='iter(<read card>, <END card>)')
        ctx.ob('AGREE', 'read_header: cards are collected by a sentinel iteration (not comparable statement by statement with the '
               'reference loop)', rhf, None, {'returned': pretty(r0.ret)[:200]}, node=rhf.node, construct='read_header [sentinel form]')
    else:
        (rA, IA), (rB, IB) = agree_ref(ctx, rhf, REF_READ_HEADER, 'read_header: 80-byte cards are collected until the card that is '
                                       'exactly END padded to 80 columns', what=('substores', 'loopstores'))
        la = [e for e in IA.events if e.kind == 'loop']
        lb = [e for e in IB.events if e.kind == 'loop']
        if len(la) == 1 and len(lb) == 1 and la[0].data['info'].get('cond') is not None:
            ctx.formula('AGREE', 'read_header stops at the END card (the whole 80-column card, not a prefix match)', rhf,
                        la[0].data['info']['cond'], lb[0].data['info']['cond'], node=la[0].node, construct='while <END card not seen>')
        else:
            ctx.ob('AGREE', 'read_header iterates over cards with one loop', rhf, False, {'loops': [e.text()[:60] for e in la]},
                   node=rhf.node, construct='read_header loop')
    rh = ctx.func(RU + 'read_header')
    r, I = ctx.run(rh)
    reads = ctx.calls(I, name='.read')
    ok = bool(reads) and all(len(e.data['args']) == 2 and e.data['args'][1].const() == 80 for e in reads)
    ctx.ob('AGREE', 'read_header consumes 80-byte records', rh, ok, {'reads': [e.text() for e in reads]}, node=rh.node,
           construct='f.read(80)')
    from .common import memo_obligation
    memo_obligation(ctx, rh, 'the RAW readers describe the file as it is now')


def _unordered(t):
    """t (deep) contains a directory listing that is not wrapped in sorted()."""
    at = t.single_atom()
    if at is None:
        return False
    if at.kind == 'call':
        fn = at.args[0]
        if fn in ('glob', 'os.listdir', 'listdir', 'glob.glob', 'iglob'):
            return True
        if fn in ('sorted',):
            return False
        return any(_unordered(x) for x in at.args[1])
    if at.kind in ('sub',):
        return _unordered(at.args[0])
    return False


META = {
    'technique': 'static analysis: residue-class evaluation of the extracted header-size expressions (RESIDUE), symbolic '
                 'value analysis of header cards (MUSTASSIGN/FORMULA), event order and guard dominance (ORDER/GUARDDOM), '
                 'taint of unordered listings (UNORDERED)',
    'level': 'Decides from the source that the writer and the four readers compute 80*L + ((-80*L) mod 512 if DIRECTIO else 0)'
             ' for every header length (L mod 32 exhaustively, both DIRECTIO values), that the ten configuration-owned cards '
             'are stored unconditionally with the stated values, the merge order and guards that preserve user cards, '
             'PKTIDX/END/padding order (PKTIDX affine in the block ordinal), that read_header stops at the whole END card, '
             'that the DIRECTIO card is tested as a number and not as text, the file split formulas (ceil(n/bpf) files, '
             'remainder only in the last) and that no unsorted directory listing is indexed. Acceptance by an independent '
             'GUPPI reader is not decided. Also decided: non-owned cards (TELESCOP, OBSERVER, SRC_NAME) are assigned by the '
             'configuration step only when absent or when the key is tested not to be among the keys of the user\'s own dictionary '
             '(taken in record() before anything is merged in; equality with the inherited value is not accepted as evidence), and no character of a card '
             'value is read at a fixed position without a length guard (empty string cards are valid). Also decided: on the '
             'writer side a textual DIRECTIO card decides the padding through its numeric value, never through its truthiness.',
    'note': 'Real arithmetic; f-string format specs compared syntactically; the card counter of each site is identified as its '
            'unique len()/loop-counter atom.',
}
