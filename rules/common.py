"""Helpers shared by several properties' rules."""
import ast
from vstatic import terms as T
from vstatic.terms import sym, Term, Atom, lift, pretty
from vstatic.model import AnalysisError

B = 'voltage.backend.RawVoltageBackend'
INT_ATTRS = {'num_branches', 'num_taps', 'fchans', 'tchans', 'num_chans', 'num_pols', 'num_antennas', 'num_bits',
             'block_size', 'fftlength', 'int_factor', 'samples_per_block', 'bytes_per_sample', 'blocks_per_file',
             'start_chan', 'num_blocks', 'num_subblocks', 'tchans_per_block', 'input_num_blocks', 'max_delay',
             'num_bytes', 'nchans', 'stats_calc_num_samples', 'stats_calc_period', 't_subsamples', 'f_subsamples',
             'smearing_subsamples', 'f_shift', 'header_size'}
REAL_ATTRS = {'sample_rate', 'tbin', 'chan_bw', 'time_per_block', 'obs_length', 'df', 'dt', 'fch1', 'tsamp', 'foff',
              'f_start', 'f_stop', 'drift_rate', 'width', 'fmin', 'fmax', 't_start', 'unit_drift_rate', 'level',
              'center_freq'}


def selfattr(r, name, who='self'):
    return r.heap.get((sym(who).key, name))


def kind_of(t):
    """E5 kind lattice on a term: 'Int' < 'Rat' < 'Real'; 'Unknown' when an atom is not in the tables.
    Also returns the list of truncations applied to Real-kind arguments."""
    bad = []

    def k_atom(a):
        if a.kind in ('attr', 'sym'):
            n = a.args[1] if a.kind == 'attr' else a.args[0]
            n = n.split('.')[-1]
            if n in INT_ATTRS or a.key in T.INTEGER or (a.kind == 'sym' and a.args[0] in T.INTEGER):
                return 'Int'
            if n in REAL_ATTRS:
                return 'Real'
            return 'Unknown'
        if a.kind in ('idx',):
            return 'Int'
        if a.kind == 'num':
            return 'Real'
        if a.kind == 'call':
            fn, args, kw = a.args
            ks = [k_term(x) for x in args]
            if fn in ('trunc', 'floor', 'ceil', 'round'):
                if ks and ks[0] == 'Real' and fn != 'round':
                    bad.append(pretty(Term.of(a)))
                return 'Int' if (not ks or ks[0] != 'Unknown') else 'Unknown'
            if fn in ('floordiv', 'mod', 'len'):
                return 'Int' if all(k in ('Int',) for k in ks) or fn == 'len' else (
                    'Unknown' if 'Unknown' in ks else 'Real')
            if fn in ('abs', 'min', 'max'):
                return join(ks)
            return 'Unknown'
        if a.kind == 'ite':
            return join([k_term(a.args[1]), k_term(a.args[2])])
        if a.kind == 'sub':
            ba = a.args[0].single_atom()
            ia = a.args[1].single_atom()
            if ia is not None and ia.kind == 'str':
                key = ia.args[0].lower()
                if key in INT_ATTRS or key in ('nchans', 'nbits', 'npol', 'blocsize', 'obsnchan', 'nants', 'pktidx',
                                               'pktstart', 'pktstop'):
                    return 'Int'
                if key in REAL_ATTRS or key in ('tbin', 'chan_bw', 'obsfreq', 'obsbw', 'scanlen'):
                    return 'Real'
            return 'Unknown'
        if a.kind == 'poly':
            return k_term(a.args[0])
        return 'Unknown'

    ORDER = ['Int', 'Rat', 'Real', 'Unknown']

    def join(ks):
        return max(ks, key=ORDER.index) if ks else 'Int'

    def k_term(t):
        ks = []
        for m, c in t.p.items():
            mk = 'Int' if c.denominator == 1 else 'Rat'
            for a, e in m:
                ak = k_atom(a)
                if e.denominator != 1:
                    ak = join([ak, 'Real'])
                elif e < 0 and ak == 'Int':
                    ak = 'Rat'
                mk = join([mk, ak])
            ks.append(mk)
        return join(ks)
    k = k_term(t)
    return k, bad


def header_terms(ctx, I_out=None):
    """Run RawVoltageBackend._header_populate_configuration on a symbolic header; return
    (fi, interp, result, get(key)->Term of header_dict[key] at exit)."""
    fi = ctx.func(B + '._header_populate_configuration')
    r, I = ctx.run(fi)

    def get(key):
        return I.subscript(r.ret, lift(key))
    return fi, I, r, get


RECORD_NO_INLINE = (B + '.collect_data_block', B + '._make_header', B + '._header_add_from_template',
                    B + '._header_add_from_input_header', B + '._header_populate_configuration')


def agree_ref(ctx, fi, ref_src, title, what=('return', 'heap', 'substores'), rule='AGREE', skip_attrs=(), **runkw):
    """Compare a function with a reference transcription of the property's definition evaluated by
    the same interpreter: return value, final values of self attributes, and subscript stores
    (buffer fills) pairwise in program order."""
    from vstatic import terms as T
    r, I = ctx.run(fi, **dict(runkw))
    rr, IR = ctx.run_ref(fi, ref_src, **dict(runkw))
    if 'return' in what:
        ctx.formula(rule, f'{title}: returned value == reference definition', fi, r.ret, rr.ret, node=fi.node,
                    construct=f'return {fi.name}')
    if 'heap' in what:
        keys = sorted({k for k in list(I.heap) + list(IR.heap) if k[0] == sym('self').key})
        for k in keys:
            if k[1] in skip_attrs:
                continue
            a = I.heap.get(k, T.mk_attr(sym('self'), k[1]))
            b = IR.heap.get(k, T.mk_attr(sym('self'), k[1]))
            st = [e for e in I.events if e.kind == 'store' and e.data.get('target') == 'attr' and e.data.get('name') == k[1]]
            ctx.formula(rule, f'{title}: self.{k[1]} at exit == reference definition', fi, a, b,
                        node=(st[-1].node if st else fi.node), construct=f'self.{k[1]} at exit')
    if 'attrstores' in what:
        def sel(II, own):
            return [e for e in II.events if e.kind == 'store' and e.data.get('target') == 'attr'
                    and (own is None or e.func.short == own)]
        sa, sb = sel(I, fi.short), sel(IR, None)
        if [e.data['name'] for e in sa] != [e.data['name'] for e in sb]:
            ctx.ob(rule, f'{title}: same sequence of attribute updates as the reference', fi, False,
                   {'code': [e.text()[:80] for e in sa], 'reference': [e.text()[:80] for e in sb]}, node=fi.node,
                   construct='attribute stores')
        else:
            for ea, eb in zip(sa, sb):
                ctx.formula(rule, f'{title}: object updated by `{ea.data["name"]}` store == reference', fi, ea.data['base'],
                            eb.data['base'], node=ea.node, construct=ea.text()[:80] + ' [object]')
                ctx.formula(rule, f'{title}: value stored into .{ea.data["name"]} == reference', fi, ea.data['value'],
                            eb.data['value'], node=ea.node, construct=ea.text()[:80] + ' [value]')
                ctx.formula(rule, f'{title}: condition of the .{ea.data["name"]} store == reference', fi, ea.cond(), eb.cond(),
                            node=ea.node, construct=ea.text()[:80] + ' [guard]')
    if 'loopstores' in what:
        def sell(II, own):
            # only loop-carried names (accumulators / running indices): temporaries are compared through the
            # values that reach stores, calls and returns
            return [e for e in II.events if e.kind == 'store' and e.data.get('target') == 'name' and e.loops
                    and (own is None or e.func.short == own)
                    and any(e.data['name'] in l.get('carried', ()) for l in e.loops)]
        la, lb = sell(I, fi.short), sell(IR, None)
        if len(la) != len(lb):
            ctx.ob(rule, f'{title}: same number of loop-body assignments as the reference', fi, False,
                   {'code': [e.text()[:80] for e in la], 'reference': [e.text()[:80] for e in lb]}, node=fi.node,
                   construct='loop-body assignments')
        else:
            for ea, eb in zip(la, lb):
                ctx.formula(rule, f'{title}: loop-body value of `{ea.data["name"]}` == reference', fi, ea.data['value'],
                            eb.data['value'], node=ea.node, construct=ea.text()[:80] + ' [loop value]')
            for ea, eb in zip([e for e in I.events if e.kind == 'loop' and e.func.short == fi.short],
                              [e for e in IR.events if e.kind == 'loop']):
                ia, ib = ea.data['info'], eb.data['info']
                if 'trip' in ia and 'trip' in ib:
                    ctx.formula(rule, f'{title}: trip count of the loop == reference', fi, ia['trip'], ib['trip'],
                                node=ea.node, construct=ea.text()[:60] + ' [trip count]')
    if 'calls' in what:
        def selc(II, own):
            return [e for e in II.events if e.kind == 'call' and (own is None or e.func.short == own)
                    and (e.data.get('resolved') is not None or 'candidates' in e.data)]
        ca, cb = selc(I, fi.short), selc(IR, None)
        if [e.data['name'] for e in ca] != [e.data['name'] for e in cb]:
            ctx.ob(rule, f'{title}: same sequence of method/package calls as the reference', fi, False,
                   {'code': [e.text()[:80] for e in ca], 'reference': [e.text()[:80] for e in cb]}, node=fi.node,
                   construct='call sequence')
        else:
            for ea, eb in zip(ca, cb):
                def packed(e):
                    extra = [e.data.get('star') if e.data.get('star') is not None else T.NONE,
                             e.data.get('dstar') if e.data.get('dstar') is not None else T.NONE]
                    names = T.mk_tuple([lift(k) for k, _ in sorted(e.data['kwargs'])])
                    return T.mk_tuple(list(e.data['args']) + [names] + [v for _, v in sorted(e.data['kwargs'])] + extra)
                aa, ab = packed(ea), packed(eb)
                ctx.formula(rule, f'{title}: arguments of {ea.data["name"]} == reference', fi, aa, ab, node=ea.node,
                            construct=ea.text()[:80] + ' [args]')
                ctx.formula(rule, f'{title}: condition of the {ea.data["name"]} call == reference', fi, ea.cond(), eb.cond(),
                            node=ea.node, construct=ea.text()[:80] + ' [guard]')
    if 'asserts' in what:
        aa_ = [e for e in I.events if e.kind == 'assert' and e.func.short == fi.short]
        ab_ = [e for e in IR.events if e.kind == 'assert']
        if len(aa_) != len(ab_):
            ctx.ob(rule, f'{title}: same assertions as the reference', fi, False,
                   {'code': [e.text()[:80] for e in aa_], 'reference': [e.text()[:80] for e in ab_]}, node=fi.node, construct='assert statements')
        else:
            for ea, eb in zip(aa_, ab_):
                ctx.formula(rule, f'{title}: asserted condition == reference', fi, ea.data['cond'], eb.data['cond'], node=ea.node,
                            construct=ea.text()[:80] + ' [assert]')
                ctx.formula(rule, f'{title}: guard of the assertion == reference', fi, ea.cond(), eb.cond(), node=ea.node,
                            construct=ea.text()[:80] + ' [assert guard]')
    if 'deletes' in what:
        da = [e for e in I.events if e.kind == 'delete' and e.func.short == fi.short]
        db = [e for e in IR.events if e.kind == 'delete']
        if len(da) != len(db):
            ctx.ob(rule, f'{title}: same deletions as the reference', fi, False,
                   {'code': [e.text() for e in da], 'reference': [e.text() for e in db]}, node=fi.node, construct='del statements')
        else:
            for ea, eb in zip(da, db):
                ctx.formula(rule, f'{title}: deleted element == reference', fi, T.mk_tuple([ea.data['base'], lift(ea.data['key']) if isinstance(ea.data['key'], str) else ea.data['key']]),
                            T.mk_tuple([eb.data['base'], lift(eb.data['key']) if isinstance(eb.data['key'], str) else eb.data['key']]),
                            node=ea.node, construct=ea.text()[:80])
    if 'raises' in what:
        ra = [e for e in I.events if e.kind == 'raise' and e.func.short == fi.short]
        rb = [e for e in IR.events if e.kind == 'raise']
        if len(ra) != len(rb):
            ctx.ob(rule, f'{title}: same rejecting paths (raise statements) as the reference', fi, False,
                   {'code': [(e.text()[:60], pretty(e.cond())[:200]) for e in ra],
                    'reference': [(e.text()[:60], pretty(e.cond())[:200]) for e in rb]}, node=fi.node, construct='raise paths')
        else:
            for ea, eb in zip(ra, rb):
                ctx.formula(rule, f'{title}: condition of the rejecting path == reference', fi, ea.cond(), eb.cond(),
                            node=ea.node, construct=ea.text()[:80] + ' [guard]')
    if 'substores' in what:
        sa = [e for e in I.events if e.kind == 'store' and e.data.get('target') == 'sub' and e.func.short == fi.short]
        sb = [e for e in IR.events if e.kind == 'store' and e.data.get('target') == 'sub']
        if len(sa) != len(sb):
            ctx.ob(rule, f'{title}: same number of buffer stores as the reference', fi, False,
                   {'code': [e.text() for e in sa], 'reference': [e.text() for e in sb]}, node=fi.node,
                   construct='subscript stores')
        else:
            for ea, eb in zip(sa, sb):
                ctx.formula(rule, f'{title}: index of buffer store == reference', fi, ea.data['key'], eb.data['key'],
                            node=ea.node, construct=ea.text() + ' [index]')
                ctx.formula(rule, f'{title}: value of buffer store == reference', fi, ea.data['value'], eb.data['value'],
                            node=ea.node, construct=ea.text() + ' [value]')
                ctx.formula(rule, f'{title}: condition of the buffer store == reference', fi, ea.cond(), eb.cond(),
                            node=ea.node, construct=ea.text() + ' [guard]')
    return (r, I), (rr, IR)


def who_writes(ctx, attr, allowed, cls_family=None):
    """WHOWRITES: functions that store `.attr` (any receiver) must be within `allowed` (short quals)."""
    import ast
    writers = {}
    for fi in ctx.prog.functions.values():
        if isinstance(fi.node, ast.Lambda):
            continue
        for n in ast.walk(fi.node):
            hit = False
            if isinstance(n, ast.Attribute) and n.attr == attr and isinstance(n.ctx, (ast.Store, ast.Del)):
                hit = True
            elif isinstance(n, ast.Call) and isinstance(n.func, ast.Name) and n.func.id == 'setattr' and len(n.args) >= 2 \
                    and isinstance(n.args[1], ast.Constant) and n.args[1].value == attr:
                hit = True
            elif isinstance(n, ast.Subscript) and isinstance(n.ctx, (ast.Store, ast.Del)) and \
                    isinstance(n.value, ast.Attribute) and n.value.attr == attr:
                hit = True
            if hit:
                owner = ctx.prog.enclosing_function(fi.module, n) or fi
                if owner is fi:
                    writers.setdefault(fi.short, n)
    return writers


def dominates(e1, e2):
    """event e1 is passed on every normal path that reaches e2: it comes first and every branch condition
    on e1's path is also on e2's path (conditions introduced by earlier raising/returning branches included)."""
    k2 = {c.key for c in e2.pc}
    return e1.seq < e2.seq and all(c.key in k2 for c in e1.pc)
