"""Helpers shared by several properties' rules."""
import ast
from vstatic import terms as T
from vstatic.terms import sym, Term, Atom, lift, pretty
from vstatic.model import AnalysisError, stmt_text

B = 'voltage.backend.RawVoltageBackend'
INT_ATTRS = {'num_branches', 'num_taps', 'fchans', 'tchans', 'num_chans', 'num_pols', 'num_antennas', 'num_bits',
             'block_size', 'fftlength', 'int_factor', 'samples_per_block', 'bytes_per_sample', 'blocks_per_file',
             'start_chan', 'num_blocks', 'num_subblocks', 'tchans_per_block', 'input_num_blocks', 'max_delay',
             'num_bytes', 'nchans', 'stats_calc_num_samples', 'stats_calc_period', 't_subsamples', 'f_subsamples',
             'smearing_subsamples', 'f_shift', 'header_size'}
REAL_ATTRS = {'sample_rate', 'tbin', 'chan_bw', 'time_per_block', 'obs_length', 'df', 'dt', 'fch1', 'tsamp', 'foff',
              'f_start', 'f_stop', 'drift_rate', 'width', 'fmin', 'fmax', 't_start', 'unit_drift_rate', 'level',
              'center_freq'}


def selfattr(r, name, who='self'):
    return r.heap.get((sym(who).key, name))


def kind_of(t):
    """E5 kind lattice on a term: 'Int' < 'Rat' < 'Real'; 'Unknown' when an atom is not in the tables.
    Also returns the list of truncations applied to Real-kind arguments."""
    bad = []

    def k_atom(a):
        if a.kind in ('attr', 'sym'):
            n = a.args[1] if a.kind == 'attr' else a.args[0]
            n = n.split('.')[-1]
            if n in INT_ATTRS or a.key in T.INTEGER or (a.kind == 'sym' and a.args[0] in T.INTEGER):
                return 'Int'
            if n in REAL_ATTRS:
                return 'Real'
            return 'Unknown'
        if a.kind in ('idx',):
            return 'Int'
        if a.kind == 'num':
            return 'Real'
        if a.kind == 'call':
            fn, args, kw = a.args
            ks = [k_term(x) for x in args]
            if fn in ('trunc', 'floor', 'ceil', 'round'):
                if ks and ks[0] == 'Real' and fn != 'round':
                    bad.append(pretty(Term.of(a)))
                return 'Int' if (not ks or ks[0] != 'Unknown') else 'Unknown'
            if fn in ('floordiv', 'mod', 'len'):
                return 'Int' if all(k in ('Int',) for k in ks) or fn == 'len' else (
                    'Unknown' if 'Unknown' in ks else 'Real')
            if fn in ('abs', 'min', 'max'):
                return join(ks)
            return 'Unknown'
        if a.kind == 'ite':
            return join([k_term(a.args[1]), k_term(a.args[2])])
        if a.kind == 'sub':
            ba = a.args[0].single_atom()
            ia = a.args[1].single_atom()
            if ia is not None and ia.kind == 'str':
                key = ia.args[0].lower()
                if key in INT_ATTRS or key in ('nchans', 'nbits', 'npol', 'blocsize', 'obsnchan', 'nants', 'pktidx',
                                               'pktstart', 'pktstop'):
                    return 'Int'
                if key in REAL_ATTRS or key in ('tbin', 'chan_bw', 'obsfreq', 'obsbw', 'scanlen'):
                    return 'Real'
            return 'Unknown'
        if a.kind == 'poly':
            return k_term(a.args[0])
        return 'Unknown'

    ORDER = ['Int', 'Rat', 'Real', 'Unknown']

    def join(ks):
        return max(ks, key=ORDER.index) if ks else 'Int'

    def k_term(t):
        ks = []
        for m, c in t.p.items():
            mk = 'Int' if c.denominator == 1 else 'Rat'
            for a, e in m:
                ak = k_atom(a)
                if e.denominator != 1:
                    ak = join([ak, 'Real'])
                elif e < 0 and ak == 'Int':
                    ak = 'Rat'
                mk = join([mk, ak])
            ks.append(mk)
        return join(ks)
    k = k_term(t)
    return k, bad


def header_terms(ctx, I_out=None):
    """Run RawVoltageBackend._header_populate_configuration on a symbolic header; return
    (fi, interp, result, get(key)->Term of header_dict[key] at exit)."""
    fi = ctx.func(B + '._header_populate_configuration')
    r, I = ctx.run(fi)

    def get(key):
        return I.subscript(r.ret, lift(key))
    return fi, I, r, get


RECORD_NO_INLINE = (B + '.collect_data_block', B + '._make_header', B + '._header_add_from_template',
                    B + '._header_add_from_input_header', B + '._header_populate_configuration')


def _root_base(t):
    """the container a (chain of) subscript stores goes into: strip store(...) wrappers"""
    a = t.single_atom()
    while a is not None and a.kind == 'store':
        t = a.args[0]
        a = t.single_atom()
    return t


def _is_container_value(v):
    """a list / dict literal (possibly conditional) or a growing list: a value that later statements may extend in place"""
    a = v.single_atom()
    if a is None:
        return False
    if a.kind in ('list', 'dict', 'comp'):
        return True
    if a.kind == 'ite':
        return _is_container_value(a.args[1]) and _is_container_value(a.args[2])
    return a.kind == 'call' and str(a.args[0]).startswith('mut.')


RESTRUCTURED_UNDECIDED = [False]      # set by a rule around agree_ref: regrouped statements are UNDECIDED, not violations


def value_where_reached(e, key='value'):
    """the stored value of an event simplified under the event's own path condition (a local that is bound only under
    `if two_pols:` and read only under the same test is the bound value there, not 'possibly undefined')"""
    v = e.data[key]
    asg = {}
    for c in e.pc:
        ca = c.single_atom()
        if ca is not None and ca.kind == 'not':
            ia = ca.args[0].single_atom()
            if ia is None or ia.kind != 'and':
                asg[ca.args[0].key] = False
        elif ca is None or ca.kind != 'and':
            asg[c.key] = True
    return T.assume(v, asg) if asg else v


def _match_groups(ctx, rule, title, fi, what_label, A, B, comps, describe):
    """Compare two collections of events irrespective of the interleaving of INDEPENDENT events.
    comps(e) -> [(label, term)].  Pass 1 pairs events whose components are all EQUAL (any position);
    the leftovers are paired by position and each component is reported through ctx.formula (so a
    semantic change is a VIOLATION naming the construct, an opaque difference is UNDECIDED); an
    event without counterpart is a VIOLATION."""
    from vstatic import terms as T

    def merged(evs):
        """events that are identical except for complementary guards (if c: X  else: X) are one unguarded event"""
        def under_guard(x):
            """the other components of an event only matter where its guard holds: they are simplified under it
            (`if n == 2: y = streams[1]` with streams == [a, b] if n == 2 else [a]  stores b)"""
            gs = [t for lab, t in x if lab == 'guard']
            if not gs or gs[0].key == T.TRUE.key:
                return x
            asg = {}
            for c in _split_guard(gs[0]):
                ca = c.single_atom()
                if ca is not None and ca.kind == 'not':
                    inner = ca.args[0]
                    ia = inner.single_atom()
                    if ia is None or ia.kind != 'and':
                        asg[inner.key] = False
                elif ca is None or ca.kind != 'and':
                    asg[c.key] = True
            # (the guard is also carried INTO the compared value: a condition that only becomes the guard after other
            #  conditions are decided -- an index that wraps only when the function has already raised -- is then decided too)
            if not asg:
                return x
            return [(lab, t if lab == 'guard' else T.assume(t, asg)) for lab, t in x]
        items = [(e, under_guard(comps(e))) for e in evs]
        out = []
        skip = set()
        for i, (e, x) in enumerate(items):
            if i in skip:
                continue
            gi = [k for k, (lab, _) in enumerate(x) if lab == 'guard']
            done = False
            if gi:
                g = gi[0]
                for j in range(i + 1, len(items)):
                    if j in skip:
                        continue
                    y = items[j][1]
                    if len(y) == len(x) and all(x[k][1].key == y[k][1].key for k in range(len(x)) if k != g):
                        both = T.mk_or([x[g][1], y[g][1]])
                        inter = T.mk_and([x[g][1], y[g][1]])
                        if T.compare(T.mk_not(x[g][1]), _rel_not(x[g][1], y[g][1]))[0] == T.EQUAL:
                            x2 = list(x)
                            x2[g] = ('guard', _common_guard(x[g][1], y[g][1]))
                            out.append((e, x2))
                            skip.add(j)
                            done = True
                            break
            if not done:
                out.append((e, x))
        return out
    ca = merged(A)
    cb = merged(B)
    used = set()
    left = []
    for ea, xa in ca:
        hit = None
        for k, (eb, xb) in enumerate(cb):
            if k in used or len(xa) != len(xb):
                continue
            if all(T.compare(u[1], v[1])[0] == T.EQUAL for u, v in zip(xa, xb)):
                hit = k
                break
        if hit is None:
            left.append((ea, xa))
        else:
            used.add(hit)
            ctx.ob(rule, f'{title}: {what_label} `{describe(ea)}` has an equal counterpart in the reference definition', fi, True,
                   {'matched_reference': describe(cb[hit][0])}, node=ea.node, construct=describe(ea))
    rest_b = [cb[k] for k in range(len(cb)) if k not in used]
    # leftovers: events of one identity (object / attribute / callee / container) whose guards are mutually exclusive
    # define ONE guarded value  Ite(g1, v1, Ite(g2, v2, ... <no event>)); the two sides are compared as such, so that
    # merging branch tails into one statement, or splitting one statement over branches, is not a difference
    ident = ('object', 'attribute', 'callee', 'container')
    ABSENT = T.lift('<no event>')

    def ident_key(x):
        return tuple(t.key for lab, t in x if lab in ident)

    def guard_of(x):
        g = [t for lab, t in x if lab == 'guard']
        return g[0] if g else None

    def exclusive(items):
        gs = [guard_of(x) for _, x in items]
        if any(g is None for g in gs):
            return False
        for i in range(len(gs)):
            for j in range(i + 1, len(gs)):
                if T.compare(T.mk_and([gs[i], gs[j]]), T.FALSE)[0] != T.EQUAL:
                    return False
        return True

    def family(items):
        t = ABSENT
        for _, x in reversed(items):
            t = T.mk_ite(guard_of(x), T.mk_tuple([v for lab, v in x if lab != 'guard']), t)
        return t
    groups = {}
    for ea, xa in left:
        groups.setdefault(ident_key(xa), ([], []))[0].append((ea, xa))
    for eb, xb in rest_b:
        groups.setdefault(ident_key(xb), ([], []))[1].append((eb, xb))
    left2, rest2 = [], []
    for k, (la, lb) in groups.items():
        if la and lb and (len(la) != 1 or len(lb) != 1) and exclusive(la) and exclusive(lb):
            ea = la[0][0]
            ctx.formula(rule, f'{title}: {what_label}s `{describe(ea)}` (all branches together) == reference', fi, family(la), family(lb),
                        node=ea.node, construct=describe(ea) + ' [guarded family]')
        else:
            left2 += la
            rest2 += lb
    left, rest_b = left2, rest2
    # (re-binding of loop-carried LOCALS may be regrouped either way; for effects that leave the function -- stores, calls --
    #  only FEWER statements than the reference count as a reorganisation: more are extra effects and are decisive)
    local_only = what_label in ('loop-carried update', 'loop')
    if RESTRUCTURED_UNDECIDED[0] and (len(left) != len(rest_b) if (local_only or RESTRUCTURED_UNDECIDED[0] == 'any') else len(left) < len(rest_b)):
        # a different NUMBER of unmatched events: the statements were regrouped (loop nest restructured), a one-to-one
        # comparison with the reference walk does not apply -- not decided, rather than reporting arbitrary pairs
        ctx.ob(rule, f'{title}: {what_label}s are organised differently from the reference definition (not comparable one to one)',
               fi, None, {'code': [describe(e) for e, _ in left], 'reference': [describe(e) for e, _ in rest_b]}, node=fi.node,
               construct=f'{what_label}s [restructured]')
        return
    ordered = []
    pool = list(rest_b)
    for ea, xa in left:
        pick = None
        for k, (eb, xb) in enumerate(pool):
            if len(xb) == len(xa) and all(u[1].key == v[1].key for u, v in zip(xa, xb) if u[0] in ident):
                pick = k
                break
        ordered.append(pool.pop(pick) if pick is not None else None)
    for n in range(len(ordered)):
        if ordered[n] is None and pool:
            ordered[n] = pool.pop(0)
    rest_b = [x for x in ordered if x is not None] + pool
    for n, (ea, xa) in enumerate(left):
        if n < len(ordered) and ordered[n] is not None and len(ordered[n][1]) == len(xa):
            eb, xb = ordered[n]
            if RESTRUCTURED_UNDECIDED[0] and len(getattr(ea, 'loops', ())) != len(getattr(eb, 'loops', ())):
                # one side does per iteration what the other does in one (vectorised) statement: not comparable one to one
                ctx.ob(rule, f'{title}: {what_label} `{describe(ea)}` stands at a different loop depth than its counterpart in the '
                       'reference definition (vectorised / de-vectorised): not compared statement by statement', fi, None,
                       {'code': describe(ea), 'reference': describe(eb)}, node=ea.node, construct=describe(ea) + ' [restructured]')
                continue
            ga_, gb_ = guard_of(xa), guard_of(xb)
            same_guard = ga_ is not None and gb_ is not None and ga_.key == gb_.key and ga_.key != T.TRUE.key
            nothing = T.lift('<not reached>')
            for (la, ta), (lb, tb) in zip(xa, xb):
                if same_guard and la != 'guard':
                    # under one and the same guard the values only matter where it holds: it is carried into the comparison,
                    # so that a condition which only BECOMES the guard once others are decided is decided with it
                    ta, tb = T.mk_ite(ga_, ta, nothing), T.mk_ite(gb_, tb, nothing)
                ctx.formula(rule, f'{title}: {what_label} {la} == reference', fi, ta, tb, node=ea.node,
                            construct=describe(ea) + f' [{la}]')
        else:
            g = guard_of(xa)
            if g is not None and T.compare(g, T.FALSE)[0] == T.EQUAL:
                continue        # on an infeasible path
            ctx.ob(rule, f'{title}: {what_label} `{describe(ea)}` exists in the reference definition', fi, False,
                   {'code': [describe(e) for e, _ in ca], 'reference': [describe(e) for e, _ in cb]}, node=ea.node,
                   construct=describe(ea) + ' [extra]')
    for eb, xb in rest_b[len(left):]:
        g = guard_of(xb)
        if g is not None and T.compare(g, T.FALSE)[0] == T.EQUAL:
            continue
        ctx.ob(rule, f'{title}: the reference {what_label} `{describe(eb)}` is performed by the code', fi, False,
               {'code': [describe(e) for e, _ in ca], 'reference': [describe(e) for e, _ in cb]}, node=fi.node,
               construct=f'missing {what_label}: ' + describe(eb))


def _split_guard(g):
    from vstatic import terms as T
    a = g.single_atom()
    if a is not None and a.kind == 'and':
        return list(a.args)
    return [] if g.key == T.TRUE.key else [g]


def _rel_not(g1, g2):
    """g2 with the conjuncts shared with g1 removed (so that `P and c` / `P and not c` are recognised)"""
    from vstatic import terms as T
    k1 = {c.key for c in _split_guard(g1)}
    rest2 = [c for c in _split_guard(g2) if c.key not in k1]
    k2 = {c.key for c in _split_guard(g2)}
    rest1 = [c for c in _split_guard(g1) if c.key not in k2]
    if len(rest1) == 1 and len(rest2) == 1:
        # complementary iff rest2 == not rest1 ; return something that compares equal to not(g1) exactly in that case
        if T.mk_not(rest1[0]).key == rest2[0].key:
            return T.mk_not(g1)
    return T.mk_and([g2, T.lift('distinct')])


def _common_guard(g1, g2):
    from vstatic import terms as T
    k2 = {c.key for c in _split_guard(g2)}
    return T.mk_and([c for c in _split_guard(g1) if c.key in k2])


def agree_ref(ctx, fi, ref_src, title, what=('return', 'heap', 'substores'), rule='AGREE', skip_attrs=(), norm_call=None,
              ref_attrs_only=False, **runkw):
    """Compare a function with a reference transcription of the property's definition evaluated by
    the same interpreter: return value, final values of self attributes, attribute stores, calls,
    buffer stores, loop-carried updates, raise/assert guards.  Events are matched as multisets (the
    order of independent statements is free); values are compared in normal form."""
    from vstatic import terms as T
    runkw = dict(runkw)
    if runkw.get('max_depth', None) == 0:
        # opaque = exactly the package functions the REFERENCE calls; anything else (e.g. a private helper a
        # refactoring introduced) is inlined, so it is compared through its effects
        r0, I0 = ctx.run_ref(fi, ref_src, **dict(runkw))
        opaque = {e.data['name'] for e in I0.events if e.kind == 'call' and e.data.get('resolved') is not None}
        runkw['no_inline'] = tuple(set(runkw.get('no_inline', ())) | opaque)
        runkw['max_depth'] = 3
    r, I = ctx.run(fi, **dict(runkw))
    rr, IR = ctx.run_ref(fi, ref_src, **dict(runkw))
    own = None           # events of helpers the function was inlined through belong to its behaviour
    txt = lambda e: e.text()[:90]
    if 'return' in what:
        ca_, cb_ = r.ret, rr.ret
        if T.compare(ca_, cb_)[0] != T.EQUAL and r.returns and rr.returns:
            # the joined return value is only meaningful where the function returns at all (on a path that raises it is
            # whatever the last `return` expression would have been): compare "returns v under condition c" on both sides
            def reached(res):
                c_ = T.mk_or([c for c, _ in res.returns] + ([res.live] if res.live.key != T.FALSE.key else []))
                return T.mk_ite(c_, res.ret, T.lift('<does not return>')) if c_.key != T.TRUE.key else res.ret
            wa_, wb_ = reached(r), reached(rr)
            if T.compare(wa_, wb_)[0] == T.EQUAL:
                ca_, cb_ = wa_, wb_
        ctx.formula(rule, f'{title}: returned value == reference definition', fi, ca_, cb_, node=fi.node,
                    construct=f'return {fi.name}')
    if 'heap' in what:
        keys = sorted({k for k in list(I.heap) + list(IR.heap) if k[0] == sym('self').key})
        for k in keys:
            if k[1] in skip_attrs or (ref_attrs_only and k not in IR.heap):
                continue
            a = I.heap.get(k, T.mk_attr(sym('self'), k[1]))
            b = IR.heap.get(k, T.mk_attr(sym('self'), k[1]))
            st = [e for e in I.events if e.kind == 'store' and e.data.get('target') == 'attr' and e.data.get('name') == k[1]]
            ctx.formula(rule, f'{title}: self.{k[1]} at exit == reference definition', fi, a, b,
                        node=(st[-1].node if st else fi.node), construct=f'self.{k[1]} at exit')
    if 'attrstores' in what:
        ref_names = {e.data['name'] for e in IR.events if e.kind == 'store' and e.data.get('target') == 'attr'}

        def sel(II, o):
            # ref_attrs_only: the reference lists the attributes the statement talks about; private bookkeeping
            # attributes the code keeps in addition are not a disagreement
            evs = [e for e in II.events if e.kind == 'store' and e.data.get('target') == 'attr'
                   and (o is None or e.owner == o) and (not ref_attrs_only or e.data['name'] in ref_names)]
            # several straight-line stores into the same attribute of the same object (`a = v; if c: a = -a`, or one
            # conditional expression) are ONE update whose value is the attribute's value at exit: last write wins
            from vstatic.sva import Event
            groups = {}
            for e in evs:
                if not e.loops and not e.tryctx and e.data.get('aug') is None:
                    groups.setdefault((e.data['base'].key, e.data['name']), []).append(e)
            out, done = [], set()
            for e in evs:
                k = (e.data['base'].key, e.data['name'])
                g = groups.get(k, [])
                # (a list stored once and then grown in place -- `a = [x]; a.append(y)` -- likewise counts with its value at exit)
                mutated_later = (len(g) == 1 and e in g and k in II.heap and II.heap[k].key != g[0].data['value'].key
                                 and _is_container_value(g[0].data['value']))
                if (len(g) > 1 or mutated_later) and e in g and k in II.heap and all({c.key for c in g[0].pc} <= {c.key for c in x.pc} for x in g):
                    if k in done:
                        continue
                    done.add(k)
                    last = g[-1]
                    d = dict(last.data)
                    d['value'] = II.heap[k]
                    out.append(Event(last.kind, last.node, last.func, last.stack, g[0].pc, last.loops, last.tryctx, d, last.seq))
                else:
                    out.append(e)
            return out
        # in a CONSTRUCTOR a store on a path that goes on to raise is never seen (the object is discarded): there the guard of
        # an update is taken together with "the constructor completes", so validating before or after assigning is the same
        completes = {}
        if fi.name == '__init__':
            for res_, II_ in ((r, I), (rr, IR)):
                done_ = T.mk_or([c for c, _ in getattr(res_, 'returns', [])] + ([res_.live] if getattr(res_, 'live', None) is not None else []))
                completes[id(II_)] = done_
        ea_, eb_ = sel(I, own), sel(IR, None)
        side = {id(e): id(I) for e in ea_}
        side.update({id(e): id(IR) for e in eb_})

        def guard_of_store(e):
            g = e.cond()
            n_ = completes.get(side.get(id(e)))
            return T.mk_and([g, n_]) if n_ is not None and n_.key != T.TRUE.key else g
        def keep_split(e):
            """`o.a = V if c else o.a` (the attribute's own current value in one arm: a helper that returns either a new value or
            the old one) is the conditional store `if c: o.a = V`"""
            v = e.data['value']
            va = v.single_atom()
            if va is None or va.kind != 'ite' or e.data.get('aug') is not None:
                return v, None

            def current(t):
                ta = t.single_atom()
                if ta is None:
                    return False
                if ta.kind == 'attr':
                    return ta.args[1] == e.data['name'] and ta.args[0].key == e.data['base'].key
                if ta.kind in ('loopvar', 'after') and isinstance(ta.args[0], str):
                    return ta.args[0] == f"{e.data['base'].key}.{e.data['name']}"
                return False
            c, a, b = va.args
            if current(b) and not current(a):
                return a, c
            if current(a) and not current(b):
                return b, T.mk_not(c)
            return v, None

        def store_comps(e):
            v, extra = keep_split(e)
            g = guard_of_store(e)
            if extra is not None:
                g = T.mk_and([g, extra])
            return [('object', e.data['base']), ('attribute', lift(e.data['name'])), ('value', v), ('guard', g)]
        _match_groups(ctx, rule, title, fi, 'attribute update', ea_, eb_, store_comps, txt)
    if 'loopstores' in what:
        def sell(II, o):
            return [e for e in II.events if e.kind == 'store' and e.data.get('target') == 'name' and e.loops
                    and (o is None or e.owner == o)
                    and any(e.data['name'] in l.get('carried', ()) and e.data['name'] not in l.get('last_only', ())
                            and e.data['name'] not in l.get('induction', ()) for l in e.loops)]
        # (a name re-bound only in the last iteration is not carried from one iteration to the next: every use of it is
        #  compared through its value -- entry value, or the last iteration's -- so the re-binding itself is not an obligation)
        _match_groups(ctx, rule, title, fi, 'loop-carried update', sell(I, own), sell(IR, None),
                      lambda e: [('value', e.data['value'])], txt)
        def with_carried(II, o, loops):
            ids = {l['id'] for e in sell(II, o) for l in e.loops}
            return [e for e in loops if e.data['info']['id'] in ids]
        la = with_carried(I, own, [e for e in I.events if e.kind == 'loop'])
        lb = with_carried(IR, None, [e for e in IR.events if e.kind == 'loop'])
        _match_groups(ctx, rule, title, fi, 'loop', [e for e in la if 'trip' in e.data['info']],
                      [e for e in lb if 'trip' in e.data['info']], lambda e: [('trip count', e.data['info']['trip'])],
                      lambda e: e.text()[:60])
    if 'calls' in what:
        def selc(II, o):
            return [e for e in II.events if e.kind == 'call' and (o is None or e.owner == o)
                    and (e.data.get('resolved') is not None or 'candidates' in e.data) and not e.data.get('inlined')]

        def anon(t):
            # the receiver of a method no package class defines (a file handle, a progress bar), held in a loop-carried local:
            # its havoc name only reflects how many other locals the loop carries
            a_ = t.single_atom() if isinstance(t, Term) else None
            return lift('<loop-carried local>') if a_ is not None and a_.kind in ('loopvar', 'after') else t

        def packed(e):
            extra = [e.data.get('star') if e.data.get('star') is not None else T.NONE,
                     e.data.get('dstar') if e.data.get('dstar') is not None else T.NONE]
            b = e.data.get('bound')
            if b and norm_call is not None:
                b = norm_call(e, dict(b)) or b        # rule-supplied semantic normalisation of an argument
            if b:
                items = sorted(b.items())
                rv = e.data.get('recv')
                return T.mk_tuple([rv if rv is not None else T.NONE] + [T.mk_tuple([lift(k), v]) for k, v in items] + extra)
            names = T.mk_tuple([lift(k) for k, _ in sorted(e.data['kwargs'])])
            args_ = list(e.data['args'])
            if args_ and e.data.get('method') and not e.data.get('candidates'):
                args_[0] = anon(args_[0])
            return T.mk_tuple(args_ + [names] + [v for _, v in sorted(e.data['kwargs'])] + extra)
        _match_groups(ctx, rule, title, fi, 'call', selc(I, own), selc(IR, None),
                      lambda e: [('callee', lift(e.data['name'])), ('arguments', packed(e)), ('guard', e.cond())], txt)
    if 'asserts' in what:
        aa_ = [e for e in I.events if e.kind == 'assert']
        ab_ = [e for e in IR.events if e.kind == 'assert']
        _match_groups(ctx, rule, title, fi, 'assertion', aa_, ab_,
                      lambda e: [('condition', e.data['cond']), ('guard', e.cond())], txt)
    if 'deletes' in what:
        da = [e for e in I.events if e.kind == 'delete']
        db = [e for e in IR.events if e.kind == 'delete']
        _match_groups(ctx, rule, title, fi, 'deletion', da, db,
                      lambda e: [('object', e.data['base']), ('key', lift(e.data['key']) if isinstance(e.data['key'], str) else e.data['key'])],
                      txt)
    if 'raises' in what:
        ra = [e for e in I.events if e.kind == 'raise']      # incl. package helpers the function was inlined through
        rb = [e for e in IR.events if e.kind == 'raise']
        _match_groups(ctx, rule, title, fi, 'rejecting path', ra, rb, lambda e: [('guard', e.cond())], txt)
    if 'substores' in what:
        def scratch(II, e):
            """an item store into a local that holds a freshly computed arithmetic value (n = x - 16*(x // 16); n[n >= 8] -= 16),
            bound in the same loop iteration: no other object can see it, and its effect is part of every later value that
            reads the local -- compared there, not as a store of its own"""
            bn = e.data.get('base_node')
            ra = _root_base(e.data['base']).single_atom()
            fresh_call = ra is not None and ra.kind == 'call' and ra.args[0] in (
                'binBitAnd', 'binBitOr', 'binBitXor', 'binRShift', 'binLShift', 'floordiv', 'mod', 'astype', 'copy', 'abs',
                'round', 'floor', 'ceil', 'trunc', 'min', 'max', 'where', 'real', 'imag')
            fresh_list = ra is not None and ra.kind in ('replicate', 'list')      # a list literal / [v] * n built here
            if not isinstance(bn, ast.Name) or (ra is not None and not fresh_call and not fresh_list):
                return False
            defs = [d for d in II.events if d.kind == 'store' and d.data.get('target') == 'name' and d.data.get('name') == bn.id
                    and d.seq < e.seq]
            return bool(defs) and [l['id'] for l in defs[-1].loops] == [l['id'] for l in e.loops]
        sa = [e for e in I.events if e.kind == 'store' and e.data.get('target') == 'sub' and not scratch(I, e)]
        sb = [e for e in IR.events if e.kind == 'store' and e.data.get('target') == 'sub' and not scratch(IR, e)]
        _match_groups(ctx, rule, title, fi, 'buffer store', sa, sb,
                      lambda e: [('container', _root_base(e.data['base'])), ('index', e.data['key']), ('value', e.data['value']),
                                 ('guard', e.cond())], txt)
    return (r, I), (rr, IR)


_CALLERS = {}


def callers_of(ctx):
    """short name of a package function -> set of short names of the functions that call it (resolved call sites)"""
    # (cached ON the program object: an id()-keyed table would hand the call graph of a freed program to a new one that
    #  happens to get the same address)
    cached = ctx.prog.__dict__.get('_callers_of')
    if cached is not None:
        return cached
    from vstatic.argbind import resolve_callee
    out = {}
    for fi in ctx.prog.functions.values():
        if isinstance(fi.node, ast.Lambda):
            continue
        for n in ast.walk(fi.node):
            if isinstance(n, ast.Call):
                rc = resolve_callee(ctx.prog, fi, n)
                if rc is not None:
                    owner = ctx.prog.enclosing_function(fi.module, n) or fi
                    out.setdefault(rc[0].short, set()).add(owner.short)
    ctx.prog.__dict__['_callers_of'] = out
    return out


def fold_new_helpers(ctx, writers):
    """A function that did not exist when the rules were written (vstatic/baseline_functions.txt) and that is called
    only from one function is a piece a refactoring extracted from that function: its stores are attributed to the
    caller (repeatedly, so helpers of helpers fold too).  writers: dict short -> node."""
    from vstatic.sva_call import BASELINE_FUNCS
    cg = callers_of(ctx)
    out = dict(writers)
    for _ in range(4):
        changed = False
        for w in list(out):
            if w in BASELINE_FUNCS:
                continue
            callers = cg.get(w, set()) - {w}
            if len(callers) >= 1 and all(True for c in callers):
                node = out.pop(w)
                for c in callers:
                    out.setdefault(c, node)
                changed = True
        if not changed:
            break
    return out


def who_writes(ctx, attr, allowed, cls_family=None):
    """WHOWRITES: functions that store `.attr` (any receiver) must be within `allowed` (short quals)."""
    import ast
    writers = {}
    for fi in ctx.prog.functions.values():
        if isinstance(fi.node, ast.Lambda):
            continue
        for n in ast.walk(fi.node):
            hit = False
            if isinstance(n, ast.Attribute) and n.attr == attr and isinstance(n.ctx, (ast.Store, ast.Del)):
                hit = True
            elif isinstance(n, ast.Call) and isinstance(n.func, ast.Name) and n.func.id == 'setattr' and len(n.args) >= 2 \
                    and isinstance(n.args[1], ast.Constant) and n.args[1].value == attr:
                hit = True
            elif isinstance(n, ast.Subscript) and isinstance(n.ctx, (ast.Store, ast.Del)) and \
                    isinstance(n.value, ast.Attribute) and n.value.attr == attr:
                hit = True
            if hit:
                owner = ctx.prog.enclosing_function(fi.module, n) or fi
                if cls_family is not None and isinstance(n, ast.Attribute) and isinstance(n.value, ast.Name) and n.value.id == 'self':
                    # `self.attr = ...` inside a method of an unrelated class (a helper class a refactoring introduced) is a
                    # write to THAT class's objects
                    o = owner
                    while o is not None and o.cls is None:
                        o = o.parent
                    if o is not None and o.cls is not None and o.cls.qual not in cls_family:
                        continue
                if owner is fi:
                    writers.setdefault(fi.short, n)
    return fold_new_helpers(ctx, writers)


def dominates(e1, e2):
    """event e1 is passed on every normal path that reaches e2: it comes first and every branch condition
    on e1's path is also on e2's path (conditions introduced by earlier raising/returning branches included)."""
    k2 = {c.key for c in e2.pc}
    return e1.seq < e2.seq and all(c.key in k2 for c in e1.pc)


def component_resets(I, comp):
    """call events `<recv>._reset_cache()` whose RECEIVER VALUE is self.<comp>[i][j] (any index terms),
    however the receiver expression is spelled (loop over a tuple of the component tables, an alias, ...)"""
    from vstatic import terms as T
    out = []
    for e in I.events:
        if e.kind != 'call' or not e.data.get('name', '').endswith('._reset_cache'):
            continue
        rv = e.data.get('recv')
        if rv is None:
            continue
        a = rv.single_atom()
        depth = 0
        idxs = []
        while a is not None and a.kind == 'sub':
            idxs.append(a.args[1])
            a = a.args[0].single_atom()
            depth += 1
        if a is not None and a.kind == 'attr' and a.args[1] == comp and a.args[0].key == T.sym('self').key and depth == 2:
            e.data['_idx'] = list(reversed(idxs))
            out.append(e)
    return out


def resets_all_pairs(e):
    """the reset is performed for every (antenna, polarisation): it sits in a loop over range(num_antennas) and a loop
    over range(num_pols) and the receiver is indexed by exactly those two loop indices"""
    from vstatic.terms import pretty
    if len(e.loops) < 2:
        return False
    from vstatic import terms as T
    TABLES = ('digitizer', 'filterbank', 'requantizer')

    def tables_of(it):
        """the component tables a loop walks in step: self.<table> / zip(self.<table>, ...) / enumerate(...) -- every table has
        num_antennas rows of num_pols elements (constructor, C02-D8), so walking any of them in step visits every index"""
        a = it.single_atom()
        if a is None:
            return None
        if a.kind == 'call' and a.args[0] == 'zip' and a.args[1] and not a.args[2]:
            parts = [tables_of(x) for x in a.args[1]]
            return None if any(x is None for x in parts) else [y for x in parts for y in x]
        if a.kind == 'call' and a.args[0] == 'enumerate' and len(a.args[1]) == 1 and not a.args[2]:
            return tables_of(a.args[1][0])
        return [it]

    def is_table(t, outer):
        a = t.single_atom()
        if outer is not None:
            if a is None or a.kind != 'sub':
                return False
            x = a.args[1].single_atom()
            if not (x is not None and x.kind == 'idx' and outer['id'] in [str(z) for z in x.args]):
                return False
            a = a.args[0].single_atom()
        return a is not None and a.kind == 'attr' and a.args[1] in TABLES and a.args[0].key == T.sym('self').key

    by = {}
    for l in e.loops:
        it = pretty(l['iter'])
        if it == 'range(self.num_antennas)':
            by['a'] = l
        elif it == 'range(self.num_pols)':
            by['p'] = l
        else:
            tb = tables_of(l['iter'])
            if tb and all(is_table(t, None) for t in tb):
                by['a'] = l
            elif tb and 'a' in by and all(is_table(t, by['a']) for t in tb):
                by['p'] = l
    if len(by) != 2:
        return False
    ia, ip = e.data['_idx']
    def is_idx(t, l):
        x = t.single_atom()
        return x is not None and x.kind in ('idx', 'loopvar') and l['id'] in [str(z) for z in x.args]
    return is_idx(ia, by['a']) and is_idx(ip, by['p'])


# --------------------------------------------------------------------------- UNORDERED sweep
_INSENSITIVE = {'sorted', 'len', 'set', 'frozenset', 'min', 'max', 'any', 'all'}
_SETOPS = (ast.Sub, ast.BitOr, ast.BitAnd, ast.BitXor)
_LISTING = {'glob.glob', 'glob.iglob', 'os.listdir', 'os.scandir'}
_SETMETH = {'union', 'intersection', 'difference', 'symmetric_difference'}
_MUTCALL = {'append', 'extend', 'insert', 'write', 'update', 'setdefault', 'pop', 'add_signal', 'writelines'}


def unordered_iteration(tree_or_func):
    """Sites where a value whose iteration order is not determined by the program's inputs (a set, a set operation
    on dictionary views, an unsorted directory listing) is consumed in an order-sensitive way.
    Returns (violations, n_sources): violations = [(node, text)], n_sources = unordered source expressions seen."""
    root = tree_or_func
    parent = {}
    for n in ast.walk(root):
        for c in ast.iter_child_nodes(n):
            parent[id(c)] = n
    funcs = [n for n in ast.walk(root) if isinstance(n, (ast.FunctionDef, ast.AsyncFunctionDef, ast.Lambda))]

    def scope_of(n):
        p = parent.get(id(n))
        while p is not None and not isinstance(p, (ast.FunctionDef, ast.AsyncFunctionDef, ast.Lambda, ast.Module)):
            p = parent.get(id(p))
        return p

    def is_view(e):
        return isinstance(e, ast.Call) and isinstance(e.func, ast.Attribute) and e.func.attr in ('keys', 'items') and not e.args

    tainted = {}        # (scope id, name) -> True   names bound (only) to unordered values

    ret_unordered = {}      # id(FunctionDef) -> set of returned-tuple positions (or 'whole') holding an unordered value

    def callee_of(call):
        fn = call.func
        name = fn.id if isinstance(fn, ast.Name) else fn.attr if (
            isinstance(fn, ast.Attribute) and isinstance(fn.value, ast.Name) and fn.value.id in ('self', 'cls')) else None
        cands = [f_ for f_ in funcs if isinstance(f_, ast.FunctionDef) and f_.name == name]
        return cands[0] if len(cands) == 1 else None

    def unordered(e):
        if isinstance(e, (ast.Set, ast.SetComp)):
            return True
        if isinstance(e, tuple) and e and e[0] == 'ret':
            fd_ = callee_of(e[1])
            return fd_ is not None and e[2] in ret_unordered.get(id(fd_), ())
        if isinstance(e, ast.Call) and ret_unordered:
            fd_ = callee_of(e)
            if fd_ is not None and 'whole' in ret_unordered.get(id(fd_), ()):
                return True
        if isinstance(e, ast.Call):
            f = e.func
            if isinstance(f, ast.Name) and f.id in ('set', 'frozenset'):
                return True
            try:
                txt = ast.unparse(f)
            except Exception:
                txt = ''
            if txt in _LISTING or txt.endswith('.iterdir') or (isinstance(f, ast.Attribute) and f.attr in ('glob', 'rglob')
                                                               and txt != 'glob.glob' and False):
                return True
            if isinstance(f, ast.Attribute) and f.attr in _SETMETH:
                return True
        if isinstance(e, ast.BinOp) and isinstance(e.op, _SETOPS):
            return unordered(e.left) or unordered(e.right) or (is_view(e.left) or is_view(e.right))
        if isinstance(e, ast.Name) and isinstance(e.ctx, ast.Load):
            return tainted.get((id(scope_of(e)), e.id), False)
        if isinstance(e, ast.IfExp):
            return unordered(e.body) or unordered(e.orelse)
        return False

    # names assigned exactly once in their scope, to an unordered value
    assigns = {}
    for n in ast.walk(root):
        if isinstance(n, ast.Assign):
            for t in n.targets:
                if isinstance(t, ast.Name):
                    assigns.setdefault((id(scope_of(n)), t.id), []).append(n.value)
                elif isinstance(t, (ast.Tuple, ast.List)):
                    for k_, el in enumerate(t.elts):
                        if isinstance(el, ast.Name):
                            # a, b = helper(...): judged through what the helper returns at that position
                            assigns.setdefault((id(scope_of(n)), el.id), []).append(
                                ('ret', n.value, k_) if isinstance(n.value, ast.Call) and len(n.targets) == 1 else None)
        elif isinstance(n, (ast.AugAssign, ast.AnnAssign)) and isinstance(n.target, ast.Name):
            assigns.setdefault((id(scope_of(n)), n.target.id), []).append(None)
        elif isinstance(n, (ast.For, ast.comprehension)):
            for t in ast.walk(n.target):
                if isinstance(t, ast.Name):
                    assigns.setdefault((id(scope_of(n)), t.id), []).append(None)
    # functions of this module by name (a method called as self.f(...) / cls.f(...) or a plain function): an unordered value
    # handed to one of them is judged at the uses of the corresponding parameter inside it
    by_name = {}
    for f_ in funcs:
        if isinstance(f_, ast.FunctionDef):
            by_name.setdefault(f_.name, []).append(f_)
    handed = {}         # id(argument expression) -> True when its receiving parameter was found

    def callee_param(call, arg):
        fn = call.func
        name = fn.id if isinstance(fn, ast.Name) else fn.attr if (
            isinstance(fn, ast.Attribute) and isinstance(fn.value, ast.Name) and fn.value.id in ('self', 'cls')) else None
        cands = by_name.get(name, [])
        if len(cands) != 1:
            return None
        fd = cands[0]
        ps = [a.arg for a in fd.args.posonlyargs + fd.args.args]
        if isinstance(fn, ast.Attribute) and ps:
            ps = ps[1:]
        for kw in call.keywords:
            if kw.value is arg and kw.arg in ps + [a.arg for a in fd.args.kwonlyargs]:
                return fd, kw.arg
        if arg in call.args and not any(isinstance(a, ast.Starred) for a in call.args):
            i = call.args.index(arg)
            if i < len(ps):
                return fd, ps[i]
        return None
    returned = {}       # id(expression) -> True for an unordered value a helper returns (judged at the helper's call sites)
    for _ in range(3):
        for k, vals in assigns.items():
            if vals and all(v is not None and unordered(v) for v in vals):
                tainted[k] = True
        for f_ in funcs:
            if not isinstance(f_, ast.FunctionDef) or len([g for g in funcs if isinstance(g, ast.FunctionDef) and g.name == f_.name]) != 1:
                continue
            for r_ in ast.walk(f_):
                if isinstance(r_, ast.Return) and r_.value is not None and scope_of(r_) is f_:
                    if isinstance(r_.value, ast.Tuple):
                        for k_, el in enumerate(r_.value.elts):
                            if unordered(el):
                                ret_unordered.setdefault(id(f_), set()).add(k_)
                                returned[id(el)] = True
                    elif unordered(r_.value):
                        ret_unordered.setdefault(id(f_), set()).add('whole')
                        returned[id(r_.value)] = True
        for c_ in ast.walk(root):
            if isinstance(c_, ast.Call):
                for a_ in list(c_.args) + [kw.value for kw in c_.keywords]:
                    if unordered(a_):
                        cp_ = callee_param(c_, a_)
                        if cp_ is not None and (id(cp_[0]), cp_[1]) not in assigns:
                            tainted[(id(cp_[0]), cp_[1])] = True
                            handed[id(a_)] = True

    def body_insensitive(loop):
        loaded_outside = set()
        inside = {id(x) for x in ast.walk(loop)}
        sc = scope_of(loop)
        for x in ast.walk(sc) if sc is not None else []:
            if isinstance(x, ast.Name) and isinstance(x.ctx, ast.Load) and id(x) not in inside:
                loaded_outside.add(x.id)
        for st in [s for b in loop.body for s in ast.walk(b)]:
            if isinstance(st, (ast.Return, ast.Break, ast.Yield, ast.YieldFrom, ast.With, ast.Delete, ast.Global)):
                return False
            if isinstance(st, (ast.Assign, ast.AugAssign, ast.AnnAssign)):
                tg = st.targets if isinstance(st, ast.Assign) else [st.target]
                for t in tg:
                    for x in ast.walk(t):
                        if isinstance(x, (ast.Subscript, ast.Attribute)) and isinstance(x.ctx, ast.Store):
                            return False
                        if isinstance(x, ast.Name) and isinstance(x.ctx, ast.Store) and x.id in loaded_outside:
                            return False
            if isinstance(st, ast.Call) and isinstance(st.func, ast.Attribute) and st.func.attr in _MUTCALL:
                return False
            if isinstance(st, ast.Call) and isinstance(st.func, ast.Name) and st.func.id in ('print', 'setattr', 'next'):
                return False
        return True

    viol = []
    nsrc = 0
    for n in ast.walk(root):
        if not isinstance(n, ast.expr) or not unordered(n):
            continue
        p = parent.get(id(n))
        if isinstance(n, ast.Name) and isinstance(p, ast.Assign) and n in p.targets:
            continue
        if not isinstance(n, ast.Name):
            nsrc += 1
        # contexts that do not observe the order
        if isinstance(p, ast.Call) and n in p.args and isinstance(p.func, ast.Name) and p.func.id in _INSENSITIVE:
            continue
        if isinstance(p, ast.Call) and isinstance(p.func, ast.Attribute) and p.func.value is n:
            continue        # method of the set itself (add, issubset, ...): no iteration order observed
        if isinstance(p, ast.Compare) and n in p.comparators:
            continue
        if isinstance(p, ast.Compare) and p.left is n and all(isinstance(o, (ast.Eq, ast.NotEq, ast.LtE, ast.Lt, ast.GtE, ast.Gt))
                                                              for o in p.ops):
            continue
        if isinstance(p, ast.BinOp) and isinstance(p.op, _SETOPS):
            continue        # judged at the enclosing set expression
        if isinstance(p, ast.Assign) and p.value is n and all(isinstance(t, ast.Name) for t in p.targets):
            k = (id(scope_of(p)), p.targets[0].id)
            if tainted.get(k):
                continue    # judged at the uses of the name
        if isinstance(p, (ast.If, ast.While, ast.IfExp)) and getattr(p, 'test', None) is n:
            continue        # truthiness
        if isinstance(p, ast.UnaryOp) and isinstance(p.op, ast.Not):
            continue
        if isinstance(p, ast.BoolOp):
            continue
        if isinstance(p, ast.IfExp):
            continue        # judged at the conditional expression
        if isinstance(p, ast.For) and p.iter is n and body_insensitive(p):
            continue
        if isinstance(p, ast.comprehension) and p.iter is n:
            comp = parent.get(id(p))
            if isinstance(comp, ast.SetComp):
                continue
            cp = parent.get(id(comp))
            if isinstance(cp, ast.Call) and comp in cp.args and isinstance(cp.func, ast.Name) and cp.func.id in _INSENSITIVE:
                continue
        if handed.get(id(n)):
            continue        # judged at the uses of the receiving parameter in the callee
        if returned.get(id(n)):
            continue        # judged at the call sites of the helper that returns it
        if isinstance(p, ast.Return) or isinstance(p, ast.keyword) or (isinstance(p, ast.Call) and n in p.args) \
                or isinstance(p, (ast.For, ast.comprehension, ast.Starred, ast.Subscript, ast.Tuple, ast.List, ast.Dict,
                                  ast.Attribute, ast.Assign, ast.JoinedStr, ast.FormattedValue, ast.Yield, ast.Expr)):
            if isinstance(p, ast.Expr):
                continue
            viol.append((n, stmt_text(p if not isinstance(p, ast.comprehension) else parent.get(id(p)))))
    return viol, nsrc


UNORDERED_WITNESS = '''
def merge(a, b):
    for key in set(a) - set(b):
        b[key] = a[key]
    return b
'''
UNORDERED_TWIN = '''
def merge(a, b):
    for key in sorted(set(a) - set(b)):
        b[key] = a[key]
    if len(set(a)) > 1 and 'x' in set(b):
        raise ValueError
    return b
'''


def unordered_sweep(ctx, rule='UNORDERED'):
    """package-wide: no order-sensitive consumption of a set / unsorted listing (plus the must-fire witness)"""
    w, _ = unordered_iteration(ast.parse(UNORDERED_WITNESS))
    t, _ = unordered_iteration(ast.parse(UNORDERED_TWIN))
    ctx.require(len(w) == 1 and not t, 'UNORDERED sweep self-check failed (witness must fire, sorted twin must not)')
    total = 0
    for m in ctx.prog.modules.values():
        viol, nsrc = unordered_iteration(m.tree)
        total += nsrc
        for n, text in viol:
            fi = ctx.prog.enclosing_function(m, n)
            ctx.ob(rule, 'values with no input-determined iteration order (sets, set operations on dictionary views, unsorted '
                   'directory listings) are consumed only through order-insensitive operations or sorted()', fi or m.relpath, False,
                   {'expression': ast.unparse(n), 'consumer': text}, node=n, construct=text)
    ctx.ob(rule, 'package sweep: no order-sensitive consumption of unordered collections', 'setigen/**', True,
           {'unordered_sources_seen': total}, construct='package sweep: unordered sources')
    return total


def init_invariant(ctx, cls_short, attr):
    """Class invariant for a container attribute: the value `self.<attr>` has at the exit of __init__, rewritten over
    the object's own attributes (objects constructed in __init__ are named by the attribute that holds them,
    constructor parameters by the attribute that copies them).  Returned only when it is an invariant: neither
    <attr> nor any attribute the expression mentions is assigned or mutated in place by any function other than
    __init__ (name-based sweep over the whole package).  None otherwise."""
    from vstatic.sva import MUTATING_METHODS
    ci = ctx.prog.cls(cls_short)
    init = ci.find_method('__init__')
    if init is None:
        return None
    r, I = ctx.run(init, expand=False)
    v = selfattr(r, attr)
    if v is None:
        return None
    selfk = sym('self').key
    by_new, by_param = {}, {}
    for (ok, name), val in r.heap.items():
        if ok != selfk or name == attr:
            continue
        a = val.single_atom()
        if a is not None and a.kind == 'ite' and a.args[2].single_atom() is not None and a.args[2].single_atom().kind == 'undef':
            a = a.args[1].single_atom()       # attribute that exists only in some configurations
        if a is not None and a.kind == 'new':
            by_new.setdefault(a.key, name)
        elif a is not None and a.kind == 'sym' and a.args[0] in init.all_params():
            by_param.setdefault(a.key, name)
    used = set()

    def fn(a):
        if a.key in by_new:
            used.add(by_new[a.key])
            return T.mk_attr(sym('self'), by_new[a.key])
        if a.key in by_param:
            used.add(by_param[a.key])
            return T.mk_attr(sym('self'), by_param[a.key])
        return None
    w = T.subst(v, fn)
    for a in T.all_atoms(w).values():
        if a.kind == 'new' or (a.kind == 'sym' and a.args[0] != 'self') or a.kind in ('loopvar', 'after', 'undef'):
            return None
    family = {c.qual for c in ci.mro()} | {c.qual for c in ctx.prog.classes.values() if ci in c.mro()}

    def foreign_self(fi, n):
        """`self.<name>` inside a method of an unrelated class is another object's attribute"""
        recv = n.value if isinstance(n, ast.Attribute) else None
        o = fi
        while o is not None and o.cls is None:
            o = o.parent
        return isinstance(recv, ast.Name) and recv.id == 'self' and o is not None and o.cls.qual not in family
    for name in used | {attr}:
        for fi in ctx.prog.functions.values():
            if isinstance(fi.node, ast.Lambda) or fi is init:
                continue
            for n in ast.walk(fi.node):
                if isinstance(n, ast.Attribute) and n.attr == name and foreign_self(fi, n):
                    continue
                if isinstance(n, ast.Attribute) and n.attr == name:
                    if isinstance(n.ctx, (ast.Store, ast.Del)):
                        return None
                if isinstance(n, ast.Subscript) and isinstance(n.ctx, (ast.Store, ast.Del)) and \
                        isinstance(n.value, ast.Attribute) and n.value.attr == name and name == attr:
                    return None
                if isinstance(n, ast.Call) and isinstance(n.func, ast.Attribute) and n.func.attr in MUTATING_METHODS and \
                        isinstance(n.func.value, ast.Attribute) and n.func.value.attr == name and name == attr:
                    return None
                if isinstance(n, ast.Call) and isinstance(n.func, ast.Name) and n.func.id == 'setattr' and fi.module is ci.module:
                    if len(n.args) >= 2 and not (isinstance(n.args[1], ast.Constant) and n.args[1].value != name):
                        return None
    return w


def prog_functions(ctx):
    return [fi for fi in ctx.prog.functions.values() if not isinstance(fi.node, ast.Lambda)]


def attr_stores_with_loop(fnode, attr):
    """(Assign statement, innermost enclosing For/While or None) for every `<x>.<attr> = value` directly in fnode"""
    out = []

    def walk(stmts, loop):
        for st in stmts:
            if isinstance(st, (ast.FunctionDef, ast.AsyncFunctionDef, ast.ClassDef)):
                continue
            if isinstance(st, ast.Assign) and any(isinstance(t, ast.Attribute) and t.attr == attr for t in st.targets):
                out.append((st, loop))
            for field in ('body', 'orelse', 'finalbody'):
                sub = getattr(st, field, None)
                if isinstance(sub, list):
                    walk(sub, st if isinstance(st, (ast.For, ast.While)) and field == 'body' else loop)
            for h in getattr(st, 'handlers', []):
                walk(h.body, loop)
    walk(fnode.body, None)
    return out


_FRESH_CALLS = {'list', 'dict', 'deepcopy', 'copy', 'array', 'zeros', 'empty', 'ones', 'full'}


def fresh_value(fnode, st, loop):
    """the value stored by `st` is an object constructed by this very execution of the statement (or, for a name,
    by a definition inside the same loop iteration) -- not one shared between iterations, calls or objects"""
    def fresh_expr(e):
        if isinstance(e, (ast.List, ast.ListComp, ast.Dict, ast.DictComp, ast.Set, ast.SetComp)):
            return True
        if isinstance(e, ast.BinOp) and isinstance(e.op, (ast.Mult, ast.Add)):
            return fresh_expr(e.left) or fresh_expr(e.right)
        if isinstance(e, ast.Call):
            f = e.func
            nm = f.attr if isinstance(f, ast.Attribute) else (f.id if isinstance(f, ast.Name) else None)
            return nm in _FRESH_CALLS
        if isinstance(e, ast.IfExp):
            return fresh_expr(e.body) and fresh_expr(e.orelse)
        return False
    v = st.value
    if fresh_expr(v):
        return True, 'constructed at the store'
    if isinstance(v, ast.Name):
        scope = loop.body if loop is not None else fnode.body
        inside = {id(x) for b in scope for x in ast.walk(b)}
        defs = [x for x in ast.walk(fnode) if isinstance(x, ast.Assign) and any(isinstance(t, ast.Name) and t.id == v.id for t in x.targets)]
        if defs and all(id(d) in inside and fresh_expr(d.value) for d in defs):
            return True, 'constructed in the same iteration'
        return False, f'`{v.id}` is bound outside the loop iteration (or not to a new object): one object would be shared'
    return False, 'value is not a newly constructed container'


def record_block_requests(ctx, rec, Ir, rule='FORMULA'):
    """record(): the block requests are made in a block loop nested in a file loop; the file loop runs
    ceil(num_blocks / blocks_per_file) times and file i holds blocks_per_file blocks except a final remainder, so
    exactly num_blocks blocks are requested (and written).  Located structurally through the collect_data_block call."""
    cdb = [e for e in Ir.events if e.kind == 'call' and e.data.get('name') == B + '.collect_data_block']
    ctx.require(cdb, 'record() no longer calls collect_data_block')
    e = cdb[0]
    if len(e.loops) < 2 or 'trip' not in e.loops[-1] or 'trip' not in e.loops[-2]:
        ctx.ob(rule, 'blocks are requested in a block loop nested in a file loop', rec, False,
               {'loops': [pretty(l.get('iter', T.NONE)) for l in e.loops]}, node=e.node, construct='collect_data_block loops')
        return
    fl, bl = e.loops[-2], e.loops[-1]
    J = ctx.interp()
    J.heap = dict(Ir.heap)
    nf = ctx.spec(rec, 'int(np.ceil(self.num_blocks / self.blocks_per_file))', I=J)
    ctx.formula(rule, 'number of files == ceil(num_blocks / blocks_per_file)', rec, fl['trip'], nf, node=fl['node'],
                construct='file loop trip count')
    J2 = ctx.interp()
    J2.heap = dict(Ir.heap)
    spec = ctx.spec(rec, 'ITE(FI == NF - 1 and self.num_blocks % self.blocks_per_file != 0, '
                         'self.num_blocks % self.blocks_per_file, self.blocks_per_file)', env={'FI': fl['index'], 'NF': nf}, I=J2)
    trip = bl['trip']
    # closed form of the same count: for 0 <= i < ceil(N/B),  min(N - i*B, B)  is B except in a final partial file, where it is
    # N mod B  (integer arithmetic identity; N, B read from the recorder's attributes, i the file index)
    ta = trip.single_atom()
    if ta is not None and ta.kind == 'call' and ta.args[0] == 'min' and len(ta.args[1]) == 2 and not ta.args[2]:
        Bt = ctx.spec(rec, 'self.blocks_per_file', I=J2)
        rest = ctx.spec(rec, 'self.num_blocks - FI * self.blocks_per_file', env={'FI': fl['index']}, I=J2)
        got = {x.key for x in ta.args[1]}
        if got == {Bt.key, rest.key}:
            trip = spec
    ctx.formula(rule, 'blocks requested for file i == remainder in the last file, else blocks_per_file (num_blocks in total)', rec,
                trip, spec, node=bl['node'], construct='block loop trip count')


# --------------------------------------------------------------------------- functions and the helpers extracted from them
def new_helpers_of(ctx, fi, _seen=None):
    """FuncInfos that are not in the baseline list and are reached from `fi` through resolved calls that pass only through
    such new functions: the pieces a refactoring extracted from fi (transitively)."""
    from vstatic.baseline import BASELINE_FUNCS
    from vstatic.argbind import resolve_callee
    seen = _seen if _seen is not None else {}
    for n in ast.walk(fi.node):
        if isinstance(n, ast.Call):
            rc = resolve_callee(ctx.prog, fi, n)
            if rc is None:
                continue
            callee = rc[0]
            if callee.short in BASELINE_FUNCS or callee.qual in seen or callee is fi:
                continue
            seen[callee.qual] = callee
            new_helpers_of(ctx, callee, seen)
    # nested closures defined in new helpers are part of them already (same node)
    return list(seen.values())


def family_nodes(ctx, fi):
    """AST nodes of fi and of every helper extracted from it"""
    return [fi.node] + [h.node for h in new_helpers_of(ctx, fi)]


def family_walk(ctx, fi):
    for node in family_nodes(ctx, fi):
        yield from ast.walk(node)


def leaf_mutations(prog, S, fi, _depth=0, _seen=None):
    """Mutations of `fi` with those performed through package callees replaced by the callee's own statements
    (recursively), so that extracting a helper leaves the set unchanged.
    Yields (kind, path in terms of fi's parameters, how, node, owner FuncInfo)."""
    import re as _re
    from vstatic.argbind import resolve_callee
    _seen = _seen or set()
    s = S.get(fi.qual)
    if s is None:
        return
    for (kind, path), hits in s['mutates'].items():
        for node, how in hits:
            m = _re.match(r'via (\S+)\((\w+)\)$', how)
            if not m or _depth > 4:
                yield kind, path, how, node, fi
                continue
            rc = resolve_callee(prog, fi, node) if isinstance(node, ast.Call) else None
            if rc is None:
                yield kind, path, how, node, fi
                continue
            callee, pname = rc[0], m.group(2)
            key = (callee.qual, pname, path)
            if key in _seen:
                continue
            _seen.add(key)
            # which part of `path` is the callee's parameter itself: the summary recorded  actual-root + rest
            found = False
            for k2, p2, how2, node2, owner in leaf_mutations(prog, S, callee, _depth + 1, _seen):
                if k2 != 'param' or not (p2 == pname or p2.startswith(pname + '.')):
                    continue
                rest = p2[len(pname):]
                if not (path == rest.lstrip('.') or path.endswith(rest)):
                    continue
                found = True
                yield kind, path, how2, node2, owner
            if not found:
                yield kind, path, how, node, fi


def inline_locals(fn_node, expr, depth=3):
    """`expr` with every local name that the function binds exactly once (plain `name = value`, not a parameter, not
    rebound by a loop / with / augmented assignment) replaced by its defining expression: `s = int(g.integers(9));
    default_rng(s)` reads as `default_rng(int(g.integers(9)))`.  Returns an ast expression (a copy)."""
    import copy as _copy
    params = set()
    if isinstance(fn_node, (ast.FunctionDef, ast.Lambda)):
        a = fn_node.args
        params = {x.arg for x in a.posonlyargs + a.args + a.kwonlyargs}
        if a.vararg:
            params.add(a.vararg.arg)
        if a.kwarg:
            params.add(a.kwarg.arg)
    defs, count = {}, {}
    body = fn_node.body if isinstance(getattr(fn_node, 'body', None), list) else []
    for st in body:
        for n in ast.walk(st):
            if isinstance(n, (ast.FunctionDef, ast.Lambda)) and n is not fn_node:
                continue
            if isinstance(n, ast.Name) and isinstance(n.ctx, (ast.Store, ast.Del)):
                count[n.id] = count.get(n.id, 0) + 1
            if isinstance(n, ast.Assign) and len(n.targets) == 1 and isinstance(n.targets[0], ast.Name):
                defs[n.targets[0].id] = n.value

    class R(ast.NodeTransformer):
        def __init__(self, d):
            self.d = d

        def visit_Name(self, n):
            if isinstance(n.ctx, ast.Load) and n.id in defs and count.get(n.id) == 1 and n.id not in params and self.d > 0:
                return R(self.d - 1).visit(_copy.deepcopy(defs[n.id]))
            return n
    return R(depth).visit(_copy.deepcopy(expr))


def fresh_request_buffer(ctx):
    """DataStream._update_t: every request binds self.v to a fresh zero array.  MultiAntennaArray keeps VIEWS of the background
    stream's buffer (the trailing delay samples) for the next request, and get_samples hands the buffer out: re-using it in place
    would overwrite the samples a later request still needs (shared by C02-D7 and C15-D2)."""
    shorts = {f.short for f in ctx.prog.functions.values()}
    if 'voltage.data_stream.DataStream._update_t' in shorts:
        ut = ctx.func('voltage.data_stream.DataStream._update_t')
        ru, Iu = ctx.run(ut, expand=False)
        vst = [e for e in Iu.events if e.kind == 'store' and e.data.get('target') == 'attr' and e.data.get('name') == 'v']
    else:
        # (helper folded into get_samples: the buffer binding is the first store of self.v in a request)
        ut = ctx.func('voltage.data_stream.DataStream.get_samples')
        ru, Iu = ctx.run(ut, expand=False, heap={'noise_sources': '[]', 'signal_sources': '[]'})
        vst = [e for e in Iu.events if e.kind == 'store' and e.data.get('target') == 'attr' and e.data.get('name') == 'v']
    okv = len(vst) == 1 and not vst[0].pc and vst[0].data['value'].key == ctx.spec(ut, 'xp.zeros(num_samples)').key
    inplace = [e for e in Iu.events if (e.kind == 'call' and e.data.get('name') in ('.fill', '.put', 'copyto', 'numpy.copyto'))
               or (e.kind == 'store' and e.data.get('target') == 'sub' and '.v' in ast.unparse(e.data['base_node']))]
    ctx.ob('ALIASINPLACE', 'every request allocates a fresh voltage buffer (the per-antenna caches keep views of the previous one, '
           'so it must never be reused in place)', ut, okv and not inplace,
           {'stores': [e.text() for e in vst], 'path_conditions': [[pretty(c) for c in e.pc] for e in vst],
            'in_place': [e.text() for e in inplace]},
           node=(vst[0].node if vst else ut.node), construct='self.v per request')


def inline_helper_call(ctx, owner, expr, depth=2):
    """`expr` with calls to helpers extracted later (functions not in the baseline list) whose body is a single
    `return <e>` (after an optional docstring and single-definition locals) replaced by that expression:
    `seed=self._draw_seed()` reads as `seed=int(self.rng.integers(2**31))`."""
    import copy as _copy
    from vstatic.argbind import resolve_callee
    from vstatic.baseline import BASELINE_FUNCS
    if depth <= 0 or expr is None:
        return expr

    class R(ast.NodeTransformer):
        def visit_Call(self, n):
            self.generic_visit(n)
            try:
                rc = resolve_callee(ctx.prog, owner, n)
            except Exception:
                rc = None
            if rc is None or rc[0].short in BASELINE_FUNCS or not isinstance(rc[0].node, ast.FunctionDef):
                return n
            body = [s for s in rc[0].node.body if not (isinstance(s, ast.Expr) and isinstance(s.value, ast.Constant))]
            if not body or not isinstance(body[-1], ast.Return) or body[-1].value is None:
                return n
            if any(not isinstance(s, ast.Assign) for s in body[:-1]):
                return n
            e = inline_locals(rc[0].node, body[-1].value)
            return inline_helper_call(ctx, rc[0], e, depth - 1)
    return R().visit(_copy.deepcopy(expr))


def delay_within_max(t):
    """class invariant of MultiAntennaArray used as a precondition of get_samples: every antenna's delay is one of the
    normalised delays and max_delay is their maximum (both are C15-D1 obligations on __init__), hence
    self.max_delay - <antenna>.delay >= 0 for every antenna of self.antennas."""
    if len(t.p) != 2:
        return False
    pos = [m for m, c in t.p.items() if c == 1 and len(m) == 1 and m[0][1] == 1]
    neg = [m for m, c in t.p.items() if c == -1 and len(m) == 1 and m[0][1] == 1]
    if len(pos) != 1 or len(neg) != 1:
        return False
    a, b = pos[0][0][0], neg[0][0][0]
    if not (a.kind == 'attr' and a.args[1] == 'max_delay' and b.kind == 'attr' and b.args[1] == 'delay'):
        return False
    owner = a.args[0]
    ea = b.args[0].single_atom()
    if ea is None or ea.kind not in ('elem', 'sub'):
        return False
    la = ea.args[0].single_atom()
    return la is not None and la.kind == 'attr' and la.args[1] == 'antennas' and la.args[0].key == owner.key


# --------------------------------------------------------------------------- MEMO: memoised readers of external state
_MEMO_DECORATORS = {'functools.lru_cache', 'functools.cache'}
_EXTERNAL_READS = {'open', 'io.open', 'blimpy.Waterfall', 'blimpy.waterfall.Waterfall', 'h5py.File', 'numpy.fromfile', 'numpy.load',
                   'numpy.memmap', 'numpy.loadtxt', 'numpy.genfromtxt', 'os.stat', 'os.path.getsize', 'os.path.getmtime',
                   'os.path.exists', 'os.path.isfile', 'os.listdir', 'os.scandir', 'glob.glob', 'glob.iglob', 'pickle.load'}
_EXTERNAL_READ_METHODS = {'read_bytes', 'read_text', 'stat', 'exists', 'is_file', 'iterdir', 'glob'}


def memoised_external_readers(ctx):
    """MEMO: a function memoised on its arguments (functools.lru_cache / functools.cache, however imported) must not read
    state outside its arguments -- a file at a path, a directory listing: the memo is keyed by the PATH, so a file rewritten
    between two calls is answered from the first read.  Returns [(FuncInfo, decorator text, what it reads, node)] over the
    whole package (the memoised function itself and the package functions it calls, transitively)."""
    from vstatic.argbind import resolve_callee
    prog = ctx.prog

    def decorator_name(fi, d):
        f = d.func if isinstance(d, ast.Call) else d
        try:
            dotted = ast.unparse(f)
        except Exception:
            return None
        r = prog.resolve_dotted(fi.module, dotted)
        if isinstance(r, tuple) and r[0] == 'ext':
            return r[1]
        return None

    def ext_name(fi, f):
        try:
            dotted = ast.unparse(f)
        except Exception:
            return None
        if dotted in ('open',):
            return 'open'
        r = prog.resolve_dotted(fi.module, dotted)
        if isinstance(r, tuple) and r[0] == 'ext':
            return r[1]
        return None

    def reads(fi, seen):
        if fi.qual in seen or len(seen) > 60:
            return None
        seen.add(fi.qual)
        body = fi.node.body if isinstance(fi.node.body, list) else [fi.node.body]
        for b in body:
            for n in ast.walk(b):
                if not isinstance(n, ast.Call):
                    continue
                en = ext_name(fi, n.func)
                if en in _EXTERNAL_READS:
                    return (en, n)
                if isinstance(n.func, ast.Attribute) and n.func.attr in _EXTERNAL_READ_METHODS and en is None:
                    return ('.' + n.func.attr + '()', n)
                rc = resolve_callee(prog, fi, n)
                if rc is not None:
                    sub = reads(rc[0], seen)
                    if sub is not None:
                        return (f'{rc[0].short} -> {sub[0]}', n)
        return None

    out, n_memo = [], 0
    for fi in prog.functions.values():
        for d in getattr(fi.node, 'decorator_list', []):
            dn = decorator_name(fi, d)
            if dn in _MEMO_DECORATORS:
                n_memo += 1
                rd = reads(fi, set())
                if rd is not None:
                    out.append((fi, dn, rd[0], d))
    return out, n_memo


def memo_obligation(ctx, anchor_fi, what):
    """one MEMO obligation per property that depends on files being re-read: holds iff no memoised function of the package
    reads external state (reported at the memoised function)"""
    bad, n_memo = memoised_external_readers(ctx)
    ctx.ob('MEMO', f'{what}: no function memoised on its arguments (functools.lru_cache / cache) reads a file or a directory -- '
           'the memo is keyed by the path, a file rewritten between two calls would be answered from the first read',
           bad[0][0] if bad else anchor_fi, not bad,
           {'memoised_functions_in_package': n_memo,
            'memoised_readers': [f'{fi.short} (@{dn}) reads {rd}' for fi, dn, rd, _ in bad]},
           node=(bad[0][3] if bad else anchor_fi.node), construct='memoised file reader')


def header_rendered_afresh(ctx, why=''):
    """the header of every block is rendered from the dictionary it is given: `_make_header` keeps nothing on the backend from
    one call to the next (no attribute of self is stored, none it stored earlier is read back) -- cards rendered once and
    re-used would survive into the next block / the next recording with the first one's values"""
    mk = ctx.func(B + '._make_header')
    r, I = ctx.run(mk)
    st = [e for e in I.events if e.kind == 'store' and e.data.get('target') in ('attr', 'sub') and e.owner == mk.short
          and (e.data['base'].key == sym('self').key or
               (e.data['base'].single_atom() is not None and e.data['base'].single_atom().kind == 'attr'
                and e.data['base'].single_atom().args[0].key == sym('self').key))]
    ctx.ob('EFFECTS', '_make_header renders every header from the dictionary it is given and keeps no rendered state on the backend'
           + why, mk, not st, {'stores_on_self': [e.text()[:80] for e in st]}, node=(st[0].node if st else mk.node),
           construct='_make_header state on self')
