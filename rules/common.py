"""Helpers shared by several properties' rules."""
import ast
from vstatic import terms as T
from vstatic.terms import sym, Term, Atom, lift, pretty
from vstatic.model import AnalysisError

B = 'voltage.backend.RawVoltageBackend'
INT_ATTRS = {'num_branches', 'num_taps', 'fchans', 'tchans', 'num_chans', 'num_pols', 'num_antennas', 'num_bits',
             'block_size', 'fftlength', 'int_factor', 'samples_per_block', 'bytes_per_sample', 'blocks_per_file',
             'start_chan', 'num_blocks', 'num_subblocks', 'tchans_per_block', 'input_num_blocks', 'max_delay',
             'num_bytes', 'nchans', 'stats_calc_num_samples', 'stats_calc_period', 't_subsamples', 'f_subsamples',
             'smearing_subsamples', 'f_shift', 'header_size'}
REAL_ATTRS = {'sample_rate', 'tbin', 'chan_bw', 'time_per_block', 'obs_length', 'df', 'dt', 'fch1', 'tsamp', 'foff',
              'f_start', 'f_stop', 'drift_rate', 'width', 'fmin', 'fmax', 't_start', 'unit_drift_rate', 'level',
              'center_freq'}


def selfattr(r, name, who='self'):
    return r.heap.get((sym(who).key, name))


def kind_of(t):
    """E5 kind lattice on a term: 'Int' < 'Rat' < 'Real'; 'Unknown' when an atom is not in the tables.
    Also returns the list of truncations applied to Real-kind arguments."""
    bad = []

    def k_atom(a):
        if a.kind in ('attr', 'sym'):
            n = a.args[1] if a.kind == 'attr' else a.args[0]
            n = n.split('.')[-1]
            if n in INT_ATTRS or a.key in T.INTEGER or (a.kind == 'sym' and a.args[0] in T.INTEGER):
                return 'Int'
            if n in REAL_ATTRS:
                return 'Real'
            return 'Unknown'
        if a.kind in ('idx',):
            return 'Int'
        if a.kind == 'num':
            return 'Real'
        if a.kind == 'call':
            fn, args, kw = a.args
            ks = [k_term(x) for x in args]
            if fn in ('trunc', 'floor', 'ceil', 'round'):
                if ks and ks[0] == 'Real' and fn != 'round':
                    bad.append(pretty(Term.of(a)))
                return 'Int' if (not ks or ks[0] != 'Unknown') else 'Unknown'
            if fn in ('floordiv', 'mod', 'len'):
                return 'Int' if all(k in ('Int',) for k in ks) or fn == 'len' else (
                    'Unknown' if 'Unknown' in ks else 'Real')
            if fn in ('abs', 'min', 'max'):
                return join(ks)
            return 'Unknown'
        if a.kind == 'ite':
            return join([k_term(a.args[1]), k_term(a.args[2])])
        if a.kind == 'sub':
            ba = a.args[0].single_atom()
            ia = a.args[1].single_atom()
            if ia is not None and ia.kind == 'str':
                key = ia.args[0].lower()
                if key in INT_ATTRS or key in ('nchans', 'nbits', 'npol', 'blocsize', 'obsnchan', 'nants', 'pktidx',
                                               'pktstart', 'pktstop'):
                    return 'Int'
                if key in REAL_ATTRS or key in ('tbin', 'chan_bw', 'obsfreq', 'obsbw', 'scanlen'):
                    return 'Real'
            return 'Unknown'
        if a.kind == 'poly':
            return k_term(a.args[0])
        return 'Unknown'

    ORDER = ['Int', 'Rat', 'Real', 'Unknown']

    def join(ks):
        return max(ks, key=ORDER.index) if ks else 'Int'

    def k_term(t):
        ks = []
        for m, c in t.p.items():
            mk = 'Int' if c.denominator == 1 else 'Rat'
            for a, e in m:
                ak = k_atom(a)
                if e.denominator != 1:
                    ak = join([ak, 'Real'])
                elif e < 0 and ak == 'Int':
                    ak = 'Rat'
                mk = join([mk, ak])
            ks.append(mk)
        return join(ks)
    k = k_term(t)
    return k, bad


def header_terms(ctx, I_out=None):
    """Run RawVoltageBackend._header_populate_configuration on a symbolic header; return
    (fi, interp, result, get(key)->Term of header_dict[key] at exit)."""
    fi = ctx.func(B + '._header_populate_configuration')
    r, I = ctx.run(fi)

    def get(key):
        return I.subscript(r.ret, lift(key))
    return fi, I, r, get


RECORD_NO_INLINE = (B + '.collect_data_block', B + '._make_header', B + '._header_add_from_template',
                    B + '._header_add_from_input_header', B + '._header_populate_configuration')


def _root_base(t):
    """the container a (chain of) subscript stores goes into: strip store(...) wrappers"""
    a = t.single_atom()
    while a is not None and a.kind == 'store':
        t = a.args[0]
        a = t.single_atom()
    return t


def _match_groups(ctx, rule, title, fi, what_label, A, B, comps, describe):
    """Compare two collections of events irrespective of the interleaving of INDEPENDENT events.
    comps(e) -> [(label, term)].  Pass 1 pairs events whose components are all EQUAL (any position);
    the leftovers are paired by position and each component is reported through ctx.formula (so a
    semantic change is a VIOLATION naming the construct, an opaque difference is UNDECIDED); an
    event without counterpart is a VIOLATION."""
    from vstatic import terms as T

    def merged(evs):
        """events that are identical except for complementary guards (if c: X  else: X) are one unguarded event"""
        items = [(e, comps(e)) for e in evs]
        out = []
        skip = set()
        for i, (e, x) in enumerate(items):
            if i in skip:
                continue
            gi = [k for k, (lab, _) in enumerate(x) if lab == 'guard']
            done = False
            if gi:
                g = gi[0]
                for j in range(i + 1, len(items)):
                    if j in skip:
                        continue
                    y = items[j][1]
                    if len(y) == len(x) and all(x[k][1].key == y[k][1].key for k in range(len(x)) if k != g):
                        both = T.mk_or([x[g][1], y[g][1]])
                        inter = T.mk_and([x[g][1], y[g][1]])
                        if T.compare(T.mk_not(x[g][1]), _rel_not(x[g][1], y[g][1]))[0] == T.EQUAL:
                            x2 = list(x)
                            x2[g] = ('guard', _common_guard(x[g][1], y[g][1]))
                            out.append((e, x2))
                            skip.add(j)
                            done = True
                            break
            if not done:
                out.append((e, x))
        return out
    ca = merged(A)
    cb = merged(B)
    used = set()
    left = []
    for ea, xa in ca:
        hit = None
        for k, (eb, xb) in enumerate(cb):
            if k in used or len(xa) != len(xb):
                continue
            if all(T.compare(u[1], v[1])[0] == T.EQUAL for u, v in zip(xa, xb)):
                hit = k
                break
        if hit is None:
            left.append((ea, xa))
        else:
            used.add(hit)
            ctx.ob(rule, f'{title}: {what_label} `{describe(ea)}` has an equal counterpart in the reference definition', fi, True,
                   {'matched_reference': describe(cb[hit][0])}, node=ea.node, construct=describe(ea))
    rest_b = [cb[k] for k in range(len(cb)) if k not in used]
    # pair the leftovers: prefer a counterpart that agrees on the identifying components (object / attribute /
    # callee / container), fall back to position
    ident = ('object', 'attribute', 'callee', 'container')
    ordered = []
    pool = list(rest_b)
    for ea, xa in left:
        pick = None
        for k, (eb, xb) in enumerate(pool):
            if len(xb) == len(xa) and all(u[1].key == v[1].key for u, v in zip(xa, xb) if u[0] in ident):
                pick = k
                break
        ordered.append(pool.pop(pick) if pick is not None else None)
    for n in range(len(ordered)):
        if ordered[n] is None and pool:
            ordered[n] = pool.pop(0)
    rest_b = [x for x in ordered if x is not None] + pool
    for n, (ea, xa) in enumerate(left):
        if n < len(ordered) and ordered[n] is not None and len(ordered[n][1]) == len(xa):
            eb, xb = ordered[n]
            for (la, ta), (lb, tb) in zip(xa, xb):
                ctx.formula(rule, f'{title}: {what_label} {la} == reference', fi, ta, tb, node=ea.node,
                            construct=describe(ea) + f' [{la}]')
        else:
            ctx.ob(rule, f'{title}: {what_label} `{describe(ea)}` exists in the reference definition', fi, False,
                   {'code': [describe(e) for e, _ in ca], 'reference': [describe(e) for e, _ in cb]}, node=ea.node,
                   construct=describe(ea) + ' [extra]')
    for eb, xb in rest_b[len(left):]:
        ctx.ob(rule, f'{title}: the reference {what_label} `{describe(eb)}` is performed by the code', fi, False,
               {'code': [describe(e) for e, _ in ca], 'reference': [describe(e) for e, _ in cb]}, node=fi.node,
               construct=f'missing {what_label}: ' + describe(eb))


def _split_guard(g):
    from vstatic import terms as T
    a = g.single_atom()
    if a is not None and a.kind == 'and':
        return list(a.args)
    return [] if g.key == T.TRUE.key else [g]


def _rel_not(g1, g2):
    """g2 with the conjuncts shared with g1 removed (so that `P and c` / `P and not c` are recognised)"""
    from vstatic import terms as T
    k1 = {c.key for c in _split_guard(g1)}
    rest2 = [c for c in _split_guard(g2) if c.key not in k1]
    k2 = {c.key for c in _split_guard(g2)}
    rest1 = [c for c in _split_guard(g1) if c.key not in k2]
    if len(rest1) == 1 and len(rest2) == 1:
        # complementary iff rest2 == not rest1 ; return something that compares equal to not(g1) exactly in that case
        if T.mk_not(rest1[0]).key == rest2[0].key:
            return T.mk_not(g1)
    return T.mk_and([g2, T.lift('distinct')])


def _common_guard(g1, g2):
    from vstatic import terms as T
    k2 = {c.key for c in _split_guard(g2)}
    return T.mk_and([c for c in _split_guard(g1) if c.key in k2])


def agree_ref(ctx, fi, ref_src, title, what=('return', 'heap', 'substores'), rule='AGREE', skip_attrs=(), **runkw):
    """Compare a function with a reference transcription of the property's definition evaluated by
    the same interpreter: return value, final values of self attributes, attribute stores, calls,
    buffer stores, loop-carried updates, raise/assert guards.  Events are matched as multisets (the
    order of independent statements is free); values are compared in normal form."""
    from vstatic import terms as T
    runkw = dict(runkw)
    if runkw.get('max_depth', None) == 0:
        # opaque = exactly the package functions the REFERENCE calls; anything else (e.g. a private helper a
        # refactoring introduced) is inlined, so it is compared through its effects
        r0, I0 = ctx.run_ref(fi, ref_src, **dict(runkw))
        opaque = {e.data['name'] for e in I0.events if e.kind == 'call' and e.data.get('resolved') is not None}
        runkw['no_inline'] = tuple(set(runkw.get('no_inline', ())) | opaque)
        runkw['max_depth'] = 3
    r, I = ctx.run(fi, **dict(runkw))
    rr, IR = ctx.run_ref(fi, ref_src, **dict(runkw))
    own = None           # events of helpers the function was inlined through belong to its behaviour
    txt = lambda e: e.text()[:90]
    if 'return' in what:
        ctx.formula(rule, f'{title}: returned value == reference definition', fi, r.ret, rr.ret, node=fi.node,
                    construct=f'return {fi.name}')
    if 'heap' in what:
        keys = sorted({k for k in list(I.heap) + list(IR.heap) if k[0] == sym('self').key})
        for k in keys:
            if k[1] in skip_attrs:
                continue
            a = I.heap.get(k, T.mk_attr(sym('self'), k[1]))
            b = IR.heap.get(k, T.mk_attr(sym('self'), k[1]))
            st = [e for e in I.events if e.kind == 'store' and e.data.get('target') == 'attr' and e.data.get('name') == k[1]]
            ctx.formula(rule, f'{title}: self.{k[1]} at exit == reference definition', fi, a, b,
                        node=(st[-1].node if st else fi.node), construct=f'self.{k[1]} at exit')
    if 'attrstores' in what:
        def sel(II, o):
            return [e for e in II.events if e.kind == 'store' and e.data.get('target') == 'attr'
                    and (o is None or e.func.short == o)]
        _match_groups(ctx, rule, title, fi, 'attribute update', sel(I, own), sel(IR, None),
                      lambda e: [('object', e.data['base']), ('attribute', lift(e.data['name'])), ('value', e.data['value']),
                                 ('guard', e.cond())], txt)
    if 'loopstores' in what:
        def sell(II, o):
            return [e for e in II.events if e.kind == 'store' and e.data.get('target') == 'name' and e.loops
                    and (o is None or e.func.short == o)
                    and any(e.data['name'] in l.get('carried', ()) for l in e.loops)]
        _match_groups(ctx, rule, title, fi, 'loop-carried update', sell(I, own), sell(IR, None),
                      lambda e: [('value', e.data['value'])], txt)
        def with_carried(II, o, loops):
            ids = {l['id'] for e in sell(II, o) for l in e.loops}
            return [e for e in loops if e.data['info']['id'] in ids]
        la = with_carried(I, own, [e for e in I.events if e.kind == 'loop'])
        lb = with_carried(IR, None, [e for e in IR.events if e.kind == 'loop'])
        _match_groups(ctx, rule, title, fi, 'loop', [e for e in la if 'trip' in e.data['info']],
                      [e for e in lb if 'trip' in e.data['info']], lambda e: [('trip count', e.data['info']['trip'])],
                      lambda e: e.text()[:60])
    if 'calls' in what:
        def selc(II, o):
            return [e for e in II.events if e.kind == 'call' and (o is None or e.func.short == o)
                    and (e.data.get('resolved') is not None or 'candidates' in e.data) and not e.data.get('inlined')]

        def packed(e):
            extra = [e.data.get('star') if e.data.get('star') is not None else T.NONE,
                     e.data.get('dstar') if e.data.get('dstar') is not None else T.NONE]
            b = e.data.get('bound')
            if b:
                items = sorted(b.items())
                return T.mk_tuple([T.mk_tuple([lift(k), v]) for k, v in items] + extra)
            names = T.mk_tuple([lift(k) for k, _ in sorted(e.data['kwargs'])])
            return T.mk_tuple(list(e.data['args']) + [names] + [v for _, v in sorted(e.data['kwargs'])] + extra)
        _match_groups(ctx, rule, title, fi, 'call', selc(I, own), selc(IR, None),
                      lambda e: [('callee', lift(e.data['name'])), ('arguments', packed(e)), ('guard', e.cond())], txt)
    if 'asserts' in what:
        aa_ = [e for e in I.events if e.kind == 'assert']
        ab_ = [e for e in IR.events if e.kind == 'assert']
        _match_groups(ctx, rule, title, fi, 'assertion', aa_, ab_,
                      lambda e: [('condition', e.data['cond']), ('guard', e.cond())], txt)
    if 'deletes' in what:
        da = [e for e in I.events if e.kind == 'delete']
        db = [e for e in IR.events if e.kind == 'delete']
        _match_groups(ctx, rule, title, fi, 'deletion', da, db,
                      lambda e: [('object', e.data['base']), ('key', lift(e.data['key']) if isinstance(e.data['key'], str) else e.data['key'])],
                      txt)
    if 'raises' in what:
        ra = [e for e in I.events if e.kind == 'raise']      # incl. package helpers the function was inlined through
        rb = [e for e in IR.events if e.kind == 'raise']
        _match_groups(ctx, rule, title, fi, 'rejecting path', ra, rb, lambda e: [('guard', e.cond())], txt)
    if 'substores' in what:
        sa = [e for e in I.events if e.kind == 'store' and e.data.get('target') == 'sub']
        sb = [e for e in IR.events if e.kind == 'store' and e.data.get('target') == 'sub']
        _match_groups(ctx, rule, title, fi, 'buffer store', sa, sb,
                      lambda e: [('container', _root_base(e.data['base'])), ('index', e.data['key']), ('value', e.data['value']),
                                 ('guard', e.cond())], txt)
    return (r, I), (rr, IR)


def who_writes(ctx, attr, allowed, cls_family=None):
    """WHOWRITES: functions that store `.attr` (any receiver) must be within `allowed` (short quals)."""
    import ast
    writers = {}
    for fi in ctx.prog.functions.values():
        if isinstance(fi.node, ast.Lambda):
            continue
        for n in ast.walk(fi.node):
            hit = False
            if isinstance(n, ast.Attribute) and n.attr == attr and isinstance(n.ctx, (ast.Store, ast.Del)):
                hit = True
            elif isinstance(n, ast.Call) and isinstance(n.func, ast.Name) and n.func.id == 'setattr' and len(n.args) >= 2 \
                    and isinstance(n.args[1], ast.Constant) and n.args[1].value == attr:
                hit = True
            elif isinstance(n, ast.Subscript) and isinstance(n.ctx, (ast.Store, ast.Del)) and \
                    isinstance(n.value, ast.Attribute) and n.value.attr == attr:
                hit = True
            if hit:
                owner = ctx.prog.enclosing_function(fi.module, n) or fi
                if owner is fi:
                    writers.setdefault(fi.short, n)
    return writers


def dominates(e1, e2):
    """event e1 is passed on every normal path that reaches e2: it comes first and every branch condition
    on e1's path is also on e2's path (conditions introduced by earlier raising/returning branches included)."""
    k2 = {c.key for c in e2.pc}
    return e1.seq < e2.seq and all(c.key in k2 for c in e1.pc)
