"""C15 Array antennas see the shared background delayed by their configured delays (DESIGN §4.C15)."""
import ast
from vstatic import terms as T
from vstatic.terms import sym, Term, Atom, lift, pretty, TRUE, FALSE, NONE
from vstatic.nonedef import analyse
from .common import init_invariant, prog_functions, attr_stores_with_loop, fresh_value, agree_ref, selfattr, dominates, fresh_request_buffer

MA = 'voltage.antenna.MultiAntennaArray.'

REF_GET = '''
def get_samples(self, num_samples):
    assert num_samples > self.max_delay
    if self.start_obs:
        bg_num_samples = num_samples + self.max_delay
    else:
        bg_num_samples = num_samples
    self.bg_x.get_samples(bg_num_samples)
    if self.num_pols == 2:
        self.bg_y.get_samples(bg_num_samples)
    for antenna in self.antennas:
        antenna.x.get_samples(num_samples)
        if self.start_obs:
            bg_x_v = self.bg_x.v[self.max_delay - antenna.delay:bg_num_samples - antenna.delay]
        else:
            bg_x_v = xp.concatenate([antenna.bg_cache[0], self.bg_x.v])[:bg_num_samples]
        antenna.bg_cache[0] = self.bg_x.v[bg_num_samples - antenna.delay:]
        antenna.x.v += bg_x_v
        if self.num_pols == 2:
            antenna.y.get_samples(num_samples)
            if self.start_obs:
                bg_y_v = self.bg_y.v[self.max_delay - antenna.delay:bg_num_samples - antenna.delay]
            else:
                bg_y_v = xp.concatenate([antenna.bg_cache[1], self.bg_y.v])[:bg_num_samples]
            antenna.bg_cache[1] = self.bg_y.v[bg_num_samples - antenna.delay:]
            antenna.y.v += bg_y_v
        antenna.t_start += num_samples * antenna.dt
        antenna.start_obs = False
    self.t_start += num_samples * self.dt
    self.start_obs = False
    if self.num_pols == 2:
        samples = [[antenna.x.v, antenna.y.v] for antenna in self.antennas]
    else:
        samples = [[antenna.x.v] for antenna in self.antennas]
    return xp.array(samples)
'''
REF_ADD_TIME = '''
def add_time(self, t):
    self.set_time(self.t_start + t)
'''
REF_RESET_START = '''
def reset_start(self):
    self.set_time(self.t_start)
'''
REF_SET_TIME = '''
def set_time(self, t):
    self.start_obs = True
    self.t_start = t
    self.bg_x.set_time(t)
    if self.num_pols == 2:
        self.bg_y.set_time(t)
    for antenna in self.antennas:
        antenna.bg_cache = [None, None]
        antenna.set_time(t)
'''


def slice_len(t):
    a = t.single_atom()
    if a is None or a.kind != 'sub':
        return None, None
    ia = a.args[1].single_atom()
    if ia is None or ia.kind != 'slice':
        return None, None
    lo, hi, st = ia.args
    return lo, hi


def run(ctx):
    T.INTEGER.update({'num_samples'})
    # ---- D1 the omitted-delays default
    ctx.clause = 'D1'
    n_tests = 0
    scope = [fi for fi in ctx.prog.functions.values() if not isinstance(fi.node, ast.Lambda) and
             (ctx.tier == 'thorough' or fi.module.name.endswith('voltage.antenna'))]
    for fi in scope:
        finds, checked = analyse(fi)
        n_tests += len(checked)
        for p, n, how, test in finds:
            ctx.ob('NONEDEF', f'`{p}` may be None here (the function itself tests `{p} is None` and carries on), yet it is '
                   f'dereferenced ({how})', fi, False, {'none_test_line': test.lineno, 'use': ast.unparse(n)[:80]}, node=n)
        for p, st in checked:
            if not any(f[0] == p for f in finds):
                ctx.ob('NONEDEF', f'after `{p} is None` is handled, `{p}` is never dereferenced while it may still be None', fi, True,
                       {'test': ast.unparse(st.test)}, node=st, construct=f'{fi.name}: {ast.unparse(st.test)}')
    ctx.require(n_tests >= 1, 'NONEDEF: no `is None` test of a None-default parameter found (vacuity guard)')
    init = ctx.func(MA + '__init__')
    T.NOTNONE.add('delays')
    r, I = ctx.run(init, max_depth=0, expand=False)
    ctx.formula('FORMULA', 'delays are normalised to an integer array', init, selfattr(r, 'delays') or NONE,
                ctx.spec(init, 'xp.array(delays).astype(int)'), node=init.node, construct='self.delays [given]')
    T.NOTNONE.discard('delays')
    r0, I0 = ctx.run(init, max_depth=0, expand=False, args={'delays': NONE})
    ctx.formula('FORMULA', 'omitted delays mean an integer zero delay for every antenna', init, selfattr(r0, 'delays') or NONE,
                ctx.spec(init, 'xp.zeros(num_antennas, dtype=int)'), node=init.node, construct='self.delays [omitted]')
    md = selfattr(r0, 'max_delay')
    ctx.formula('FORMULA', 'max_delay is the largest normalised delay (also when delays are omitted)', init, md if md is not None else NONE,
                ctx.spec(init, 'int(xp.max(xp.zeros(num_antennas, dtype=int)))'), node=init.node, construct='self.max_delay [omitted]')
    ad = [e for e in I0.events if e.kind == 'store' and e.data.get('name') == 'delay' and e.loops]
    ctx.require(ad, 'MultiAntennaArray.__init__ no longer assigns antenna.delay')
    idx = ad[0].loops[-1]['index']
    v = ad[0].data['value']
    want1 = T.mk_sub(ctx.spec(init, 'xp.zeros(num_antennas, dtype=int)'), idx)
    # (the i-th entry, whether the loop indexes the array or iterates over it)
    zs = ctx.spec(init, 'xp.zeros(num_antennas, dtype=int)')
    want2 = Term.of(Atom('elem', zs, ad[0].loops[-1]['id']))
    ok = v.key in (want1.key, T.mk_call('int', [want1]).key, want2.key, T.mk_call('int', [want2]).key)
    ctx.ob('FORMULA', 'antenna i gets the i-th normalised delay', init, ok, {'value': pretty(v)}, node=ad[0].node)

    REF_MA_INIT = """
def __init__(self, num_antennas, sample_rate=3*u.GHz, fch1=0*u.GHz, ascending=True, num_pols=2, delays=None, t_start=0, seed=None, **kwargs):
    self.rng = xp.random.default_rng(seed)
    if delays is None:
        self.delays = xp.zeros(num_antennas, dtype=int)
    else:
        assert len(delays) == num_antennas
        self.delays = xp.array(delays).astype(int)
    self.max_delay = int(xp.max(self.delays))
    self.num_antennas = num_antennas
    self.sample_rate = unit_utils.get_value(sample_rate, u.Hz)
    self.dt = 1 / self.sample_rate
    self.fch1 = unit_utils.get_value(fch1, u.Hz)
    self.ascending = ascending
    assert num_pols in [1, 2]
    self.num_pols = num_pols
    self.t_start = t_start
    self.start_obs = True
    self.antennas = []
    for i in range(self.num_antennas):
        antenna = Antenna(sample_rate=self.sample_rate, fch1=self.fch1, ascending=self.ascending, num_pols=self.num_pols,
                          t_start=self.t_start, seed=int(self.rng.integers(2**31)))
        antenna.delay = int(self.delays[i])
        self.antennas.append(antenna)
    self.bg_x = data_stream.BackgroundDataStream(sample_rate=self.sample_rate, fch1=self.fch1, ascending=self.ascending,
                                                 t_start=self.t_start, seed=int(self.rng.integers(2**31)),
                                                 antenna_streams=[antenna.x for antenna in self.antennas])
    self.bg_streams = [self.bg_x]
    if self.num_pols == 2:
        self.bg_y = data_stream.BackgroundDataStream(sample_rate=self.sample_rate, fch1=self.fch1, ascending=self.ascending,
                                                     t_start=self.t_start, seed=int(self.rng.integers(2**31)),
                                                     antenna_streams=[antenna.y for antenna in self.antennas])
        self.bg_streams.append(self.bg_y)
"""
    for case, a in (('given', {}), ('omitted', {'delays': NONE})):
        if case == 'given':
            T.NOTNONE.add('delays')
        agree_ref(ctx, init, REF_MA_INIT, f'MultiAntennaArray.__init__[delays {case}]: antennas and background streams share rate, band, '
                  'orientation and start time; background linked to every antenna\'s stream of the same polarisation',
                  what=('calls',), expand=False, max_depth=0, args=a)
        T.NOTNONE.discard('delays')
    # ---- D2/D3 the delayed background
    ctx.clause = 'D2'
    gs = ctx.func(MA + 'get_samples')
    # (precondition: delay_i <= max_delay for every antenna, established by __init__ -- C15-D1)
    from .common import delay_within_max
    T.GE0_PATTERNS.append(delay_within_max)
    had_ns = 'num_samples' in T.POSITIVE
    T.POSITIVE.add('num_samples')           # (a request is asserted to be longer than max_delay >= 0)
    try:
        (r, I), (rr, IR) = agree_ref(ctx, gs, REF_GET, 'get_samples: over-read by max_delay on the first request, per-antenna slice / cache, '
                                     'both polarisations alike', what=('return', 'attrstores', 'calls', 'substores'), max_depth=0,
                                     expand=False)
    finally:
        T.GE0_PATTERNS.remove(delay_within_max)
        if not had_ns:
            T.POSITIVE.discard('num_samples')
    SO = T.mk_attr(sym('self'), 'start_obs')

    def first_request_value(e):
        """the value stored on the first request of an observation: under `if self.start_obs:` as it stands, the
        start_obs arm of a conditional expression otherwise"""
        if any(pretty(c) == 'self.start_obs' for c in e.pc):
            return e.data['value']
        v = T.assume(e.data['value'], {SO.key: True})
        return v if v.key != e.data['value'].key else None

    def bg_slice(e):
        """a local bound to a slice of a shared background stream's samples: self.bg_x.v[lo:hi] / self.bg_y.v[lo:hi]"""
        v0 = first_request_value(e)
        va = v0.single_atom() if v0 is not None else None
        if va is None or va.kind != 'sub':
            return None
        ba = va.args[0].single_atom()
        if ba is not None and ba.kind == 'attr' and ba.args[1] == 'v':
            sa = ba.args[0].single_atom()
            if sa is not None and sa.kind == 'attr' and sa.args[1] in ('bg_x', 'bg_y') and sa.args[0].key == sym('self').key:
                return sa.args[1]
        return None
    bg = [e for e in I.events if e.kind == 'store' and e.data.get('target') == 'name' and bg_slice(e) is not None]
    ctx.require(bg, 'get_samples: the first-request background slice was not found')
    n_first = ctx.spec(gs, 'num_samples + self.max_delay', I=ctx.interp(expand=False))
    for e in bg:
        lo, hi = slice_len(first_request_value(e))
        ok = lo is not None and hi is not None
        if ok:
            length = T.assume(hi - lo, {sym('self').key: True})
            length = T.subst(hi - lo, lambda a: None)
            want = ctx.spec(gs, 'num_samples', I=ctx.interp(expand=False))
            lenv = T.assume(hi - lo, {T.mk_attr(sym('self'), 'start_obs').key: True})
            ctx.formula('AGREE', f'{bg_slice(e)}: the first-request slice has exactly num_samples samples', gs, lenv, want,
                        node=e.node, construct=e.text()[:80] + ' [length]')
            d = T.mk_attr(e.loops[-1] and T.lift(Atom('elem', e.loops[-1]['iter'], e.loops[-1]['id'])), 'delay')
            ctx.formula('AGREE', f'{bg_slice(e)}: antenna i starts max_delay - delay_i into the background', gs, lo,
                        ctx.spec(gs, 'self.max_delay', I=ctx.interp(expand=False)) - d, node=e.node, construct=e.text()[:80] + ' [offset]')
    caches = [e for e in I.events if e.kind == 'store' and e.data.get('target') == 'sub' and 'bg_cache' in ast.unparse(e.data['base_node'])]
    ctx.require(len(caches) >= 1, 'get_samples: the background cache update was not found')
    from .common import value_where_reached
    for e in caches:
        lo, hi = slice_len(value_where_reached(e))
        ok = lo is not None and T._isnone(hi)
        ctx.ob('AGREE', 'the cache keeps the tail of the background from (length - delay_i) on, i.e. the last delay_i samples', gs, ok,
               {'value': pretty(e.data['value'])[:160]}, node=e.node, construct=e.text()[:80] + ' [tail]')
    asserts = [e for e in I.events if e.kind == 'assert']
    firstuse = min([e.seq for e in I.events if e.kind == 'call' and e.data['name'] == '.get_samples'] or [10**9])
    want = ctx.spec(gs, 'num_samples > self.max_delay', I=ctx.interp(expand=False))
    ok = any(a.data['cond'].key == want.key and a.seq < firstuse and not a.pc for a in asserts)
    ctx.ob('GUARDDOM', 'requests not longer than the maximum delay are rejected before any stream is advanced', gs, ok,
           {'asserts': [e.text() for e in asserts]}, node=(asserts[0].node if asserts else gs.node), construct='assert num_samples > max_delay')

    fresh_request_buffer(ctx)
    # ---- D4 reset
    ctx.clause = 'D4'

    # class invariant (established by __init__, no other writer): bg_streams lists exactly the background streams
    inv = init_invariant(ctx, MA[:-1], 'bg_streams')
    agree_ref(ctx, ctx.func(MA + 'set_time'), REF_SET_TIME, 'set_time: every antenna\'s carried-over background is cleared and '
              'the start-of-observation flag set', what=('attrstores', 'calls'), max_depth=0, expand=False,
              **({'heap': {'bg_streams': inv}} if inv is not None else {}))
    # reset_start / add_time must have the effects of set_time at the (unchanged / advanced) clock: the shared background
    # streams are rewound to the array clock and every carried-over cache is dropped
    SET = MA + 'set_time'
    # (both sides are analysed THROUGH set_time, so the comparison is on effects, not on how they are spelled)
    hp = {'heap': {'bg_streams': inv}} if inv is not None else {}
    agree_ref(ctx, ctx.func(MA + 'add_time'), REF_ADD_TIME, 'add_time(t) == set_time(t_start + t)', what=('attrstores', 'calls'),
              expand=False, **hp)
    agree_ref(ctx, ctx.func(MA + 'reset_start'), REF_RESET_START, 'reset_start() == set_time(t_start): background streams rewound '
              'to the array clock, caches dropped, start-of-observation flag set', what=('attrstores', 'calls'), expand=False, **hp)
    # every whole-attribute store of bg_cache gives the antenna its OWN list (get_samples writes into it in place)
    n_st = 0
    for fi in prog_functions(ctx):
        for st, loop in attr_stores_with_loop(fi.node, 'bg_cache'):
            n_st += 1
            ok, why = fresh_value(fi.node, st, loop)
            ctx.ob('ALIASINPLACE', 'each antenna\'s bg_cache is a list of its own (never an object shared between antennas or calls)',
                   fi, ok, {'value': ast.unparse(st.value), 'why': why}, node=st)
    ctx.require(n_st >= 1, 'bg_cache is no longer assigned anywhere (ALIASINPLACE vacuity guard)')


META = {
    'technique': 'static analysis: nullness dataflow with the contradiction trigger (NONEDEF), symbolic slice arithmetic and '
                 'trace comparison against a reference definition (FORMULA/AGREE), guard dominance (GUARDDOM)',
    'level': 'Decides from the source that omitted delays are normalised to integer zeros and never dereferenced raw, that the'
             " first request over-reads the background by max_delay, that antenna i's slice starts max_delay - delay_i in and "
             'has exactly num_samples samples, that the cache is the last delay_i background samples and later requests '
             'prepend it, that both polarisations are treated alike, that too-short requests are rejected first, that set_time'
             " clears every cache with a list of the antenna's own, and that reset_start / add_time have exactly the effects "
             'of set_time(t_start [+ t]) (shared background rewound). Equality with a same-seed reference stream is not '
             'decided.',
    'note': 'Real/integer arithmetic on symbolic slice bounds; numpy concatenate/slicing semantics from their signatures.',
}
