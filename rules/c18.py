"""C18 A cadence is a consistency-guarded list of frames with stable order labels (DESIGN §4.C18)."""
import ast
import importlib.util
from vstatic import terms as T
from vstatic.terms import sym, Term, Atom, lift, pretty, TRUE, FALSE, NONE
from vstatic.effects import summaries
from .common import agree_ref, dominates

CD = 'cadence.Cadence.'
OC = 'cadence.OrderedCadence.'

REFS = {
    CD + '__len__': ('def __len__(self):\n    return len(self.frames)\n', ('return',)),
    CD + '__getitem__': ('''
def __getitem__(self, i):
    if isinstance(i, slice):
        return self.__class__(self.frames[i])
    elif isinstance(i, (list, np.ndarray, tuple)):
        if isinstance(i, tuple):
            i = list(i)          # a tuple of positions selects like a list of positions (numpy would read it as one N-d index)
        return self.__class__(np.array(self.frames)[i])
    else:
        return self.frames[i]
''', ('return',)),
    CD + '__delitem__': ('def __delitem__(self, i):\n    del self.frames[i]\n', ('deletes',)),
    CD + '__setitem__': ('def __setitem__(self, i, v):\n    self._check(v)\n    self.frames[i] = v\n', ('substores', 'calls')),
    CD + 'insert': ('def insert(self, i, v):\n    self._check(v)\n    self.frames.insert(i, v)\n', ('calls',)),
    OC + '__setitem__': ('''
def __setitem__(self, i, v):
    # list model: a position outside [-len, len) does not exist (a list raises IndexError, also below -len: it does not wrap
    # twice); otherwise the frame ends up at position i, counted from the end when negative, and the label is that position's
    self._check(v)
    if not -len(self) <= i < len(self):
        raise IndexError("index out of range")
    if i < 0:
        i = len(self) + i
    if "order_label" not in v.metadata:
        label = self.order[i]          # only an unlabelled frame needs the order string (looked up before the store)
        self.frames[i] = v
        v.add_metadata({"order_label": label})
    else:
        self.frames[i] = v
''', ('substores', 'calls', 'raises')),
    OC + 'insert': ('''
def insert(self, i, v):
    # list model: list.insert clamps the position into [0, len]; the label is the one at the position the frame lands on
    self._check(v)
    if i < 0:
        i = max(len(self) + i, 0)
    i = min(i, len(self))
    if "order_label" not in v.metadata:
        v.add_metadata({"order_label": self.order[i]})
    self.frames.insert(i, v)
''', ('calls',)),
    OC + 'set_order': ('''
def set_order(self, order):
    self.order = order
    for i, fr in enumerate(self.frames):
        fr.add_metadata({"order_label": self.order[i]})
''', ('attrstores', 'calls')),
    OC + 'by_label': ('''
def by_label(self, order_label="A"):
    return Cadence(frame_list=[frame for frame in self if frame.metadata["order_label"] == order_label])
''', ('calls',)),
    CD + 'tchans': ('def tchans(self):\n    if len(self.frames) == 0:\n        return None\n    return sum([frame.tchans for frame in self.frames])\n', ('return',)),
    CD + 'slew_times': ('def slew_times(self):\n    return np.array([self.frames[i].t_start - self.frames[i - 1].t_stop for i in range(1, len(self.frames))])\n', ('return',)),
    CD + 'obs_range': ('def obs_range(self):\n    if len(self.frames) == 0:\n        return None\n    return self.frames[-1].t_stop - self.frames[0].t_start\n', ('return',)),
    CD + '_check': ('''
def _check(self, v):
    if not isinstance(v, _frame.Frame):
        raise TypeError("not a Frame")
    if len(self.frames) > 0:
        for attr in ['df', 'dt', 'fchans', 'fmin']:
            if getattr(v, attr) != getattr(self.frames[0], attr):
                raise AttributeError("mismatch")
''', ('raises',)),
}
# the same list model, realised by letting the list itself decide whether the position exists: store with the index as given
# (raises IndexError outside [-len, len)), then label the position the frame landed on
ALTERNATIVE_REFS = {
    OC + '__setitem__': ['''
def __setitem__(self, i, v):
    self._check(v)
    self.frames[i] = v
    if i < 0:
        i = len(self) + i
    if "order_label" not in v.metadata:
        v.add_metadata({"order_label": self.order[i]})
'''],
    # (iterating the cadence and iterating its list of frames visit the same frames in the same order)
    OC + 'by_label': ['''
def by_label(self, order_label="A"):
    return Cadence(frame_list=[frame for frame in self.frames if frame.metadata["order_label"] == order_label])
'''],
}
FIRST_PROPS = ('fch1', 'ascending', 'fmin', 'fmax', 'fmid', 'df', 'dt', 'fchans')
NO_INLINE = (CD + '_check', 'frame.Frame.add_metadata', CD + '__init__', CD + '__len__', CD + '__iter__', CD + '__getitem__')


def list_insert_position(e, bound):
    """list.insert(P, v) places v at clamp(P) = min(max(P + n if P < 0 else P, 0), n): positions are compared after
    that clamping, so passing the raw or the already clamped position to the list is the same call"""
    if e.data.get('name') == '.insert' and 'i' in bound and e.data.get('recv') is not None:
        ra = e.data['recv'].single_atom()
        if ra is not None and ra.kind == 'attr' and ra.args[1] == 'frames':
            n = T.mk_call('len', [T.mk_attr(ra.args[0], 'frames')])
            P = bound['i']
            # len(self) of a cadence is len(self.frames)
            P = T.subst(P, lambda a: n if (a.kind == 'call' and a.args[0] == 'len' and a.args[1] and a.args[1][0].key == ra.args[0].key) else None)
            bound['i'] = T.mk_call('min', [T.mk_call('max', [T.mk_ite(T.mk_cmp('<', P, Term.num(0)), P + n, P), Term.num(0)]), n])
            return bound
    return None


def guard_function(ctx, cls):
    """the consistency guard, located by content: a method of the class that raises TypeError when its argument
    is not a Frame"""
    for name, m in cls.methods.items():
        src = ast.unparse(m.node)
        if 'isinstance' in src and 'Frame' in src and 'TypeError' in src and len(m.params()) == 2:
            return m
    return None


def run(ctx):
    prog = ctx.prog
    cad = prog.cls('cadence.Cadence')
    oc = prog.cls('cadence.OrderedCadence')
    guard = guard_function(ctx, cad) or cad.methods.get('_check')
    ctx.require(guard is not None, 'Cadence: the consistency guard (TypeError for non-Frame objects) was not found')
    # ---- D1 every addition is dominated by the guard on the same object
    ctx.clause = 'D1'
    n_mut = 0
    for cls in (cad, oc):
        for name, m in cls.methods.items():
            if name in ('__init__',):
                continue
            r, I = ctx.run(m, max_depth=0, expand=False)
            adds = []
            for e in I.events:
                if e.kind == 'store' and e.data.get('target') == 'sub' and ast.unparse(e.data['base_node']) == 'self.frames':
                    adds.append((e, e.data['value']))
                if e.kind == 'call' and e.data.get('method') and e.data['name'] in ('.insert', '.append', '.extend', '.__setitem__') \
                        and 'self.frames' == ast.unparse(e.data['recv_node']):
                    adds.append((e, e.data['args'][-1]))
                if e.kind == 'store' and e.data.get('target') == 'attr' and e.data.get('name') == 'frames' and \
                        e.data['base'].key == sym('self').key:
                    adds.append((e, e.data['value']))
            # (an addition delegated to the same primitive of the base class is an addition site too: the base method's own guard
            #  obligation covers it)
            for e in I.events:
                rs_ = e.data.get('resolved') if e.kind == 'call' else None
                if rs_ is not None and getattr(rs_, 'cls', None) is not None and rs_.cls in (cad, oc) and rs_ is not m and \
                        rs_.name in ('insert', 'append', 'extend', '__setitem__') and rs_.name == name:
                    n_mut += 1
            for e, v in adds:
                n_mut += 1
                gparam = guard.params()[1]
                gs = [g for g in I.events if g.kind == 'call' and g.data.get('name') == guard.short
                      and (g.data.get('bound') or {}).get(gparam) is not None
                      and g.data['bound'][gparam].key == v.key and dominates(g, e)]
                ctx.ob('GUARDDOM', 'an object is placed into the cadence only after the consistency guard accepted that same object',
                       m, bool(gs), {'addition': e.text(), 'added_value': pretty(v)[:100],
                                     'guard_calls': [g.text() for g in I.events if g.kind == 'call' and g.data.get('name') == guard.short]},
                       node=e.node)
    ctx.require(n_mut >= 4, f'GUARDDOM: only {n_mut} additions into self.frames found (vacuity guard)')
    S = summaries(prog)
    writers = {}
    for q, s in S.items():
        for (k, p), hits in s['mutates'].items():
            if p.split('.')[-1] == 'frames' and any(h in ('item store', 'del item', 'attr store', 'item aug-store', 'augmented assignment',
                                                          'attr aug-store') or h.startswith('.') for _, h in hits):
                if not any(h.startswith('via ') for _, h in hits) or any(not h.startswith('via ') for _, h in hits):
                    writers[q[8:]] = hits[0][0]
    allowed = {CD + m for m in ('__init__', '__setitem__', 'insert', '__delitem__')} | {OC + m for m in ('__setitem__', 'insert')}
    extra = sorted(set(writers) - allowed)
    ctx.ob('WHOWRITES', 'the underlying list is modified only by __init__, __setitem__, insert and __delitem__', cad.qual, not extra,
           {'writers': sorted(writers), 'unexpected': extra}, node=(writers[extra[0]] if extra else None), construct='.frames writers')
    # the inherited mixins add elements only through insert / __setitem__
    import os
    import sysconfig
    path = os.path.join(sysconfig.get_paths()['stdlib'], '_collections_abc.py')
    ctx.require(os.path.exists(path), 'cannot locate the interpreter\'s _collections_abc.py')
    tree = ast.parse(open(path).read())
    ms = next((n for n in tree.body if isinstance(n, ast.ClassDef) and n.name == 'MutableSequence'), None)
    ctx.require(ms is not None, 'MutableSequence not found in _collections_abc.py')
    route = {}
    for fn in ms.body:
        if isinstance(fn, ast.FunctionDef):
            route[fn.name] = sorted({n.func.attr for n in ast.walk(fn) if isinstance(n, ast.Call) and isinstance(n.func, ast.Attribute)
                                     and isinstance(n.func.value, ast.Name) and n.func.value.id == 'self'} |
                                    {'__setitem__' for n in ast.walk(fn) if isinstance(n, ast.Subscript) and isinstance(n.ctx, ast.Store)
                                     and isinstance(n.value, ast.Name) and n.value.id == 'self'})
    ok = route.get('append') == ['insert'] and 'append' in route.get('extend', []) and route.get('__iadd__') == ['extend']
    overridden = sorted(set(route) & (set(cad.methods) | set(oc.methods)) - {'insert', '__setitem__', '__delitem__', '__getitem__', '__len__'})
    ctx.ob('GUARDDOM', 'append / extend / += of collections.abc.MutableSequence route through insert (stdlib source parsed), and the '
           'cadence does not override them', cad.qual, ok and not overridden,
           {'append': route.get('append'), 'extend': route.get('extend'), '__iadd__': route.get('__iadd__'), 'overridden': overridden},
           construct='MutableSequence mixins')
    ctx.ob('GUARDDOM', 'Cadence derives from MutableSequence', cad.qual, any('MutableSequence' in b for b in cad.external_bases),
           {'bases': cad.external_bases}, construct='class Cadence(...)')
    init = ctx.func(CD + '__init__')
    r, I = ctx.run(init, max_depth=0, expand=False)
    st = [e for e in I.events if e.kind == 'store' and e.data.get('name') == 'frames']
    ext = [e for e in I.events if e.kind == 'call' and e.data['name'] == '.extend']
    ok = len(st) == 1 and pretty(st[0].data['value']) == '[]' and len(ext) == 1 and st[0].seq < ext[0].seq and \
        ext[0].data['args'][1].key == sym('frame_list').key
    ctx.ob('GUARDDOM', 'construction starts from an empty list and adds the given frames through extend (hence the guard)', init, ok,
           {'frames_init': [e.text() for e in st], 'extend': [e.text() for e in ext]}, node=init.node, construct='Cadence.__init__')

    # ---- D2..D5 method by method against the reference definitions
    for short, (ref, what) in REFS.items():
        ctx.clause = 'D2' if short.endswith('_check') else ('D4' if short.startswith(OC) else 'D3')
        fi = ctx.func(short)
        alts = [ref] + ALTERNATIVE_REFS.get(short, [])
        for k, ref_k in enumerate(alts):
            # (a method may realise the list model in more than one way: the first reference it agrees with decides; the
            #  report is against the primary one)
            n0 = len(ctx.obligations)
            agree_ref(ctx, fi, ref_k, fi.short.split('.', 1)[1], what=what, expand=False, max_depth=0, no_inline=NO_INLINE,
                      norm_call=list_insert_position)
            if not any(o.verdict == 'VIOLATED' for o in ctx.obligations[n0:]):
                break
            if k == 0:
                primary = ctx.obligations[n0:]
            del ctx.obligations[n0:]
        else:
            ctx.obligations.extend(primary)
    # a frame is labelled only once it is in the cadence: in the ordered item assignment the label is attached after the
    # store (which raises for a position that does not exist), so a rejected frame keeps no stray label
    ctx.clause = 'D4'
    si = ctx.func(OC + '__setitem__')
    rs, Is = ctx.run(si, expand=False, max_depth=0, no_inline=NO_INLINE)
    st_ev = [e for e in Is.events if e.kind == 'store' and e.data.get('target') == 'sub' and ast.unparse(e.data['base_node']) == 'self.frames']
    lab_ev = [e for e in Is.events if e.kind == 'call' and e.data.get('name', '').endswith('add_metadata')]
    ctx.ob('ORDER', 'ordered item assignment: the order label is attached only after the frame has been stored (a failing store '
           'leaves no label behind)', si, bool(st_ev) and bool(lab_ev) and all(st_ev[0].seq < l.seq for l in lab_ev),
           {'store': [e.text() for e in st_ev], 'labelling': [e.text() for e in lab_ev]},
           node=(lab_ev[0].node if lab_ev else si.node), construct='add_metadata after self.frames[i] = v')
    # ordered insert: list.insert never fails, the label lookup self.order[i] can (a cadence longer than its order string) -- it
    # comes BEFORE the frame is put into the list, so that a refused insertion leaves the cadence untouched
    ins = ctx.func(OC + 'insert')
    ri, Ii = ctx.run(ins, expand=False, max_depth=0, no_inline=NO_INLINE)
    order_key = T.mk_attr(sym('self'), 'order').key

    def _reads_order(e):
        vals = [e.data.get('value')] if e.kind == 'store' else (list(e.data.get('args', [])) + [v_ for _, v_ in e.data.get('kwargs', [])]
                                                                  if e.kind == 'call' else [])
        return any(v_ is not None and any(a.kind == 'sub' and a.args[0].key == order_key for a in T.all_atoms(v_).values())
                   for v_ in vals)
    look = [e for e in Ii.events if _reads_order(e)]
    put = [e for e in Ii.events if e.kind == 'call' and (
        (e.data.get('method') and e.data['name'] in ('.insert', '.append') and ast.unparse(e.data.get('recv_node')) == 'self.frames')
        or (e.data.get('resolved') is not None and getattr(e.data['resolved'], 'cls', None) is cad
            and e.data['resolved'].name in ('insert', 'append', '__setitem__')))]
    ctx.ob('ORDER', 'ordered insert: the order label is looked up before the frame is put into the list (a position without a label '
           'leaves the cadence untouched)', ins, (all(l.seq < put[0].seq for l in look) if (look and put) else None),
           {'lookups': [e.text()[:70] for e in look], 'insertion': [e.text()[:70] for e in put]},
           node=(put[0].node if put else ins.node), construct='self.order[i] before self.frames.insert')
    # the order string says which label a NOT-YET-LABELLED frame gets; a frame that carries its label needs none, so storing it
    # must not depend on the order string at all (a cadence may be longer than its order string: a list accepts the frame)
    for short in (OC + '__setitem__', OC + 'insert'):
        fo = ctx.func(short)
        ro, Io = ctx.run(fo, expand=False, max_depth=0, no_inline=NO_INLINE)
        order_t = T.mk_attr(sym('self'), 'order')
        unl = ctx.spec(fo, '"order_label" not in v.metadata', I=ctx.interp(expand=False))

        def reads_order(t):
            return any(a.kind == 'sub' and a.args[0].key == order_t.key for a in T.all_atoms(t).values())
        uses = []
        for e in Io.events:
            vals = []
            if e.kind == 'store':
                vals = [e.data.get('value')]
            elif e.kind == 'call':
                vals = list(e.data.get('args', [])) + [v_ for _, v_ in e.data.get('kwargs', [])]
            if any(v_ is not None and reads_order(v_) for v_ in vals):
                uses.append(e)
        bad = [e for e in uses if T.compare(T.mk_and([e.cond(), T.mk_not(unl)]), T.FALSE)[0] != T.EQUAL]
        ctx.ob('GUARDDOM', f'{fo.name}: the order string is consulted only for a frame that still needs a label (an already labelled '
               'frame is stored like in a list, whatever the order string)', fo, not bad,
               {'order_lookups': [(e.text()[:60], pretty(e.cond())[:80]) for e in uses]},
               node=(bad[0].node if bad else fo.node), construct=(bad[0].text()[:70] if bad else f'{fo.name}: self.order[...]'))
    # the guard's attribute list must at least contain the resolution, size and lower band edge
    ctx.clause = 'D2'
    r, I = ctx.run(guard, expand=False, max_depth=0)
    loops = [e for e in I.events if e.kind == 'loop']
    names = set()
    for l in loops:
        ia = l.data['info']['iter'].single_atom()
        if ia is not None and ia.kind in ('list', 'tuple'):
            names |= {x.single_atom().args[0] for x in ia.args if x.single_atom() is not None and x.single_atom().kind == 'str'}
    # (a loop over a short literal list is unrolled by the interpreter: take the attribute names from the raising comparisons)
    for e in I.events:
        if e.kind == 'raise':
            for c in e.pc:
                for a_ in T.all_atoms(c).values():
                    if a_.kind == 'attr' and a_.args[0].key == sym('v').key:
                        names.add(a_.args[1])
    ctx.ob('FORMULA', 'the guard compares at least df, dt, fchans and fmin with the first frame', guard,
           {'df', 'dt', 'fchans', 'fmin'} <= names, {'compared': sorted(names)}, node=guard.node, construct='compared attributes')
    ctx.clause = 'D5'
    for p in FIRST_PROPS:
        fi = ctx.func(CD + p)
        r, I = ctx.run(fi, expand=False, max_depth=0)
        want = ctx.spec(fi, f'ITE(len(self.frames) == 0, None, self.frames[0].{p})', I=ctx.interp(expand=False, max_depth=0))
        ctx.formula('FORMULA', f'cadence.{p} is the first frame\'s (None when empty)', fi, r.ret, want, node=fi.node, construct=f'return {p}')
    oinit = ctx.func(OC + '__init__')
    r, I = ctx.run(oinit, max_depth=0, expand=False)
    so = [e for e in I.events if e.kind == 'store' and e.data.get('name') == 'order']
    ci = [e for e in I.events if e.kind == 'call' and e.data['name'] == CD + '__init__']
    ctx.ob('ORDER', 'the order string is set before the frames are inserted (labels are taken from it)', oinit,
           bool(so) and bool(ci) and so[0].seq < ci[0].seq, {'order': [e.text() for e in so], 'base_init': [e.text()[:60] for e in ci]},
           node=oinit.node, construct='self.order before Cadence.__init__')


META = {
    'technique': 'static analysis: guard dominance on the event trace (GUARDDOM), interprocedural writer set of the underlying list '
                 '(WHOWRITES), stdlib MutableSequence source parsed for mixin routing, reference-transcription comparison of every '
                 'primitive / label / aggregate method',
    'level': 'Decides from the source that every addition into the underlying list is dominated by the consistency guard '
             'applied to the same object, that only the four primitives write the list and the inherited append/extend/+= '
             'route through insert, that the guard rejects non-frames and frames whose df/dt/fchans/fmin differ, that the '
             "primitives delegate to the list with the caller's index, the label-assignment protocol of the ordered cadence, "
             'selection by label and the aggregate properties. Ordered item assignment follows the list model for every index:'
             ' a position outside [-len, len) raises before anything is stored (explicit range test, or store with the index '
             'as given). References follow the Python list model: list.insert positions are compared after clamping, the label'
             ' is that of the clamped position, a label is attached only after the store succeeded, a tuple index selects like'
             ' a list of positions. Also decided: the order string is consulted only for a frame that still needs a label, so '
             'an already labelled frame is stored like in a list whatever the length of the order string.',
    'note': 'Every path through a method is treated as feasible; the stdlib mixin routing is re-derived from the running '
            'interpreter\'s _collections_abc.py on every run.',
}
