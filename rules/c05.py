"""C05 Frame axes and frequency/index conversion (DESIGN §4.C05)."""
import ast
from vstatic.argbind import resolve_callee
from vstatic.baseline import BASELINE_FUNCS
from vstatic import terms as T
from vstatic.terms import sym, Term, lift, pretty

FMIN = 'ITE(self.ascending, self.fch1, self.fch1 - (self.fchans - 1) * self.df)'
FMAX = 'ITE(self.ascending, self.fch1 + (self.fchans - 1) * self.df, self.fch1)'


def selfattr(r, name):
    return r.heap.get((sym('self').key, name))


def run(ctx):
    # ---- D1 frequency grid
    ctx.clause = 'D1'
    fi = ctx.func('frame.Frame._update_fs')
    r, I = ctx.run(fi, expand=False)
    for attr, spec in (('fs', f'SEQ({FMIN}, self.df, self.fchans)'), ('fmin', FMIN), ('fmax', FMAX)):
        v = selfattr(r, attr)
        ctx.require(v is not None, f'_update_fs no longer stores self.{attr}')
        st = [e for e in ctx.stores(I, 'attr', attr)][-1]
        ctx.formula('FORMULA', f'{attr} is the increasing grid from fmin with spacing df', fi, v,
                    ctx.spec(fi, spec), node=st.node, construct=f'self.{attr}')
    # orientation independence: as a function of (fmin, df, fchans) both arms give the same sequence
    fs = selfattr(r, 'fs')
    fmin = selfattr(r, 'fmin')
    conds = T.conditions(fs)
    arms = []
    for c in ([{k: True for k in conds}, {k: False for k in conds}] if conds else [{}]):
        a = T.assume(fs, c)
        m = T.assume(fmin, c)
        from vstatic.sva_expr import as_seq
        s = as_seq(a)
        arms.append(None if s is None else (pretty(s[0] - m), pretty(s[1]), pretty(s[2])))
    ctx.ob('AGREE', 'both orientations give Seq(fmin, df, fchans)', fi,
           all(a is not None and a == arms[0] and a[0] == '0' for a in arms),
           {'arms(start-fmin, step, n)': arms}, node=fi.node, construct='self.fs (both arms)')

    # ---- D2 time grid
    ctx.clause = 'D2'
    fi = ctx.func('frame.Frame._update_ts')
    r, I = ctx.run(fi)
    v = selfattr(r, 'ts')
    ctx.require(v is not None, '_update_ts no longer stores self.ts')
    ctx.formula('FORMULA', 'ts == i*dt for i in 0..tchans-1', fi, v, ctx.spec(fi, 'SEQ(0, self.dt, self.tchans)'),
                node=ctx.stores(I, 'attr', 'ts')[-1].node, construct='self.ts')
    fi = ctx.func('frame.Frame.ts_ext')
    r, I = ctx.run(fi, heap={'ts': 'SEQ(0, self.dt, self.tchans)'})
    ctx.formula('FORMULA', 'ts_ext == i*dt for i in 0..tchans', fi, r.ret,
                ctx.spec(fi, 'SEQ(0, self.dt, self.tchans + 1)'), node=fi.node, construct='return ts_ext')

    r, I = ctx.run(fi, expand=False)
    ctx.formula('FORMULA', 'ts_ext continues the frame\'s CURRENT time axis by one dt (also when the axis is temporarily shifted)', fi,
                r.ret, ctx.spec(fi, 'np.append(self.ts, self.ts[-1] + self.dt)', I=ctx.interp(expand=False)), node=fi.node,
                construct='return ts_ext [relative to ts]')

    # ---- D3 conversions
    ctx.clause = 'D3'
    fi = ctx.func('frame.Frame.get_index')
    r, I = ctx.run(fi)
    ctx.formula('FORMULA', 'get_index == round((f - fmin)/df) as int', fi, r.ret,
                ctx.spec(fi, 'np.round((frequency - self.fmin) / self.df).astype(int)'),
                node=fi.node, construct='return get_index')
    fi2 = ctx.func('frame.Frame.get_frequency')
    r2, _ = ctx.run(fi2)
    ctx.formula('FORMULA', 'get_frequency == fmin + df*i', fi2, r2.ret, ctx.spec(fi2, 'self.fmin + self.df * index'),
                node=fi2.node, construct='return get_frequency')
    r3, _ = ctx.run(fi, args={'frequency': r2.ret})
    ctx.formula('AGREE', 'get_index(get_frequency(i)) == round(i)', fi, r3.ret,
                ctx.spec(fi2, 'np.round(index).astype(int)'), node=fi.node, construct='get_index∘get_frequency')

    # ---- D4 derived quantities
    ctx.clause = 'D4'
    for short, spec in (
            ('frame.Frame.fmid', '(self.fmin + self.fmax) / 2'),
            ('frame.Frame.t_stop', 'self.t_start + self.tchans * self.dt'),
            ('frame.Frame.obs_length', 'self.tchans * self.dt'),
            ('frame.Frame.get_drift_rate', '(stop_index - start_index) * self.df / (self.tchans * self.dt)')):
        fi = ctx.func(short)
        r, _ = ctx.run(fi)
        ctx.formula('FORMULA', f'{fi.name} == {spec}', fi, r.ret, ctx.spec(fi, spec), node=fi.node,
                    construct=f'return {fi.name}')
    init = ctx.func('frame.Frame.__init__')
    derived, base = ctx.exp.build(ctx.prog.cls('frame.Frame'))
    for attr, spec in (('unit_drift_rate', 'self.df / self.dt'), ('chi2_df', '4 * round(self.df * self.dt)')):
        ctx.require(attr in derived, f'Frame.{attr} is no longer a pure function of the frame resolution')
        ctx.formula('FORMULA', f'{attr} == {spec}', init, derived[attr], ctx.spec(init, spec),
                    node=init.node, construct=f'self.{attr}')

    # ---- D5 unit handling
    ctx.clause = 'D5'
    for short, spec in (
            ('unit_utils.get_value',
             'ITE(isinstance(value, u.Quantity), ITE(unit is not None, value.to(unit).value, value.value), value)'),
            ('unit_utils.cast_value', 'ITE(isinstance(value, u.Quantity), value.to(unit), value * unit)')):
        fi = ctx.func(short)
        I = ctx.interp()
        I.quantity_plain = False
        r = I.run(fi)
        ctx._account(I)
        I2 = ctx.interp()
        I2.quantity_plain = False
        ctx.formula('FORMULA', f'{fi.name}: Quantity arm converts, plain arm is the identity', fi, r.ret,
                    ctx.spec(fi, spec, I=I2), node=fi.node, construct=f'return {fi.name}')

    # UNITARG: a parameter documented as "float or astropy.Quantity" reaches arithmetic only after unit_utils.get_value /
    # cast_value (or is merely forwarded to another function); arithmetic on the raw argument raises UnitConversionError for
    # a unit-carrying value or silently mixes units
    import re as _re
    DOC_ERRORS = {('funcs.t_profiles.periodic_gaussian_t_profile', 'pnum'):
                  'documented "float or astropy.Quantity" by copy-paste; it is a count (used with // and %)'}
    # the instances confirmed by reading on the baseline tree are frozen here, so that the sweep does not depend on the
    # docstrings staying as they are; parameters newly documented as Quantity are added to them on every run
    CONFIRMED = {
        'frame.Frame.__init__': ('df', 'dt', 'fch1'), 'frame.Frame.from_data': ('df', 'dt', 'fch1'),
        'frame.Frame.from_backend_params': ('fch1',), 'frame.Frame.add_constant_signal': ('drift_rate', 'f_start', 'width'),
        'funcs.f_profiles.box_f_profile': ('width',), 'funcs.f_profiles.gaussian_f_profile': ('width',),
        'funcs.f_profiles.multiple_gaussian_f_profile': ('width',), 'funcs.f_profiles.lorentzian_f_profile': ('width',),
        'funcs.f_profiles.voigt_f_profile': ('g_width', 'l_width'), 'funcs.f_profiles.sinc2_f_profile': ('width',),
        'funcs.paths.constant_path': ('drift_rate', 'f_start'), 'funcs.paths.squared_path': ('drift_rate', 'f_start'),
        'funcs.paths.sine_path': ('amplitude', 'drift_rate', 'f_start', 'period'),
        'funcs.paths.simple_rfi_path': ('drift_rate', 'f_start', 'spread'),
        'funcs.t_profiles.sine_t_profile': ('period',),
        'funcs.t_profiles.periodic_gaussian_t_profile': ('period', 'phase', 'pulse_offset_width', 'pulse_width'),
        'voltage.antenna.Antenna.__init__': ('fch1',), 'voltage.antenna.MultiAntennaArray.__init__': ('fch1',),
        'voltage.data_stream.DataStream.__init__': ('fch1',), 'voltage.data_stream.BackgroundDataStream.__init__': ('fch1',),
    }
    n_q = 0
    for f2 in ctx.prog.functions.values():
        if isinstance(f2.node, ast.Lambda):
            continue
        doc = ast.get_docstring(f2.node) or ''
        qs = {m.group(1) for m in _re.finditer(r'^\s*(\w+)\s*:\s*([^\n]*)$', doc, _re.M) if 'Quantity' in m.group(2)}
        qs |= set(CONFIRMED.get(f2.short, ()))
        for pn in sorted(qs & set(f2.all_params())):
            if (f2.short, pn) in DOC_ERRORS:
                continue
            n_q += 1
            conv, arith = [], []
            for n in ast.walk(f2.node):
                if isinstance(n, ast.Call) and ast.unparse(n.func).split('.')[-1] in ('get_value', 'cast_value'):
                    first_arg = n.args[0] if n.args else next((k.value for k in n.keywords if k.arg == 'value'), None)
                    if isinstance(first_arg, ast.Name) and first_arg.id == pn:
                        conv.append(n)
                if isinstance(n, (ast.BinOp, ast.Compare, ast.UnaryOp)):
                    if any(isinstance(c, ast.Name) and c.id == pn for c in ast.iter_child_nodes(n)):
                        arith.append(n)
            # conversion delegated to a helper that a refactoring extracted: `p = helper(p, ...)` where the helper passes the
            # matching formal through unit_utils
            for n in ast.walk(f2.node):
                if isinstance(n, ast.Assign) and isinstance(n.value, ast.Call) and \
                        any(isinstance(t_, ast.Name) and t_.id == pn for tg in n.targets for t_ in ast.walk(tg)):
                    rc = resolve_callee(ctx.prog, f2, n.value)
                    if rc is None or rc[0].short in BASELINE_FUNCS:
                        continue
                    formals = rc[0].params()[1:] if rc[1] else rc[0].params()
                    for i_, a_ in enumerate(n.value.args):
                        if isinstance(a_, ast.Name) and a_.id == pn and i_ < len(formals):
                            fm = formals[i_]
                            if any(isinstance(m, ast.Call) and ast.unparse(m.func).split('.')[-1] in ('get_value', 'cast_value')
                                   and m.args and isinstance(m.args[0], ast.Name) and m.args[0].id == fm for m in ast.walk(rc[0].node)):
                                conv.append(n)
            first = min((c.lineno for c in conv), default=None)
            bad = [a for a in arith if first is None or a.lineno < first]
            if bad:
                ctx.ob('UNITARG', f'`{pn}` (documented as float or astropy.Quantity) is converted with unit_utils before it is used in '
                       'arithmetic', f2, False, {'arithmetic_on_raw_argument': ast.unparse(bad[0])[:100]}, node=bad[0])
    ctx.require(n_q >= 20, f'UNITARG: only {n_q} Quantity-documented parameters found (vacuity guard)')
    ctx.ob('UNITARG', 'package sweep: Quantity-documented parameters are unit-converted before arithmetic', 'setigen/**', True,
           {'parameters_checked': n_q, 'documented_exceptions': {f'{k[0]}.{k[1]}': v for k, v in DOC_ERRORS.items()}},
           construct='package sweep: unit-carrying parameters')

    # ---- D6 backend parameters
    ctx.clause = 'D6'
    fi = ctx.func('frame.params_from_backend')
    r, I = ctx.run(fi)
    for key, spec in (('df', 'sample_rate / num_branches / fftlength'),
                      ('dt', 'int_factor / (sample_rate / num_branches / fftlength)'),
                      ('tchans', 'int(obs_length / (int_factor / (sample_rate / num_branches / fftlength)))')):
        v = I.subscript(r.ret, lift(key))
        ctx.formula('FORMULA', f"params_from_backend['{key}']", fi, v, ctx.spec(fi, spec), node=fi.node,
                    construct=f"param_dict['{key}']")
    fi2 = ctx.func('frame.Frame.from_backend_params')
    r2, I2 = ctx.run(fi2, no_inline=('frame.Frame.__init__',))
    st = [e for e in I2.events if e.kind == 'call' and e.data.get('name') == 'frame.Frame.__init__' and 'df' in (e.data.get('bound') or {})]
    ctx.require(st, 'from_backend_params no longer constructs the frame with a df')
    ctx.formula('AGREE', 'from_backend_params: frame df == params_from_backend.df', fi2, st[-1].data['bound']['df'],
                ctx.spec(fi2, 'sample_rate / num_branches / fftlength'), node=st[-1].node, construct='cls(df=...)')

    from .common import agree_ref
    REF_FBP = """
def from_backend_params(cls, fchans=None, obs_length=300, sample_rate=3e9, num_branches=1024, fftlength=1048576, int_factor=51,
                        fch1=6*u.GHz, ascending=False, data=None, seed=None):
    chan_bw = sample_rate / num_branches
    df = chan_bw / fftlength
    if data is not None:
        tchans, fchans = data.shape
    elif fchans is None:
        raise ValueError("Value not given for fchans")
    param_dict = params_from_backend(obs_length=obs_length, sample_rate=sample_rate, num_branches=num_branches,
                                     fftlength=fftlength, int_factor=int_factor)
    if data is not None:
        assert param_dict['tchans'] == tchans
    frame = cls(fchans=fchans, **param_dict, fch1=fch1, ascending=ascending, data=data, seed=seed)
    return frame
"""
    for dcase, dargs in (('no data', {'data': T.NONE}), ('with data', {})):
        if dcase == 'with data':
            T.NOTNONE.add('data')
        agree_ref(ctx, fi2, REF_FBP, f'from_backend_params[{dcase}]: every argument (incl. the orientation flag) reaches the constructor',
                  what=('calls', 'raises'), args=dargs, no_inline=('frame.Frame.__init__',))
    T.NOTNONE.discard('data')

    # ---- D7 constructor routes agree on (tchans, fchans)
    ctx.clause = 'D7'
    init = ctx.func('frame.Frame.__init__')
    from vstatic.terms import Atom, NONE
    routes = {
        'shape kwarg': {'fchans': NONE, 'tchans': NONE, 'data': NONE, 'waterfall': NONE,
                        'kwargs': Term.of(Atom('dict', (lift('shape'), T.mk_tuple([sym('TC'), sym('FC')]))))},
        'explicit sizes': {'fchans': sym('FC'), 'tchans': sym('TC'), 'data': NONE, 'waterfall': NONE,
                           'kwargs': Term.of(Atom('dict'))},
        'data': {'fchans': NONE, 'tchans': NONE, 'data': sym('DATA'), 'waterfall': NONE,
                 'kwargs': Term.of(Atom('dict'))},
    }
    T.INTEGER.update({'TC', 'FC'})
    T.NOTNONE.update({'TC', 'FC', 'DATA'})
    for rname, args in routes.items():
        r, I = ctx.run(init, args=args, no_inline=('frame.Frame._update_noise_frame_stats', 'frame.Frame.get_params'),
                       expand=False)
        tch, fch, shp = selfattr(r, 'tchans'), selfattr(r, 'fchans'), selfattr(r, 'shape')
        ctx.require(tch is not None and fch is not None and shp is not None,
                    f'Frame.__init__ route "{rname}" no longer stores tchans/fchans/shape')
        if rname == 'data':
            want_t, want_f = I.subscript(T.mk_call('shape', [sym('DATA')]), lift(0)), \
                I.subscript(T.mk_call('shape', [sym('DATA')]), lift(1))
        else:
            want_t, want_f = sym('TC'), sym('FC')
        ctx.formula('FORMULA', f'route {rname}: tchans is the first (time) dimension', init, tch, want_t,
                    node=init.node, construct=f'self.tchans [{rname}]')
        ctx.formula('FORMULA', f'route {rname}: fchans is the second (frequency) dimension', init, fch, want_f,
                    node=init.node, construct=f'self.fchans [{rname}]')
        s0, s1 = I.subscript(shp, lift(0)), I.subscript(shp, lift(1))
        ctx.formula('FORMULA', f'route {rname}: shape == (tchans, fchans)', init, T.mk_tuple([s0, s1]),
                    T.mk_tuple([want_t, want_f]), node=init.node, construct=f'self.shape [{rname}]')


META = {
    'technique': 'static analysis: symbolic value analysis (FORMULA/AGREE over exact rational normal forms, affine-sequence domain)',
    'level': 'Decides from the source, for every input, that the frequency/time grids, index<->frequency conversion, derived '
             'quantities, unit helpers, backend-parameter formulas and constructor routes compute the real-valued functions '
             'stated in the property (30 formula obligations, both orientations by case analysis). Floating-point rounding '
             '(strict monotonicity, half-channel ties) is not decided. Also decided (UNITARG sweep): every parameter '
             'documented as float-or-Quantity is unit-converted before it is used in arithmetic.',
    'note': 'Real arithmetic instead of IEEE floats; numpy linspace/arange/round/append modelled by their documented semantics; '
            'astropy Quantity treated as a number in base units.',
}
