"""C14 Injection onto existing RAW: exact decode, same framing, stationary gain (DESIGN §4.C14)."""
import ast
from vstatic import terms as T
from vstatic.terms import sym, Term, Atom, lift, pretty, TRUE, FALSE, NONE
from vstatic.effects import summaries
from .common import B, agree_ref, selfattr, RECORD_NO_INLINE, who_writes, INT_ATTRS, REAL_ATTRS
from .refs_backend import REF_COLLECT, REF_READ_NEXT_BLOCK
from .c04 import check_site, len_atom

RU = 'voltage.raw_utils.'
PFB = 'voltage.polyphase_filterbank.PolyphaseFilterbank.'
# persistent state that collect_data_block is allowed to update in place (cache, owner)
WHITELIST = {
    'cache': 'PolyphaseFilterbank.channelize', 'stats_cache': 'RealQuantizer.quantize',
    'stats_calc_indices': 'RealQuantizer.quantize', 'stats_cache_r': 'ComplexQuantizer.quantize',
    'stats_cache_i': 'ComplexQuantizer.quantize', 'target_mean': 'save/restore pair and _set_target_stats',
    'target_std': '_set_target_stats', 'target_fwhm': '_set_target_stats', 'num_subblocks': 'collect_data_block',
    'sample_stage_t': 'timer', 'digitizer_stage_t': 'timer', 'filterbank_stage_t': 'timer', 'requantizer_stage_t': 'timer',
    'channelized_stds': 'estimate_channelized_stds (assignment of a fresh estimate only)', 'input_file_handler': 'record',
    'v': 'DataStream', 'ts': 'DataStream', 't_start': 'streams', 'start_obs': 'streams', 'bg_cache': 'MultiAntennaArray',
}

REF_ESTIMATE = '''
def estimate_channelized_stds(self, factor=10000, seed=None):
    rng = xp.random.default_rng(seed)
    sample_v = rng.standard_normal(size=factor * self.num_branches)
    v_pfb = self.channelize(sample_v, cache=False)
    self.channelized_stds = xp.array([v_pfb.real.std(), v_pfb.imag.std()])
    return self.channelized_stds
'''


def run(ctx):
    prog = ctx.prog
    cdb = ctx.func(B + '.collect_data_block')
    rnb = ctx.func(B + '._read_next_block')
    # ---- D1 decode
    ctx.clause = 'D1'
    # (precondition of the property: the input is a valid recording, so a block holds a whole number of samples per channel --
    #  (BLOCSIZE / OBSNCHAN) / bytes_per_sample is an integer; how the code rounds that quotient is then immaterial)
    whole = ctx.spec(rnb, 'np.floor(self.block_size / (self.num_antennas * self.num_chans)) / self.bytes_per_sample',
                     I=ctx.interp(expand=False))
    T.EXACT_RATIOS.append(whole)
    try:
        for nb in (8, 4):
            agree_ref(ctx, rnb, REF_READ_NEXT_BLOCK, f'_read_next_block[{nb} bit]: header skipped, block decoded to complex samples '
                      '(4 bit: high nibble real, low nibble imaginary, both sign-extended), target statistics from the block',
                      what=('return', 'substores', 'calls', 'loopstores', 'raises'), heap={'num_bits': lift(nb)}, expand=False, max_depth=0)
    finally:
        T.EXACT_RATIOS.remove(whole)
    agree_ref(ctx, rnb, REF_READ_NEXT_BLOCK, '_read_next_block[other bit depth] is rejected', what=('raises',),
              heap={'num_bits': lift(2)}, expand=False, max_depth=0)
    fd = ctx.func(B + '.from_data')
    NI_FD = (B + '.__init__', RU + 'get_raw_params', RU + 'get_blocks_per_file', RU + 'get_total_blocks', RU + 'read_header',
             'voltage.quantization.RealQuantizer.__init__', 'voltage.quantization.ComplexQuantizer.__init__', PFB + '__init__')
    r, I = ctx.run(fd, no_inline=NI_FD)
    hs = [e for e in I.events if e.kind == 'store' and e.data.get('name') == 'header_size']
    ctx.require(hs, 'from_data no longer stores header_size')
    hv = I.heap.get((hs[-1].data['base'].key, 'header_size'))
    las = len_atom(hv)
    ctx.require(len(las) == 1, 'from_data: cannot identify the card count in header_size')
    ctx.prop_saved = ctx.prop
    check_site(ctx, fd, 'from_data.header_size (bytes skipped before each input block)', hv, las[0], 1, hs[-1].node)

    # ---- D2 construction from the input recording
    ctx.clause = 'D2'
    init = [e for e in I.events if e.kind == 'call' and e.data.get('name') == B + '.__init__']
    ctx.require(init, 'from_data no longer constructs the backend')
    b = init[0].data['bound']
    rp = [e for e in I.events if e.kind == 'call' and e.data.get('name') == RU + 'get_raw_params']
    ctx.require(rp, 'from_data no longer reads the input parameters')
    RP = rp[0].data['ret']
    for p, key in (('num_chans', 'num_chans'), ('block_size', 'block_size')):
        ctx.formula('AGREE', f'the new backend takes {p} from the input header', fd, b.get(p, NONE), T.mk_sub(RP, lift(key)),
                    node=init[0].node, construct=f'cls({p}=...)')
    ctx.formula('AGREE', 'the new backend takes blocks_per_file from the first input file', fd, b.get('blocks_per_file', NONE),
                T.mk_call(RU + 'get_blocks_per_file', [sym('input_file_stem')]), node=init[0].node, construct='cls(blocks_per_file=...)')
    for p in ('start_chan', 'num_subblocks', 'antenna_source'):
        ctx.formula('AGREE', f'the new backend receives the caller\'s {p}', fd, b.get(p, NONE), sym(p), node=init[0].node,
                    construct=f'cls({p}=...)')
    # "the output has the input's ... polarisation/antenna counts": these two counts come from the antenna source, so a
    # source that disagrees with the recording must be rejected (the bytes would otherwise be silently reinterpreted)
    rets = [e for e in I.events if e.kind == 'return' and e.owner == fd.short]
    ctx.require(rets, 'from_data no longer returns the backend')

    def conj(c):
        a = c.single_atom()
        return [x for y in a.args for x in conj(y)] if (a is not None and a.kind == 'and') else [c]
    conds = [x for c in rets[-1].pc for x in conj(c)]
    for cnt in ('num_pols', 'num_antennas'):
        want_in = T.mk_sub(RP, lift(cnt))

        def is_eq(c):
            a = c.single_atom()
            if a is None or a.kind != 'cmp' or a.args[0] != '==':
                return False
            # canonical form: (X - RP[cnt]) == 0
            d = a.args[1] - a.args[2]
            ats = T.all_atoms(d)
            has_in = any(x.key == want_in.single_atom().key for x in ats.values())
            has_src = any(x.kind == 'attr' and x.args[1] == cnt for x in ats.values())
            return has_in and has_src
        ctx.ob('GUARDDOM', f'from_data returns a backend only if the antenna source\'s {cnt} equals the input recording\'s', fd,
               any(is_eq(c) for c in conds), {'path_condition_of_return': [pretty(c)[:140] for c in conds]}, node=rets[-1].node,
               construct=f'from_data: {cnt} of the source vs the input')
    # the requantiser handed to the new backend, and both of its component quantisers, carry the input's bit depth -- whether
    # it is passed to the constructors or assigned afterwards: read off the object state when the backend is constructed
    NI_Q = tuple(x for x in NI_FD if 'quantization' not in x)
    rq_, Iq = ctx.run(fd, no_inline=NI_Q)
    initq = [e for e in Iq.events if e.kind == 'call' and e.data.get('name') == B + '.__init__']
    ctx.require(initq, 'from_data no longer constructs the backend')
    rqobj = initq[0].data['bound'].get('requantizer')
    rpq = [e for e in Iq.events if e.kind == 'call' and e.data.get('name') == RU + 'get_raw_params']
    want_nb = T.mk_sub(rpq[0].data['ret'], lift('num_bits')) if rpq else NONE
    got = {}
    if rqobj is not None:
        got['requantizer'] = Iq.heap.get((rqobj.key, 'num_bits'))
        for part in ('quantizer_r', 'quantizer_i'):
            po = Iq.heap.get((rqobj.key, part))
            got[part] = Iq.heap.get((po.key, 'num_bits')) if po is not None else None
    ok_nb = len(got) == 3 and all(v is not None and T.compare(v, want_nb)[0] == T.EQUAL for v in got.values())
    ctx.ob('AGREE', 'the complex requantiser and both of its component quantisers get the input bit depth', fd, ok_nb,
           {'num_bits': {k: (pretty(v)[:80] if v is not None else None) for k, v in got.items()}}, node=initq[0].node,
           construct='num_bits of requantizer / _r / _i')
    for attr, want in (('input_file_stem', sym('input_file_stem')),
                       ('input_num_blocks', T.mk_call(RU + 'get_total_blocks', [sym('input_file_stem')]))):
        st = [e for e in I.events if e.kind == 'store' and e.data.get('name') == attr and e.owner == fd.short]
        ctx.require(st, f'from_data no longer stores backend.{attr}')
        ctx.formula('AGREE', f'backend.{attr} describes the input recording', fd, st[-1].data['value'], want, node=st[-1].node)

    # the per-stream target statistics live in requantizer[a][p].quantizer_r/_i (set by _read_next_block): every
    # (antenna, polarisation) entry must own its component quantisers, i.e. be a DEEP copy of the template
    from .refs_backend import REF_BACKEND_INIT
    agree_ref(ctx, ctx.func(B + '.__init__'), REF_BACKEND_INIT, 'RawVoltageBackend.__init__: every (antenna, polarisation) gets its own '
              'deep copy of the digitiser / filterbank / requantiser template (per-stream target statistics are never shared)',
              what=('attrstores',), expand=False, max_depth=0)

    # ---- D3 length clamp
    ctx.clause = 'D3'
    rec = ctx.func(B + '.record')
    T.NOTNONE.update({'obs_length', 'num_blocks'})
    T.INTEGER.update({'num_blocks'})
    for mode in ('obs_length', 'num_blocks'):
        r, I = ctx.run(rec, args={'length_mode': lift(mode)}, no_inline=RECORD_NO_INLINE, expand=False)
        nbs = [e for e in I.events if e.kind == 'store' and e.data.get('target') == 'attr' and e.data.get('name') == 'num_blocks']
        use = [e for e in I.events if e.kind == 'store' and e.data.get('name') == 'obs_length']
        ctx.require(nbs and use, 'record(): num_blocks / obs_length stores not found')
        final = nbs[-1]
        req = 'self.get_num_blocks(obs_length)' if mode == 'obs_length' else 'num_blocks'
        want = ctx.spec(rec, f'ITE(self.input_num_blocks is not None, min({req}, self.input_num_blocks), {req})',
                        I=ctx.interp(expand=False, no_inline=RECORD_NO_INLINE + (B + '.get_num_blocks',)))
        J = ctx.interp(expand=False)
        heapv = I.heap.get((sym('self').key, 'num_blocks'))
        r2, I2 = ctx.run(rec, args={'length_mode': lift(mode)}, no_inline=RECORD_NO_INLINE + (B + '.get_num_blocks',), expand=False)
        ctx.formula('FORMULA', f'[{mode}] blocks recorded == min(requested, blocks in the input) when there is an input', rec,
                    I2.heap.get((sym('self').key, 'num_blocks'), NONE), want, node=final.node, construct=f'self.num_blocks [{mode}]')
        ctx.ob('ORDER', f'[{mode}] the clamp happens before the length is used', rec, final.seq < use[0].seq,
               {'clamp': final.text(), 'first_use': use[0].text()}, node=final.node, construct='clamp before obs_length')
    opened = [e for e in ctx.run(rec, no_inline=RECORD_NO_INLINE, expand=False)[1].events if e.kind == 'call' and e.data.get('name') == 'open']
    inp = [e for e in opened if 'input_file_stem' in pretty(e.data['args'][0])]
    ok = len(inp) == 1 and len(inp[0].loops) == 1 and pretty(inp[0].loops[0]['index']) in pretty(inp[0].data['args'][0])
    ctx.ob('AGREE', 'input file i is opened alongside output file i', rec, ok, {'opens': [e.text() for e in opened]},
           node=(inp[0].node if inp else rec.node), construct='open(input_fn)')

    # ---- D4 no in-place update of persistent state through aliases
    ctx.clause = 'D4'
    S = summaries(prog)
    s = S[cdb.qual]
    n = 0
    for (kind, path), hits in s['mutates'].items():
        leaf = path.split('.')[-1]
        for node, how in hits:
            n += 1
            if how.startswith('via '):
                continue
            if how == 'augmented assignment' and (leaf in INT_ATTRS or leaf in REAL_ATTRS):
                continue
            direct_attr = how in ('attr store', 'attr aug-store')
            allowed = leaf in WHITELIST and (direct_attr or leaf not in ('channelized_stds',))
            if how in ('augmented assignment', 'item store', 'item aug-store') or how.startswith('.'):
                # in-place operation on a local alias of persistent state
                allowed = leaf in ('cache', 'stats_cache', 'bg_cache', 'v')
            ctx.ob('ALIASINPLACE', f'collect_data_block updates persistent `{path}` only through its owner ({WHITELIST.get(leaf, "no owner listed")})',
                   cdb, allowed, {'how': how, 'statement': ast.unparse(node)[:100]}, node=node)
    ctx.require(n >= 5, 'ALIASINPLACE: effect summary of collect_data_block is implausibly small (vacuity guard)')
    w = who_writes(ctx, 'channelized_stds', None)
    allowed_w = {PFB + '__init__', PFB + 'estimate_channelized_stds'}
    extra = sorted(set(w) - allowed_w)
    ctx.ob('WHOWRITES', 'channelized_stds is assigned only by the constructor and estimate_channelized_stds', PFB[:-1], not extra,
           {'writers': sorted(w), 'unexpected': extra}, node=(w[extra[0]] if extra else None), construct='.channelized_stds writers')
    agree_ref(ctx, ctx.func(PFB + 'estimate_channelized_stds'), REF_ESTIMATE, 'channelised unit-noise deviations: std of re/im of '
              'the PFB output of unit Gaussian noise, cache untouched', what=('return', 'attrstores', 'calls'), expand=False, max_depth=0)
    # ... and "cache untouched" holds only if the channelisation it requests with cache=False writes no persistent state of the
    # filterbank: the estimate runs lazily BETWEEN two sub-blocks of a recording, whose continuity lives in self.cache
    chz = ctx.func(PFB + 'channelize')
    rz, Iz = ctx.run(chz, args={'cache': FALSE}, expand=False)
    wz = [e for e in Iz.events if e.kind in ('store', 'delete') and e.data.get('target') == 'attr'
          and e.data['base'].key == sym('self').key and not (e.pc and any(c.key == FALSE.key for c in e.pc))]
    ctx.ob('EFFECTS', 'channelize(x, cache=False) -- the call the deviation estimate makes -- stores no attribute of the filterbank', chz,
           not wz, {'stores': [e.text() for e in wz]}, node=(wz[0].node if wz else chz.node), construct='channelize(cache=False) effects')
    # RESTORE of the temporary target_mean = 0
    r, I = ctx.run(cdb, heap={'num_bits': lift(8), 'input_file_stem': lift('stem')}, args={'digitize': TRUE, 'requantize': TRUE},
                   no_inline=(B + '._read_next_block',), expand=False, max_depth=0)
    tm = [e for e in I.events if e.kind == 'store' and e.data.get('target') == 'attr' and e.data.get('name') == 'target_mean'
          and e.owner == cdb.short]
    q = [e for e in I.events if e.kind == 'call' and e.data.get('name') == '.quantize' and any(k == 'custom_stds' for k, _ in e.data['kwargs'])]
    ctx.require(q, 'collect_data_block: the synthetic requantisation with custom deviations was not found')
    for comp in ('quantizer_r', 'quantizer_i'):
        es = [e for e in tm if comp in pretty(e.data['base'])]
        zero = [e for e in es if e.data['value'].const() == 0 and e.seq < q[0].seq]
        back = [e for e in es if e.seq > q[0].seq]
        ok = len(zero) == 1 and len(back) == 1 and [c.key for c in back[0].pc] == [c.key for c in zero[0].pc]
        if ok:
            # the value written back is the attribute's value from before the zeroing (terms denote values, not
            # locations: a read after the zeroing would be the constant 0), whatever local / list carried it
            entry = T.mk_attr(zero[0].data['base'], 'target_mean')
            bv = back[0].data['value']
            ba = bv.single_atom()
            ok = back[0].data['base'].key == zero[0].data['base'].key and (bv.key == entry.key or (
                ba is not None and ba.kind == 'loopvar' and ba.args[0] == zero[0].data['base'].key + '.target_mean'))
        import os
        if os.environ.get('VSTATIC_DEBUG'):
            for e in es: print('   DBG', e.text(), '| base', pretty(e.data['base'])[:100], '| val', pretty(e.data['value'])[:120], '| old', pretty(e.data['old'])[:100] if e.data.get('old') is not None else None, '| pc', [pretty(c)[:50] for c in e.pc])
        ctx.ob('RESTORE', f'{comp}.target_mean is set to 0 only around the synthetic requantisation and re-assigned from the saved value '
               'on the same path', cdb, ok, {'stores': [e.text() for e in es]}, node=(es[0].node if es else cdb.node),
               construct=f'{comp}.target_mean save/restore')

    # ---- D5 stationary synthetic gain
    ctx.clause = 'D5'
    for dig in (TRUE, FALSE):
        r, I = ctx.run(cdb, heap={'num_bits': lift(8), 'input_file_stem': lift('stem')}, args={'digitize': dig, 'requantize': TRUE},
                       no_inline=(B + '._read_next_block',), expand=False, max_depth=0)
        q = [e for e in I.events if e.kind == 'call' and e.data.get('name') == '.quantize' and any(k == 'custom_stds' for k, _ in e.data['kwargs'])]
        ctx.require(q, 'collect_data_block: synthetic requantisation not found')
        cs = dict(q[0].data['kwargs'])['custom_stds']
        recv = q[0].data['recv']
        idxs = recv.single_atom().args[1] if recv.single_atom() is not None and recv.single_atom().kind == 'sub' else None
        fbk = ctx.spec(cdb, 'self.filterbank[A][P].channelized_stds' + (' * self.digitizer[A][P].target_std' if dig.key == TRUE.key else ''),
                       env={'A': q[0].loops[1]['index'], 'P': q[0].loops[2]['index']}, I=ctx.interp(expand=False))
        # the value read is the attribute as it is on entry to the sub-block (persistent state, possibly loop-carried)
        def strip(t):
            def fn(a):
                if a.kind == 'loopvar' and str(a.args[0]).endswith('.channelized_stds'):
                    return None
                return None
            return t
        ok_v, why = T.compare(cs, fbk)
        if ok_v != T.EQUAL:
            # accept the loop-carried spelling of the same attribute
            pv = pretty(cs)
            ok = ('channelized_stds' in pv) and (('target_std' in pv) == (dig.key == TRUE.key)) and 'loopvar' in pv and \
                pv.count('channelized_stds') == 1
        else:
            ok = True
        ctx.ob('FORMULA', f'[digitize={dig.key == TRUE.key}] synthetic gain == channelized_stds' +
               (' * digitiser target deviation' if dig.key == TRUE.key else '') + ', computed afresh for every sub-block', cdb, ok,
               {'custom_stds': pretty(cs)[:300], 'expected': pretty(fbk)[:300]}, node=q[0].node, construct='quantize(custom_stds=...)')
    # the synthetic block is added to the decoded input block at the matching sample index and requantised once more
    ctx.clause = 'D5b'
    for nb in (8, 4):
        for dig in (TRUE, FALSE):
            agree_ref(ctx, cdb, REF_COLLECT, f'collect_data_block[{nb} bit, input RAW, digitize={dig.key == TRUE.key}]: output = '
                      'requantise(input samples + synthetic samples requantised with the custom deviations)',
                      what=('substores', 'calls', 'loopstores', 'raises'), heap={'num_bits': lift(nb), 'input_file_stem': lift('stem')},
                      args={'digitize': dig, 'requantize': TRUE}, no_inline=(B + '._read_next_block',), expand=False, max_depth=0)
    # ---- D6 target statistics binding
    ctx.clause = 'D6'
    r, I = ctx.run(rnb, heap={'num_bits': lift(8)}, expand=False, max_depth=0)
    ts = [e for e in I.events if e.kind == 'call' and e.data.get('name') == '._set_target_stats']
    ctx.require(len(ts) == 2, '_read_next_block: the two _set_target_stats calls were not found')
    # real / imaginary part of what the decoder stores as the complex input voltage (re + 1j*im)
    dec = [e for e in I.events if e.kind == 'store' and e.data.get('target') == 'sub' and e.loops
           and any(a.kind == 'J' or (a.kind == 'call' and a.args[0] == 'J') for a in T.all_atoms(e.data['value']).values())]
    ctx.require(dec, '_read_next_block[8 bit]: the store of the decoded complex voltages was not found')
    re_t, im_t = Term(), Term()
    for m, c in dec[0].data['value'].p.items():
        js = [(a, x) for a, x in m if a.kind == 'J' or (a.kind == 'call' and a.args[0] == 'J')]
        rest = tuple((a, x) for a, x in m if not (a.kind == 'J' or (a.kind == 'call' and a.args[0] == 'J')))
        if js:
            im_t = im_t + Term({rest: c})
        else:
            re_t = re_t + Term({m: c})
    names = {'R': re_t, 'I': im_t}
    for e in ts:
        ra = e.data['recv'].single_atom() if e.data.get('recv') is not None else None
        comp = ra.args[1] if (ra is not None and ra.kind == 'attr') else ast.unparse(e.data['recv_node']).split('.')[-1]
        src = names.get('R' if comp == 'quantizer_r' else 'I')
        want = T.mk_tuple([T.mk_call('mean', [src]), T.mk_call('std', [src])]) if src is not None else NONE
        ctx.formula('ARGBIND', f'{comp} receives the mean and deviation of the decoded ' + ('real' if comp == 'quantizer_r' else 'imaginary') + ' parts',
                    rnb, (T.mk_tuple([e.data['bound'].get('target_mean', NONE), e.data['bound'].get('target_std', NONE)])
                          if e.data.get('bound') else T.mk_tuple(e.data['args'][1:])), want, node=e.node)


META = {
    'technique': 'static analysis: reference-definition comparison of the block decoder (8/4 bit), residue-class header size, '
                 'interprocedural alias/effect summaries (ALIASINPLACE, WHOWRITES), save/restore pairing on the event trace (RESTORE), '
                 'symbolic gain term (FORMULA), argument dataflow (ARGBIND/AGREE)',
    'level': 'Decides from the source that input blocks are decoded with the layout the writer uses (4 bit sign extension '
             'included), that the header bytes skipped match 80*L + padding iff int(DIRECTIO) != 0, that every (antenna, '
             'polarisation) owns deep copies of the component templates, that the new backend takes block size, channel count,'
             ' blocks per file and bit depth (all three quantiser objects) from the input, that the recorded length is clamped'
             ' to the input before use, that no persistent array is modified in place through a local alias (the synthetic '
             'gain is channelized_stds [* digitiser deviation] recomputed per sub-block), that the temporary zero target mean '
             'is restored, and that real/imag statistics reach the matching quantiser. The requantised values are not decided. The decode comparison takes as a stated precondition that a block of a valid recording holds a whole number of samples per channel.'
             " Also decided: from_data returns a backend only if the antenna source's polarisation and antenna counts equal "
             "the input recording's.",
    'note': 'Alias analysis is name/attribute-path based; duck-typed quantize/channelize calls are opaque; only the quantiser caches '
            'listed in the whitelist may be updated by their owners.',
}
