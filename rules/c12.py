"""C12 Determinism from seeds, history independence, copy isolation (DESIGN §4.C12)."""
import ast
from vstatic import terms as T
from vstatic.terms import sym, Term, Atom, lift, pretty
from vstatic.effects import summaries
from vstatic.argbind import resolve_callee
from .common import B, agree_ref, selfattr, RECORD_NO_INLINE, dominates, component_resets, resets_all_pairs, unordered_sweep, prog_functions, inline_locals, family_nodes, new_helpers_of, inline_helper_call

REF_COPY = '''
def copy(self):
    c_frame = copy.deepcopy(self)
    waterfall = self.get_waterfall()
    if waterfall is not None:
        c_frame.waterfall = copy.deepcopy(waterfall)
    return c_frame
'''
REF_GETSTATE = '''
def __getstate__(self):
    state = self.__dict__.copy()
    state['waterfall'] = None
    return state
'''


def mutable_default(node):
    if isinstance(node, (ast.Dict, ast.List, ast.Set)):
        return True
    if isinstance(node, ast.Call) and isinstance(node.func, ast.Name) and node.func.id in ('dict', 'list', 'set'):
        return True
    return False


def attr_mutations(prog, attr):
    """functions that mutate (in place) an object held in `.attr` of anything"""
    hits = []
    for fi in prog.functions.values():
        if isinstance(fi.node, ast.Lambda):
            continue
        for n in ast.walk(fi.node):
            if isinstance(n, ast.Subscript) and isinstance(n.ctx, (ast.Store, ast.Del)) and \
                    isinstance(n.value, ast.Attribute) and n.value.attr == attr:
                hits.append((fi, n))
            if isinstance(n, ast.Call) and isinstance(n.func, ast.Attribute) and isinstance(n.func.value, ast.Attribute) \
                    and n.func.value.attr == attr and n.func.attr in ('append', 'extend', 'insert', 'pop', 'remove',
                                                                      'clear', 'sort', 'update', 'reverse'):
                hits.append((fi, n))
    return hits


def _waterfall_value(t):
    """the term denotes a blimpy Waterfall: the `waterfall` parameter or a `.waterfall` attribute (possibly conditional)"""
    a = t.single_atom()
    if a is None:
        return False
    if a.kind == 'sym':
        return a.args[0] == 'waterfall'
    if a.kind == 'attr':
        return a.args[1] == 'waterfall'
    if a.kind == 'ite':
        return _waterfall_value(a.args[1]) or _waterfall_value(a.args[2])
    if a.kind in ('after', 'loopvar'):
        return str(a.args[0]).endswith('.waterfall')
    return False


def reset_chain(ctx, why=''):
    """what `_reset_cache()` does: every attribute a component carries from call to call is put back to its constructed value,
    and the complex quantiser resets both of its components (C12-D3; C02 states the same -- the bytes of a recording equal the
    reference pipeline only if a used backend starts each recording like a fresh one)"""
    Q = 'voltage.quantization.'
    for cls, proc in ((Q + 'RealQuantizer', 'quantize'), ('voltage.polyphase_filterbank.PolyphaseFilterbank', 'channelize')):
        pm = ctx.func(cls + '.' + proc)
        rp, IP = ctx.run(pm, max_depth=0)
        carried = sorted({e.data['name'] for e in IP.events if e.kind == 'store' and e.data.get('target') == 'attr'
                          and e.data['base'].key == sym('self').key})
        ctx.require(carried, f'{cls}.{proc} no longer carries state between calls (C12 RESET rule needs re-anchoring)')
        ri, II = ctx.run(ctx.func(cls + '.__init__'))
        rr_, IR_ = ctx.run(ctx.func(cls + '._reset_cache'))
        for a in carried:
            want = selfattr(ri, a)
            got = selfattr(rr_, a)
            fn = ctx.func(cls + '._reset_cache')
            if want is None:
                continue
            ctx.formula('RESTORE', f'{cls.split(".")[-1]}._reset_cache puts the carried attribute {a} back to its constructed value '
                        f'whatever the configuration' + why, fn, got if got is not None else T.mk_attr(sym('self'), a), want, node=fn.node,
                        construct=f'self.{a} after _reset_cache')
    rc = ctx.func(Q + 'ComplexQuantizer._reset_cache')
    rq, IQ = ctx.run(rc, no_inline=(Q + 'RealQuantizer._reset_cache',))
    for part in ('quantizer_r', 'quantizer_i'):
        es = [e for e in IQ.events if e.kind == 'call' and e.data.get('name', '').endswith('_reset_cache')
              and e.data.get('recv') is not None and e.data['recv'].key == T.mk_attr(sym('self'), part).key]
        ctx.ob('MUSTPASS', f'ComplexQuantizer._reset_cache unconditionally resets {part}' + why, rc,
               bool(es) and es[0].cond().key == T.TRUE.key and not es[0].loops, {'calls': [e.text() for e in es]},
               node=(es[0].node if es else rc.node), construct=f'self.{part}._reset_cache()')


def run(ctx):
    prog = ctx.prog
    S = summaries(prog)
    # ---- D1 mutable defaults / caller-owned dictionaries
    ctx.clause = 'D1'
    n_def = 0
    for fi in prog.functions.values():
        if isinstance(fi.node, ast.Lambda):
            continue
        for p, dnode in fi.defaults().items():
            if not mutable_default(dnode):
                continue
            n_def += 1
            ctx.functions_analysed.add(fi.short)
            s = S[fi.qual]
            muts = [(k, v) for k, v in s['mutates'].items() if k[0] == 'param' and (k[1] == p or k[1].startswith(p + '.'))]
            # call sites inside the package that omit the argument (the default object materialises)
            omit = []
            for cf in prog.functions.values():
                if isinstance(cf.node, ast.Lambda):
                    continue
                for n in ast.walk(cf.node):
                    if isinstance(n, ast.Call):
                        rc = resolve_callee(prog, cf, n)
                        if rc is not None and rc[0] is fi:
                            formals = fi.params()[1:] if rc[1] else fi.params()
                            passed = {kw.arg for kw in n.keywords} | set(formals[:len(n.args)])
                            if p not in passed:
                                omit.append((cf, n))
            private = fi.name.startswith('_') and not fi.name.startswith('__')
            esc = s['escapes'].get(p, [])
            esc_mut = []
            for path, node in esc:
                a = path.split('.')[-1]
                esc_mut += [(mf.short, ast.unparse(mn)[:60]) for mf, mn in attr_mutations(prog, a)]
            if muts:
                how = sorted({h for _, v in muts for _, h in v})
                node = muts[0][1][0][0]
                if private and not omit:
                    ctx.ob('MUTDEF', f'private helper {fi.name}: parameter `{p}` (default {ast.unparse(dnode)}) is updated in '
                           f'place by contract, and no call site in the package omits it (the shared default never materialises)',
                           fi, True, {'mutations': how, 'package_call_sites_omitting_it': 0}, node=node,
                           construct=f'{fi.name}({p}={ast.unparse(dnode)})')
                else:
                    ctx.ob('MUTDEF', f'`{p}` (default {ast.unparse(dnode)}, or the caller\'s own object) is not modified by {fi.name}',
                           fi, False, {'mutations': how, 'first': ast.unparse(node)[:100]}, node=node,
                           construct=f'{fi.name}({p}={ast.unparse(dnode)})')
            elif esc and esc_mut:
                ctx.ob('MUTDEF', f'`{p}` is stored into {esc[0][0]} and that attribute is mutated elsewhere', fi, False,
                       {'stored_as': [e[0] for e in esc], 'mutated_by': esc_mut}, node=esc[0][1],
                       construct=f'{fi.name}({p}={ast.unparse(dnode)})')
            else:
                ctx.ob('MUTDEF', f'`{p}` (default {ast.unparse(dnode)}) is only read by {fi.name}' +
                       (f' (stored as {esc[0][0]}, which nothing in the package mutates)' if esc else ''), fi, True,
                       {'escapes': [e[0] for e in esc]}, node=fi.node, construct=f'{fi.name}({p}={ast.unparse(dnode)})')
    ctx.require(n_def >= 1, 'MUTDEF: no mutable default argument found in the package (rule would be vacuous)')
    ctx.note(f'MUTDEF: {n_def} parameters with mutable defaults analysed')
    # record(): the caller's dictionary, whatever it is, must not be modified
    rec = ctx.func(B + '.record')
    s = S[rec.qual]
    muts = [(k, v) for k, v in s['mutates'].items() if k[0] == 'param' and k[1] == 'header_dict']
    ctx.ob('MUTDEF', 'record() does not modify the header dictionary object it was given', rec, not muts,
           {'mutations': sorted({h for _, v in muts for _, h in v})}, node=(muts[0][1][0][0] if muts else rec.node),
           construct='record(header_dict) caller object')

    # ---- D2 RNG discipline
    ctx.clause = 'D2'
    legacy, rng_sites, time_sites = [], [], []
    for fi in prog.functions.values():
        if isinstance(fi.node, ast.Lambda):
            continue
        own = {id(x) for n in ast.walk(fi.node) if isinstance(n, (ast.FunctionDef, ast.Lambda)) and n is not fi.node
               for x in ast.walk(n) if x is not n}
        for n in ast.walk(fi.node):
            if id(n) in own:
                continue
            if isinstance(n, ast.Attribute) and isinstance(n.value, ast.Attribute) and n.value.attr == 'random' and \
                    isinstance(n.value.value, ast.Name) and n.value.value.id in ('np', 'xp', 'numpy'):
                if n.attr not in ('default_rng', 'Generator', 'SeedSequence', 'BitGenerator', 'PCG64'):
                    legacy.append((fi, n))
                elif n.attr == 'default_rng':
                    rng_sites.append((fi, n))
            if isinstance(n, ast.Call) and isinstance(n.func, ast.Name) and n.func.id == 'seed':
                legacy.append((fi, n))
            if isinstance(n, ast.Call) and ast.unparse(n.func) == 'time.time':
                time_sites.append((fi, n))
    for m in prog.modules.values():
        for n in ast.walk(m.tree):
            if isinstance(n, ast.ImportFrom) and n.module in ('random', 'numpy.random') or \
                    (isinstance(n, ast.Import) and any(a.name == 'random' for a in n.names)):
                legacy.append((m, n))
    for fi, n in legacy:
        ctx.ob('RNG', 'no use of the process-global random state', fi if hasattr(fi, 'short') else fi.relpath, False,
               {'use': ast.unparse(n)[:80]}, node=n)
    if not legacy:
        ctx.ob('RNG', 'no use of the process-global random state (np.random.<fn>, random module)', 'setigen/**', True,
               {'default_rng_sites': len(rng_sites)}, construct='package sweep')
    ctx.require(len(rng_sites) >= 6, f'RNG: only {len(rng_sites)} default_rng sites found (vacuity guard)')
    # (b) each default_rng(arg): arg is the `seed` parameter of the enclosing function
    parents = {}
    for fi, n in rng_sites:
        call = None
        for c in ast.walk(fi.node):
            if isinstance(c, ast.Call) and c.func is n:
                call = c
        ok = call is not None and len(call.args) == 1 and isinstance(call.args[0], ast.Name) and \
            call.args[0].id in fi.all_params() and call.args[0].id == 'seed'
        if not ok and call is not None and len(call.args) == 1:
            # a child generator seeded by a draw from the owner's generator: default_rng(int(<owner>.rng.integers(...)))
            arg = inline_helper_call(ctx, fi, inline_locals(fi.node, call.args[0]))     # `s = int(rng.integers(..)); default_rng(s)`
            src = ast.unparse(arg)
            ok = '.rng.integers(' in src and not any(isinstance(x, ast.Call) and ast.unparse(x.func).endswith('time') for x in ast.walk(arg))
        ctx.ob('RNG', 'the generator is derived from the seed argument (or seeded by a draw from the owner\'s generator)', fi, ok,
               {'call': ast.unparse(call) if call is not None else ast.unparse(n)}, node=call or n)
    # (c) children receive separate draws from the owner's generator
    for short in ('voltage.antenna.Antenna.__init__', 'voltage.antenna.MultiAntennaArray.__init__'):
        fi = ctx.func(short)
        kids = []
        for owner in [fi] + list(new_helpers_of(ctx, fi)):          # constructions may live in an extracted helper
            for n in ast.walk(owner.node):
                if isinstance(n, ast.Call):
                    rc = resolve_callee(prog, owner, n)
                    if rc is not None and 'seed' in rc[0].all_params() and rc[0].name == '__init__':
                        kids.append((owner, n))
        ctx.require(kids, f'{short}: no child constructions with a seed parameter found')
        for owner, n in kids:
            kw = [k for k in n.keywords if k.arg == 'seed']
            val = inline_helper_call(ctx, owner, inline_locals(owner.node, kw[0].value)) if kw else None
            src = ast.unparse(val) if kw else None
            ok = bool(kw) and isinstance(val, ast.Call) and 'self.rng.integers' in src
            ctx.ob('RNG', 'each child stream/antenna is seeded by its own draw from the owner\'s generator', fi, ok,
                   {'seed_argument': src}, node=n, construct=ast.unparse(n.func) + '(seed=...)')
    # (d) package-internal calls that omit `seed` of a function that draws immediately
    drawers = set()
    for fi in prog.functions.values():
        if isinstance(fi.node, ast.Lambda) or 'seed' not in fi.all_params() or fi.name == '__init__':
            continue
        # locals bound to default_rng(seed), and a method of such a generator called in the function's own body
        gens = {t.id for st in ast.walk(fi.node) if isinstance(st, ast.Assign) and isinstance(st.value, ast.Call)
                and isinstance(st.value.func, ast.Attribute) and st.value.func.attr == 'default_rng'
                and len(st.value.args) == 1 and isinstance(st.value.args[0], ast.Name) and st.value.args[0].id == 'seed'
                for t in st.targets if isinstance(t, ast.Name)}
        nested = [x for x in ast.walk(fi.node) if isinstance(x, (ast.FunctionDef, ast.Lambda)) and x is not fi.node]
        if gens and any(isinstance(n, ast.Call) and isinstance(n.func, ast.Attribute) and
                        isinstance(n.func.value, ast.Name) and n.func.value.id in gens
                        for n in ast.walk(fi.node) if not any(n in ast.walk(x) for x in nested)):
            drawers.add(fi.qual)
    n_calls = 0
    for cf in prog.functions.values():
        if isinstance(cf.node, ast.Lambda):
            continue
        for n in ast.walk(cf.node):
            if isinstance(n, ast.Call):
                rc = resolve_callee(prog, cf, n)
                if rc is None or rc[0].qual not in drawers:
                    continue
                callee = rc[0]
                n_calls += 1
                formals = callee.params()[1:] if rc[1] else callee.params()
                passed = {kw.arg for kw in n.keywords} | set(formals[:len(n.args)])
                if 'seed' in passed:
                    ctx.ob('RNG', f'call of {callee.name} passes a seed/generator', cf, True, {'call': ast.unparse(n)[:100]}, node=n)
                else:
                    # accepted only under an "already provided" guard (an `is None` test of the cached result)
                    guarded = False
                    for g in ast.walk(cf.node):
                        if isinstance(g, ast.If) and any(x is n for x in ast.walk(g)) and 'is None' in ast.unparse(g.test):
                            guarded = True
                    ctx.ob('RNG', f'unseeded internal call of {callee.name} happens only when the user has not provided the result',
                           cf, guarded, {'call': ast.unparse(n)[:100]}, node=n)
    from .common import who_writes
    PFB = 'voltage.polyphase_filterbank.PolyphaseFilterbank.'
    w = who_writes(ctx, 'channelized_stds', None)
    extra = sorted(set(w) - {PFB + '__init__', PFB + 'estimate_channelized_stds'})
    ctx.ob('RNG', 'a user-seeded channelised-noise estimate is never discarded by the library (only the constructor and '
           'estimate_channelized_stds assign it), so the unseeded fallback cannot be re-triggered', PFB[:-1], not extra,
           {'writers': sorted(w), 'unexpected': extra}, node=(w[extra[0]] if extra else None), construct='.channelized_stds writers')
    # ... and the estimate a user seeded on the filterbank handed to the backend must reach the per-stream filterbanks: they
    # are the user's own objects or deep copies of the template, never filterbanks constructed afresh from its design
    binit = ctx.func('voltage.backend.RawVoltageBackend.__init__')
    rB, IB = ctx.run(binit, expand=False, max_depth=0)
    fb_st = [e for e in IB.events if e.kind == 'store' and e.data.get('target') == 'attr' and e.data.get('name') == 'filterbank'
             and e.data['base'].key == sym('self').key]
    ctx.require(fb_st, 'RawVoltageBackend.__init__: the store of self.filterbank was not found')
    for e in fb_st:
        ats = list(T.all_atoms(e.data['value']).values())
        fresh = [a for a in ats if a.kind == 'new' and 'PolyphaseFilterbank' in str(a.args[0])]
        derived = any(a.kind == 'sym' and a.args[0] == 'filterbank' for a in ats)
        ctx.ob('RNG', "the backend's per-stream filterbanks are the user's own objects or deep copies of the user's template (a seeded "
               'channelised-noise estimate made on the template beforehand is kept)', binit, derived and not fresh,
               {'value': pretty(e.data['value'])[:200]}, node=e.node, construct=e.text()[:80] + ' [provenance]')
    ctx.note(f'RNG: {len(rng_sites)} default_rng sites, {len(drawers)} drawing functions, {n_calls} internal calls of them')
    # (e) wall-clock time flows only into t_start's default and the stage timers
    def _time_flow_ok(fi, n, depth=0):
        """the statement holding `n` is a timer update, the t_start default, or binds a local all of whose reads are"""
        for st in ast.walk(fi.node):
            if isinstance(st, ast.AugAssign) and any(x is n for x in ast.walk(st.value)):
                return isinstance(st.target, ast.Attribute) and st.target.attr.endswith('_stage_t')
            if isinstance(st, ast.Assign) and any(x is n for x in ast.walk(st.value)):
                tg = st.targets[0]
                if isinstance(tg, ast.Attribute):
                    return tg.attr == 't_start' and "'t_start'" in ast.unparse(st.value)
                if isinstance(tg, ast.Name) and depth < 4:
                    loads = [x for x in ast.walk(fi.node) if isinstance(x, ast.Name) and x.id == tg.id and isinstance(x.ctx, ast.Load)]
                    return bool(loads) and all(_time_flow_ok(fi, x, depth + 1) for x in loads)
                return False
        return False
    for fi, n in time_sites:
        ok = _time_flow_ok(fi, n)
        ctx.ob('RNG', 'wall-clock time reaches only the documented t_start default and the *_stage_t timers', fi, ok,
               {'use': ast.unparse(n)}, node=n)
    # ---- D3 per-recording resets, no module-level state
    ctx.clause = 'D3'
    r, I = ctx.run(rec, no_inline=RECORD_NO_INLINE)
    first_block = [e for e in I.events if e.kind == 'call' and e.data.get('name') == B + '.collect_data_block']
    ctx.require(first_block, 'record() no longer calls collect_data_block')
    fb = first_block[0]
    rs = [e for e in I.events if e.kind == 'call' and e.data.get('name') == '.reset_start' and
          'antenna_source' in ast.unparse(e.data['recv_node'])]
    ctx.ob('MUSTPASS', 'every recording starts by resetting the antenna source (start-of-observation flag)', rec,
           bool(rs) and dominates(rs[0], fb) and not rs[0].loops, {'calls': [e.text() for e in rs]},
           node=(rs[0].node if rs else rec.node), construct='antenna_source.reset_start()')
    for comp in ('digitizer', 'filterbank', 'requantizer'):
        es = component_resets(I, comp)
        ok = bool(es) and dominates(es[0], fb) and resets_all_pairs(es[0])
        ctx.ob('MUSTPASS', f'every recording resets the {comp} cache of every antenna and polarisation before the first block', rec,
               ok, {'calls': [e.text() for e in es]}, node=(es[0].node if es else rec.node), construct=f'{comp}._reset_cache()')
    # what _reset_cache must clear: every attribute the processing method carries from one call to the next
    # (reads and writes) is put back, UNCONDITIONALLY, to the value the constructor gives it
    Q = 'voltage.quantization.'
    reset_chain(ctx)
    # the one attribute a block collection writes on the backend is the sub-block count it actually used: written back it must
    # reproduce itself (ceil(n / ceil(n / s)) is a fixed point; a floor is not), or the FIRST block a backend ever collects is
    # partitioned -- and quantised per chunk -- differently from every later one, i.e. from a fresh backend's
    from .refs_backend import REF_COLLECT
    from .c02 import NI as _NI
    from vstatic.terms import NONE as _NONE, TRUE as _TRUE
    cdb_ = ctx.func(B + '.collect_data_block')
    agree_ref(ctx, cdb_, REF_COLLECT, 'collect_data_block: the sub-block count written back is ceil(n / ceil(n / s)), a fixed point of '
              'the write-back (a used backend partitions a block like a fresh one)', what=('attrstores',),
              heap={'num_bits': lift(8), 'input_file_stem': _NONE}, args={'digitize': _TRUE, 'requantize': _TRUE}, no_inline=_NI,
              expand=False, max_depth=0)
    # what a recording writes does not depend on earlier recordings in the same process: no memoised reader hands the same
    # (mutable) parsed file to every caller
    from .common import memo_obligation
    memo_obligation(ctx, ctx.func(B + '.record'), 'recordings share no memoised file contents')
    # run-to-run determinism also needs every iteration order to follow from the inputs (PYTHONHASHSEED-dependent
    # set order, directory listing order)
    unordered_sweep(ctx)
    glob = []
    for fi in prog.functions.values():
        if isinstance(fi.node, ast.Lambda):
            continue
        for n in ast.walk(fi.node):
            if isinstance(n, ast.Global):
                glob.append((fi.short, n.names))
    ctx.ob('EFFECTS', 'no function rebinds module-level state (`global`)', 'setigen/**', not glob, {'global_statements': glob},
           construct='package sweep: global')
    # ... nor modifies a module-level container in place (a memo / registry shared by every object in the process)
    mg = prog.mutated_globals()
    for (mod, name), sites in sorted(mg.items()):
        for fshort, n in sites[:3]:
            ctx.ob('EFFECTS', f'module-level `{mod}.{name}` is not modified by any function (process-wide state makes results depend '
                   'on earlier calls)', prog.functions.get('setigen.' + fshort) or mod, False,
                   {'statement': ast.unparse(n)[:100]}, node=n)
    ctx.ob('EFFECTS', 'package sweep: no function modifies a module-level variable in place', 'setigen/**', True,
           {'module_level_names': sum(len(m.globals) for m in prog.modules.values()), 'mutated': len(mg)},
           construct='package sweep: module-level state')

    # ---- D4 pickling / copying
    ctx.clause = 'D4'
    gs = ctx.func('frame.Frame.__getstate__')
    s = S[gs.qual]
    ctx.ob('EFFECTS', '__getstate__ does not modify the frame (works on a copy of __dict__)', gs, not s['mutates'],
           {'mutates': [k[1] for k in s['mutates']]}, node=gs.node, construct='__getstate__ effects')
    agree_ref(ctx, gs, REF_GETSTATE, '__getstate__: copy of __dict__ without the Waterfall', what=('return',), expand=False)
    # A Waterfall read from an .h5 file carries an open h5py handle (container.h5) that cannot be deep-copied: every
    # deep copy of a Waterfall value must come after `del <that waterfall>.container.h5` (tolerating its absence).
    n_dc = 0
    for fshort in sorted(f.short for f in prog_functions(ctx) if f.module.name == 'setigen.frame'):
        f2 = ctx.func(fshort)
        if not any(isinstance(n, ast.Call) and ast.unparse(n.func).endswith('deepcopy') for n in ast.walk(f2.node)):
            continue
        r2, I2 = ctx.run(f2, expand=False, max_depth=2)
        for e in I2.events:
            if not (e.kind == 'call' and e.data.get('name') == 'copy.deepcopy' and e.data['args'] and e.owner == f2.short):
                continue
            arg = e.data['args'][0]
            if not _waterfall_value(arg):
                continue
            n_dc += 1
            def attr_of(t, name):
                a = t.single_atom()
                if a is not None and a.kind == 'ite':
                    return T.mk_ite(a.args[0], attr_of(a.args[1], name), attr_of(a.args[2], name))
                return T.mk_attr(t, name)
            cont = attr_of(arg, 'container')
            dels = [d for d in I2.events if d.kind == 'delete' and d.data.get('target') == 'attr' and d.data.get('key') == 'h5'
                    and d.seq < e.seq and d.data['base'].key == cont.key]
            ok = bool(dels) and any(t[1] == 'body' for t in dels[0].tryctx) and \
                all(c.key in {x.key for x in e.pc} or 'exc(' in c.key or 'partial(' in c.key for c in dels[0].pc)
            ctx.ob('MUSTPASS', 'a Waterfall is deep-copied only after its unpicklable h5py handle (container.h5) has been dropped '
                   '(frames loaded from .h5 files can be copied)', f2, ok,
                   {'deepcopy_of': pretty(arg)[:120], 'deletions_before': [d.text() for d in dels]}, node=e.node,
                   construct=f'{f2.name}: copy.deepcopy(<waterfall>)')
    ctx.require(n_dc >= 1, 'no deep copy of a Waterfall found in frame.py (from_data / copy expected): vacuity guard')
    agree_ref(ctx, ctx.func('frame.Frame.copy'), REF_COPY, 'copy(): deep copy plus a deep copy of the refreshed Waterfall',
              what=('return', 'attrstores', 'calls'), expand=False, max_depth=0)


META = {
    'technique': 'static analysis: interprocedural parameter-mutation/alias summaries over the resolved call graph (MUTDEF, '
                 'EFFECTS), RNG-discipline sweeps over the syntax tree (RNG), call presence/order on the event trace (MUSTPASS), '
                 'reference-transcription comparison of copy/__getstate__',
    'level': 'Decides from the source that no mutable default (or caller-owned header dictionary) is modified directly, '
             'through aliases or through callees, that all randomness flows from `seed` arguments (no global RNG, every '
             'default_rng(seed), separately drawn child seeds, unseeded internal draws only behind an already-provided guard),'
             " that wall-clock time reaches only t_start's default and the timers, that each recording resets "
             'antenna/digitizer/filterbank/requantizer state for every (antenna, polarisation) and that _reset_cache '
             'unconditionally restores every attribute the processing methods carry between calls, that no function modifies '
             'module-level state or consumes a set / unsorted listing in an order-sensitive way, that __getstate__/copy work '
             'on copies and that a Waterfall is deep-copied only after its h5py handle is dropped (frames loaded from .h5 can '
             'be copied). Bit-identical outputs across runs are not decided. Container-mutation terms (dict.pop/update on the '
             'pickled state) are compared decisively, so a __getstate__ that drops further attributes is reported.',
    'note': 'Aliasing is tracked per local name with attribute paths (no heap shapes); duck-typed method calls are resolved '
            'only when the method name is unique in the package.',
}
