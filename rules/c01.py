"""C01 Injected signal = product of its four components (DESIGN §4.C01)."""
import itertools
from vstatic import terms as T
from vstatic.terms import sym, Term, Atom, lift, pretty, TRUE, FALSE, NONE
from .common import agree_ref

FR = 'frame.Frame.'

# Reference definition of general injection (transcribed from the property statement and the
# documented sub-sample averaging; the array-path validation accepts exactly tchans(+1) values).
REF_ADD_SIGNAL = '''
def add_signal(self, path, t_profile, f_profile, bp_profile=None, bounding_f_range=None,
               integrate_path=False, integrate_t_profile=False, integrate_f_profile=False,
               doppler_smearing=False, t_subsamples=10, f_subsamples=10, smearing_subsamples=10):
    if bounding_f_range is None:
        bounding_min, bounding_max = 0, self.fchans
    else:
        bounding_min = min(max(self.get_index(bounding_f_range[0]), 0), self.fchans)
        bounding_max = min(max(self.get_index(bounding_f_range[1]), 0), self.fchans)
    restricted_fs = self.fs[bounding_min:bounding_max]
    if integrate_f_profile:
        f0 = restricted_fs[0]
        restricted_fchans = len(restricted_fs)
        restricted_fs = np.linspace(f0, f0 + restricted_fchans * self.df, restricted_fchans * f_subsamples, endpoint=False)
    ff, _ = np.meshgrid(restricted_fs, self.ts)
    if callable(t_profile):
        if integrate_t_profile:
            new_ts = np.linspace(0, self.tchans * self.dt, self.tchans * t_subsamples, endpoint=False)
            y = t_profile(new_ts)
            if not isinstance(y, np.ndarray):
                y = np.repeat(y, self.tchans * t_subsamples)
            integrated_y = np.mean(np.reshape(y, (self.tchans, t_subsamples)), axis=1)
            t_profile = integrated_y
        else:
            t_profile = t_profile(self.ts)
    elif isinstance(t_profile, (list, np.ndarray)):
        t_profile = np.array(t_profile)
        if t_profile.shape != self.ts.shape:
            raise ValueError('shape')
    elif isinstance(t_profile, (int, float)):
        t_profile = np.full(self.tchans, t_profile)
    else:
        raise TypeError('t_profile')
    _, t_profile_tt = np.meshgrid(restricted_fs, t_profile)
    tchans_eff = self.tchans
    if doppler_smearing:
        tchans_eff += 1
    if callable(path):
        if integrate_path:
            new_ts = np.linspace(0, tchans_eff * self.dt, tchans_eff * t_subsamples, endpoint=False)
            f = path(new_ts)
            if not isinstance(f, np.ndarray):
                f = np.repeat(f, tchans_eff * t_subsamples)
            integrated_f = np.mean(np.reshape(f, (tchans_eff, t_subsamples)), axis=1)
            path = integrated_f
        else:
            ts = self.ts
            if doppler_smearing:
                ts = self.ts_ext
            path = path(ts)
    elif isinstance(path, (list, np.ndarray)):
        path = np.array(path)
        if path.shape != (tchans_eff,):
            raise ValueError('shape')
    elif isinstance(path, (int, float)):
        path = np.full(tchans_eff, path)
    else:
        raise TypeError('path')
    _, path_tt = np.meshgrid(restricted_fs, path[:self.tchans])
    if doppler_smearing:
        dpath = np.diff(path) / smearing_subsamples
        _, dpath_tt = np.meshgrid(restricted_fs, dpath)
    if bp_profile is None:
        bp_profile = 1
    if callable(bp_profile):
        bp_profile = bp_profile(restricted_fs)
    elif isinstance(bp_profile, (list, np.ndarray)):
        bp_profile = np.array(bp_profile)
        if bp_profile.shape != restricted_fs.shape:
            raise ValueError('shape')
    elif isinstance(bp_profile, (int, float)):
        bp_profile = np.full(restricted_fs.shape, bp_profile)
    else:
        raise TypeError('bp_profile')
    bp_profile_ff, _ = np.meshgrid(bp_profile, self.ts)
    if doppler_smearing:
        signal = np.zeros(ff.shape)
        for _ in range(smearing_subsamples):
            signal += (t_profile_tt * f_profile(ff, path_tt) / smearing_subsamples * bp_profile_ff)
            path_tt += dpath_tt
    else:
        signal = t_profile_tt * f_profile(ff, path_tt) * bp_profile_ff
    if integrate_f_profile:
        signal = np.mean(np.reshape(signal, (self.tchans, restricted_fchans, f_subsamples)), axis=2)
    self.data[:, bounding_min:bounding_max] += signal
    signal_frame = np.zeros(self.shape)
    signal_frame[:, bounding_min:bounding_max] = signal
    return signal_frame
'''

REF_FUNCS = {
    'funcs.paths.constant_path': ('lambda t: f_start + drift_rate * t', ['t']),
    'funcs.paths.squared_path': ('lambda t: f_start + 0.5 * drift_rate * t**2', ['t']),
    'funcs.paths.sine_path': ('lambda t: f_start + amplitude * np.sin(2 * np.pi * t / period) + drift_rate * t', ['t']),
    'funcs.t_profiles.sine_t_profile': ('lambda t: amplitude * np.sin(2 * np.pi * (t + phase) / period) + level', ['t']),
    'funcs.f_profiles.box_f_profile': ('lambda f, f_center: (np.abs(f - f_center) < width / 2).astype(int)', ['f', 'f_center']),
    'funcs.f_profiles.gaussian_f_profile': ('lambda f, f_center: np.exp(-np.power(f - f_center, 2.) / (2 * np.power(width / (2 * np.sqrt(2 * np.log(2))), 2.)))', ['f', 'f_center']),
    'funcs.f_profiles.lorentzian_f_profile': ('lambda f, f_center: 1 / (1 + np.power((f - f_center) / (width / 2), 2))', ['f', 'f_center']),
    'funcs.f_profiles.sinc2_f_profile': ('lambda f, f_center: np.where(np.abs(f - f_center) < width / 2, np.sinc((f - f_center) / (width / 2)), 0)**2', ['f', 'f_center']),
    'funcs.bp_profiles.constant_bp_profile': ('lambda f: level', ['f']),
}


def configs(tier):
    kinds = ('callable', 'array', 'scalar')
    base = dict(path='callable', t_profile='callable', bp_profile='none', bounding=False, ip=False, it=False, iff=False, sm=False)
    out = []

    def add(**kw):
        c = dict(base)
        c.update(kw)
        if c not in out:
            out.append(c)
    if tier == 'thorough':
        for p, t, b in itertools.product(kinds, kinds, kinds + ('none',)):
            for bd, ip, it, iff, sm in itertools.product((False, True), repeat=5):
                if (ip and p != 'callable') or (it and t != 'callable'):
                    continue
                add(path=p, t_profile=t, bp_profile=b, bounding=bd, ip=ip, it=it, iff=iff, sm=sm)
        return out
    for k in kinds:
        for sm in (False, True):
            add(path=k, sm=sm)
            add(path=k, sm=sm, bounding=True)
        add(t_profile=k)
        add(bp_profile=k)
        add(bp_profile=k, iff=True, bounding=True)
    add(bp_profile='none')
    for ip, it, iff, sm in itertools.product((False, True), repeat=4):
        add(ip=ip, it=it, iff=iff, sm=sm)
        add(ip=ip, it=it, iff=iff, sm=sm, bounding=True)
    return out


def run(ctx):
    fi = ctx.func(FR + 'add_signal')
    T.NOTNONE.update({'path', 't_profile', 'f_profile', 'BP', 'BFR'})
    T.INTEGER.update({'t_subsamples', 'f_subsamples', 'smearing_subsamples'})
    T.POSITIVE.update({'t_subsamples', 'f_subsamples', 'smearing_subsamples'})
    cfgs = configs(ctx.tier)
    ctx.note(f'C01: {len(cfgs)} input-form/flag configurations of add_signal compared with the reference definition')
    seen = set()
    for c in cfgs:
        ctx.clause = 'D1-D5'
        T.SYMKIND.clear()
        T.SYMKIND.update({'path': c['path'], 't_profile': c['t_profile']})
        args = {'integrate_path': TRUE if c['ip'] else FALSE, 'integrate_t_profile': TRUE if c['it'] else FALSE,
                'integrate_f_profile': TRUE if c['iff'] else FALSE, 'doppler_smearing': TRUE if c['sm'] else FALSE,
                'bounding_f_range': sym('BFR') if c['bounding'] else NONE}
        if c['bp_profile'] == 'none':
            args['bp_profile'] = NONE
        else:
            T.SYMKIND['BP'] = c['bp_profile']
            args['bp_profile'] = sym('BP')
        label = ', '.join(f'{k}={v}' for k, v in c.items())
        n0 = len(ctx.obligations)
        agree_ref(ctx, fi, REF_ADD_SIGNAL, f'add_signal[{label}]', what=('return', 'substores', 'raises', 'loopstores'),
                  args=args, no_inline=(FR + 'get_index',))
        # keep one obligation per distinct (name-without-config, code, spec) to keep the report readable
        kept = []
        for o in ctx.obligations[n0:]:
            sig = (o.name.split(']', 1)[-1], str(o.detail.get('code')), str(o.detail.get('spec')), o.verdict)
            if sig in seen and o.verdict == 'HOLDS':
                continue
            seen.add(sig)
            kept.append(o)
        ctx.obligations[n0:] = kept
    T.SYMKIND.clear()

    # ---- closed-form families (the shipped path / profile functions)
    ctx.clause = 'D6'
    for short, (lam, argn) in REF_FUNCS.items():
        f = ctx.func(short)
        I = ctx.interp()
        dargs = {p: I.eval_default(f, d) for p, d in f.defaults().items()}
        dargs = {p: v for p, v in dargs.items() if v.single_atom() is not None and v.single_atom().kind in ('str', 'bool')}
        r = I.run(f, args=dargs)
        ctx._account(I)
        I2 = ctx.interp()
        ref = ctx.spec(f, lam, I=I2)
        args = [sym(a) for a in argn]
        va = ctx.apply(I, f, r.ret, args)
        vb = ctx.apply(I2, f, ref, args)
        ctx.formula('FORMULA', f'{f.name}: closed form', f, va, vb, node=f.node, construct=f'return of {f.name}')
    f = ctx.func('funcs.t_profiles.constant_t_profile')
    I = ctx.interp()
    r = I.run(f)
    T.SYMKIND['tt'] = 'array'
    va = ctx.apply(I, f, r.ret, [sym('tt')])
    ctx.formula('FORMULA', 'constant_t_profile(array) == full(shape, level)', f, va,
                ctx.spec(f, 'np.full(np.array(tt).shape, level)', env={'tt': sym('tt')}), node=f.node, construct='t_profile(array)')
    T.SYMKIND['tt'] = 'scalar'
    va = ctx.apply(I, f, r.ret, [sym('tt')])
    ctx.formula('FORMULA', 'constant_t_profile(scalar) == level', f, va, sym('level'), node=f.node, construct='t_profile(scalar)')
    T.SYMKIND.clear()


META = {
    'technique': 'static analysis: symbolic value analysis of Frame.add_signal per input-form/flag configuration against a '
                 'reference definition (FORMULA/AGREE on the returned frame, the data update, the rejecting paths and the '
                 'smearing loop body/trip count), closed forms of the shipped path/profile families',
    'level': 'Decides from the source, for every combination of input forms (callable/array/scalar) and flags covered, that the '
             'returned array is T(t) * f_profile(ff, path) * B(f) on meshgrids of the frame\'s own axes (arguments in that order), '
             'that sub-sample averaging reshapes to (N, subsamples) and averages the sub-sample axis, that smearing adds n copies '
             'divided by n while stepping the path by diff(path)/n, that array inputs are validated against exactly the required '
             'length (tchans+1 for a smeared path), and the closed forms of the shipped path/profile functions. Pixel values and '
             'float rounding are not decided.',
    'note': 'Real arithmetic; numpy meshgrid/reshape/mean/diff are opaque functions compared by arguments; user callables are opaque.',
}
