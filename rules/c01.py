"""C01 Injected signal = product of its four components (DESIGN §4.C01)."""
import itertools
from vstatic import terms as T
from vstatic.terms import sym, Term, Atom, lift, pretty, TRUE, FALSE, NONE
from .common import agree_ref

FR = 'frame.Frame.'

# Reference definition of general injection (transcribed from the property statement and the
# documented sub-sample averaging; the array-path validation accepts exactly tchans(+1) values).
REF_ADD_SIGNAL = '''
def add_signal(self, path, t_profile, f_profile, bp_profile=None, bounding_f_range=None,
               integrate_path=False, integrate_t_profile=False, integrate_f_profile=False,
               doppler_smearing=False, t_subsamples=10, f_subsamples=10, smearing_subsamples=10):
    if bounding_f_range is None:
        bounding_min, bounding_max = 0, self.fchans
    else:
        bounding_min = min(max(self.get_index(bounding_f_range[0]), 0), self.fchans)
        bounding_max = min(max(self.get_index(bounding_f_range[1]), 0), self.fchans)
    restricted_fs = self.fs[bounding_min:bounding_max]
    restricted_fchans = len(restricted_fs)
    # (a bounding range may select no channel at all -- wholly outside the band: nothing to sub-sample, result is empty/zero)
    if integrate_f_profile and restricted_fchans > 0:
        f0 = restricted_fs[0]
        restricted_fs = np.linspace(f0, f0 + restricted_fchans * self.df, restricted_fchans * f_subsamples, endpoint=False)
    ff, _ = np.meshgrid(restricted_fs, self.ts)
    if callable(t_profile):
        if integrate_t_profile:
            # sub-samples of the frame's OWN time axis (it is shifted during cadence injection): t_i + k*dt/t_subsamples
            new_ts = np.linspace(self.ts[0], self.ts[0] + self.tchans * self.dt, self.tchans * t_subsamples, endpoint=False)
            y = t_profile(new_ts)
            if not isinstance(y, np.ndarray):
                y = np.repeat(y, self.tchans * t_subsamples)
            integrated_y = np.mean(np.reshape(y, (self.tchans, t_subsamples)), axis=1)
            t_profile = integrated_y
        else:
            t_profile = t_profile(self.ts)
    elif isinstance(t_profile, (list, np.ndarray)):
        t_profile = np.array(t_profile)
        if t_profile.shape != self.ts.shape:
            raise ValueError('shape')
    elif isinstance(t_profile, (int, float)):
        t_profile = np.full(self.tchans, t_profile)
    else:
        raise TypeError('t_profile')
    _, t_profile_tt = np.meshgrid(restricted_fs, t_profile)
    tchans_eff = self.tchans
    if doppler_smearing:
        tchans_eff += 1
    if callable(path):
        if integrate_path:
            new_ts = np.linspace(self.ts[0], self.ts[0] + tchans_eff * self.dt, tchans_eff * t_subsamples, endpoint=False)
            f = path(new_ts)
            if not isinstance(f, np.ndarray):
                f = np.repeat(f, tchans_eff * t_subsamples)
            integrated_f = np.mean(np.reshape(f, (tchans_eff, t_subsamples)), axis=1)
            path = integrated_f
        else:
            ts = self.ts
            if doppler_smearing:
                ts = np.append(self.ts, self.ts[-1] + self.dt)      # one extra time sample continuing the CURRENT axis
            path = path(ts)
    elif isinstance(path, (list, np.ndarray)):
        path = np.array(path)
        if path.shape != (tchans_eff,):
            raise ValueError('shape')
    elif isinstance(path, (int, float)):
        path = np.full(tchans_eff, path)
    else:
        raise TypeError('path')
    _, path_tt = np.meshgrid(restricted_fs, path[:self.tchans])
    if doppler_smearing:
        dpath = np.diff(path) / smearing_subsamples
        _, dpath_tt = np.meshgrid(restricted_fs, dpath)
    if bp_profile is None:
        bp_profile = 1
    if callable(bp_profile):
        bp_profile = bp_profile(restricted_fs)
    elif isinstance(bp_profile, (list, np.ndarray)):
        # bandpass(f_j): one value per frequency column of the (bounded) range, whatever the integrate_* flags;
        # the sub-samples of a column share the column's value
        bp_profile = np.array(bp_profile)
        if bp_profile.shape != (restricted_fchans,):
            raise ValueError('shape')
        if integrate_f_profile:
            bp_profile = np.repeat(bp_profile, f_subsamples)
    elif isinstance(bp_profile, (int, float)):
        bp_profile = np.full(restricted_fs.shape, bp_profile)
    else:
        raise TypeError('bp_profile')
    bp_profile_ff, _ = np.meshgrid(bp_profile, self.ts)
    if doppler_smearing:
        signal = np.zeros(ff.shape)
        for _ in range(smearing_subsamples):
            signal += (t_profile_tt * f_profile(ff, path_tt) / smearing_subsamples * bp_profile_ff)
            path_tt += dpath_tt
    else:
        signal = t_profile_tt * f_profile(ff, path_tt) * bp_profile_ff
    if integrate_f_profile:
        signal = np.mean(np.reshape(signal, (self.tchans, restricted_fchans, f_subsamples)), axis=2)
    self.data[:, bounding_min:bounding_max] += signal
    signal_frame = np.zeros(self.shape)
    signal_frame[:, bounding_min:bounding_max] = signal
    return signal_frame
'''

REF_FUNCS = {
    'funcs.paths.constant_path': ('lambda t: f_start + drift_rate * t', ['t']),
    'funcs.paths.squared_path': ('lambda t: f_start + 0.5 * drift_rate * t**2', ['t']),
    'funcs.paths.sine_path': ('lambda t: f_start + amplitude * np.sin(2 * np.pi * t / period) + drift_rate * t', ['t']),
    'funcs.t_profiles.sine_t_profile': ('lambda t: amplitude * np.sin(2 * np.pi * (t + phase) / period) + level', ['t']),
    'funcs.f_profiles.box_f_profile': ('lambda f, f_center: (np.abs(f - f_center) < width / 2).astype(int)', ['f', 'f_center']),
    'funcs.f_profiles.gaussian_f_profile': ('lambda f, f_center: np.exp(-np.power(f - f_center, 2.) / (2 * np.power(width / (2 * np.sqrt(2 * np.log(2))), 2.)))', ['f', 'f_center']),
    'funcs.f_profiles.lorentzian_f_profile': ('lambda f, f_center: 1 / (1 + np.power((f - f_center) / (width / 2), 2))', ['f', 'f_center']),
    'funcs.f_profiles.sinc2_f_profile': ('lambda f, f_center: np.where(np.abs(f - f_center) < width / 2, np.sinc((f - f_center) / (width / 2)), 0)**2', ['f', 'f_center']),
    'funcs.bp_profiles.constant_bp_profile': ('lambda f: level', ['f']),
}


REF_VOIGT = '''
def voigt_f_profile(g_width, l_width):
    g_width = unit_utils.get_value(g_width, u.Hz)
    factor = 2 * np.sqrt(2 * np.log(2))
    sigma = g_width / factor
    l_width = unit_utils.get_value(l_width, u.Hz)
    gamma = l_width / 2
    def f_profile(f, f_center):
        return func_utils.voigt(f, f_center, sigma, gamma) / func_utils.voigt(f_center, f_center, sigma, gamma)
    return f_profile
'''
REF_MULTI_GAUSS = '''
def multiple_gaussian_f_profile(width):
    width = unit_utils.get_value(width, u.Hz)
    factor = 2 * np.sqrt(2 * np.log(2))
    sigma = width / factor
    def f_profile(f, f_center):
        return func_utils.gaussian(f, f_center - 100, sigma) / 4 + func_utils.gaussian(f, f_center, sigma) + func_utils.gaussian(f, f_center + 100, sigma) / 4
    return f_profile
'''
REF_RFI = '''
def simple_rfi_path(f_start, drift_rate, spread, spread_type='uniform', rfi_type='stationary', seed=None):
    rng = np.random.default_rng(seed)
    f_start = unit_utils.get_value(f_start, u.Hz)
    drift_rate = unit_utils.get_value(drift_rate, u.Hz / u.s)
    spread = unit_utils.get_value(spread, u.Hz)
    def path(t):
        if spread_type == 'uniform':
            f_offset = rng.uniform(-spread / 2., spread / 2., size=t.shape)
        elif spread_type == 'normal':
            factor = 2 * np.sqrt(2 * np.log(2))
            f_offset = rng.normal(0, spread / factor, size=t.shape)
        else:
            raise ValueError('not a valid spread type')
        if rfi_type == 'random_walk':
            f_offset = np.cumsum(f_offset)
        return f_start + drift_rate * t + f_offset
    return path
'''
REF_PERIODIC = '''
def periodic_gaussian_t_profile(pulse_width, period, phase=0, pulse_offset_width=0, pulse_direction='rand', pnum=3,
                                amplitude=1, level=1, min_level=0, seed=None):
    rng = np.random.default_rng(seed)
    period = unit_utils.get_value(period, u.s)
    factor = 2 * np.sqrt(2 * np.log(2))
    pulse_offset_sigma = unit_utils.get_value(pulse_offset_width, u.s) / factor
    pulse_sigma = unit_utils.get_value(pulse_width, u.s) / factor
    def t_profile(t):
        center_ks = np.round((t + phase) / period - 1 / 4.)
        temp = pnum // 2
        if pnum % 2 == 1:
            center_ks = np.array([center_ks + 1 * i for i in np.arange(-temp, temp + 1)])
        else:
            center_ks = np.array([center_ks + 1 * i for i in np.arange(-temp + 1, temp + 1)])
        centers = (4. * center_ks + 1.) / 4. * period - phase
        unique_center_ks = np.unique(center_ks)
        offset_dict = dict(zip(unique_center_ks, rng.normal(0, pulse_offset_sigma, unique_center_ks.shape)))
        get_offsets = np.vectorize(lambda x: offset_dict[x])
        sign_list = []
        for c in unique_center_ks:
            x = rng.uniform(0, 1)
            if (pulse_direction == 'up' or pulse_direction == 'rand' and x < 0.5):
                sign_list.append(1)
            elif pulse_direction == 'down' or pulse_direction == 'rand':
                sign_list.append(-1)
            else:
                sys.exit('Invalid pulse direction!')
        sign_dict = dict(zip(unique_center_ks, sign_list))
        get_signs = np.vectorize(lambda x: sign_dict[x])
        centers += get_offsets(center_ks)
        center_signs = zip(centers, get_signs(center_ks))
        intensity = 0
        for c, sign in center_signs:
            intensity += sign * amplitude * func_utils.gaussian(t, c, pulse_sigma)
        intensity += level
        return np.maximum(min_level, intensity)
    return t_profile
'''


def user_dtype(t, names):
    """the array's dtype is that of a caller-supplied array/scalar: np.array(p), np.full(n, p), p itself, passed through
    slicing / meshgrid / reshape / transposition (no arithmetic with floats in between)"""
    a = t.single_atom()
    if a is None:
        return False
    if a.kind == 'sym':
        return a.args[0] in names
    if a.kind == 'sub':
        return user_dtype(a.args[0], names)
    if a.kind == 'call':
        fn, args, kw = a.args
        if fn in ('array', 'copy', 'reshape', 'T', 'transpose', 'flip', 'repeat', 'tile', 'tile_rows', 'tile_cols') and args:
            return user_dtype(args[0], names) and not any(k == 'dtype' for k, _ in kw)
        if fn == 'full' and not any(k == 'dtype' for k, _ in kw):
            fv = dict(kw).get('fill_value')
            return fv is not None and user_dtype(fv, names)
        if fn == 'meshgrid':
            return any(user_dtype(x, names) for x in args)
    return False


def float_valued(t):
    """contains a true division / float constant / known float-valued function"""
    for m, c in t.p.items():
        if c.denominator != 1:
            return True
        for a, e in m:
            if e < 0 or e.denominator != 1:
                return True
            if a.kind == 'call' and a.args[0] in ('diff', 'sub_'):
                pass
            if a.kind in ('sub', 'call'):
                for x in a.args:
                    if isinstance(x, Term) and float_valued(x):
                        return True
                    if isinstance(x, tuple):
                        for y in x:
                            if isinstance(y, Term) and float_valued(y):
                                return True
    return False


def configs(tier):
    kinds = ('callable', 'array', 'scalar')
    base = dict(path='callable', t_profile='callable', bp_profile='none', bounding=False, ip=False, it=False, iff=False, sm=False)
    out = []

    def add(**kw):
        c = dict(base)
        c.update(kw)
        if c not in out:
            out.append(c)
    if tier == 'thorough':
        for p, t, b in itertools.product(kinds, kinds, kinds + ('none',)):
            for bd, ip, it, iff, sm in itertools.product((False, True), repeat=5):
                if (ip and p != 'callable') or (it and t != 'callable'):
                    continue
                add(path=p, t_profile=t, bp_profile=b, bounding=bd, ip=ip, it=it, iff=iff, sm=sm)
        return out
    for k in kinds:
        for sm in (False, True):
            add(path=k, sm=sm)
            add(path=k, sm=sm, bounding=True)
        add(t_profile=k)
        add(bp_profile=k)
        add(bp_profile=k, iff=True, bounding=True)
    add(bp_profile='none')
    for ip, it, iff, sm in itertools.product((False, True), repeat=4):
        add(ip=ip, it=it, iff=iff, sm=sm)
        add(ip=ip, it=it, iff=iff, sm=sm, bounding=True)
    return out


def run(ctx):
    fi = ctx.func(FR + 'add_signal')
    # SCALARFORM: "each given as a function, an array or a scalar" -- the scalar branch of every component must accept numpy
    # scalars too (np.float32 level read from loaded data, np.int64 index arithmetic), not only Python int/float
    import ast as _ast
    SCAL = {'int', 'float', 'integer', 'floating', 'number', 'Number', 'Real', 'Integral', 'generic', 'complex', 'complexfloating'}
    n_sc = 0
    from .common import family_walk
    for n in family_walk(ctx, fi):
        if isinstance(n, _ast.Call) and isinstance(n.func, _ast.Name) and n.func.id == 'isinstance' and len(n.args) == 2:
            tnode = n.args[1]
            if isinstance(tnode, _ast.Name):
                # a named constant holding the tuple of types (module level, in the function's module first)
                cands = [m.globals[tnode.id] for m in [fi.module] + list(ctx.prog.modules.values()) if tnode.id in m.globals]
                if cands:
                    tnode = cands[0]
            tys = []
            for t in (tnode.elts if isinstance(tnode, _ast.Tuple) else [tnode]):
                # (a tuple spliced into another: (*_PY_SCALARS, np.integer) / _A + _B is not followed further)
                tys.append(t.value if isinstance(t, _ast.Starred) else t)
            names = {_ast.unparse(t).split('.')[-1] for t in tys}
            if not names or not names <= SCAL:
                continue
            n_sc += 1
            ok = bool(names & {'number', 'Number', 'Real', 'generic'}) or {'integer', 'floating'} <= names
            ctx.clause = 'D1-D5'
            ctx.ob('SCALARFORM', 'the scalar form of a signal component includes numpy scalars (np.integer / np.floating), not only '
                   'Python int and float', fi, ok, {'test': _ast.unparse(n)}, node=n)
    ctx.require(n_sc >= 1, 'add_signal: the scalar-form tests of path / t_profile / bp_profile were not found (SCALARFORM vacuity guard)')
    T.NOTNONE.update({'path', 't_profile', 'f_profile', 'BP', 'BFR'})
    T.INTEGER.update({'t_subsamples', 'f_subsamples', 'smearing_subsamples'})
    T.POSITIVE.update({'t_subsamples', 'f_subsamples', 'smearing_subsamples'})
    cfgs = configs(ctx.tier)
    ctx.note(f'C01: {len(cfgs)} input-form/flag configurations of add_signal compared with the reference definition')
    seen = set()
    for c in cfgs:
        ctx.clause = 'D1-D5'
        T.SYMKIND.clear()
        T.SYMKIND.update({'path': c['path'], 't_profile': c['t_profile']})
        args = {'integrate_path': TRUE if c['ip'] else FALSE, 'integrate_t_profile': TRUE if c['it'] else FALSE,
                'integrate_f_profile': TRUE if c['iff'] else FALSE, 'doppler_smearing': TRUE if c['sm'] else FALSE,
                'bounding_f_range': sym('BFR') if c['bounding'] else NONE}
        if c['bp_profile'] == 'none':
            args['bp_profile'] = NONE
        else:
            T.SYMKIND['BP'] = c['bp_profile']
            args['bp_profile'] = sym('BP')
        label = ', '.join(f'{k}={v}' for k, v in c.items())
        n0 = len(ctx.obligations)
        agree_ref(ctx, fi, REF_ADD_SIGNAL, f'add_signal[{label}]', what=('return', 'substores', 'raises', 'loopstores'),
                  args=args, no_inline=(FR + 'get_index',))
        # keep one obligation per distinct (name-without-config, code, spec) to keep the report readable
        kept = []
        for o in ctx.obligations[n0:]:
            sig = (o.name.split(']', 1)[-1], str(o.detail.get('code')), str(o.detail.get('spec')), o.verdict)
            if sig in seen and o.verdict == 'HOLDS':
                continue
            seen.add(sig)
            kept.append(o)
        ctx.obligations[n0:] = kept
    T.SYMKIND.clear()

    # ---- D1b in-place accumulation must not inherit the caller's dtype
    ctx.clause = 'D1b'
    n_aug = 0
    for pk in ('array', 'scalar'):
        T.SYMKIND.clear()
        T.SYMKIND.update({'path': pk, 't_profile': 'callable'})
        r, I = ctx.run(fi, args={'integrate_path': FALSE, 'integrate_t_profile': FALSE, 'integrate_f_profile': FALSE,
                                 'doppler_smearing': TRUE, 'bounding_f_range': NONE, 'bp_profile': NONE}, no_inline=(FR + 'get_index',))
        for e in I.events:
            if e.kind == 'store' and e.data.get('target') == 'name' and e.data.get('aug') in ('Add', 'Sub', 'Mult', 'Div') \
                    and e.owner == fi.short and e.loops:
                n_aug += 1
                old, rhs = e.data['old'], e.data['rhs']
                # the array updated in place at loop entry: what it was bound to before the loop
                entry = e.loops[-1].get('env_entry', {}).get(e.data['name'])
                before = None
                for ev in I.events:
                    if ev.kind == 'store' and ev.data.get('target') == 'name' and ev.data.get('name') == e.data['name'] \
                            and ev.seq < e.seq and not ev.loops:
                        before = ev.data['value']
                ud = before is not None and user_dtype(before, {'path', 't_profile', 'BP'})
                fl = float_valued(rhs)
                ctx.ob('DTYPE', f'[path given as {pk}] `{e.data["name"]}` is accumulated in place only if its dtype is not the '
                       'caller\'s (an integer path/profile would make `+= float` raise UFuncTypeError or truncate)', fi,
                       not (ud and fl), {'accumulator_initialised_as': pretty(before)[:160] if before is not None else None,
                                         'takes_caller_dtype': ud, 'float_increment': fl, 'increment': pretty(rhs)[:120]}, node=e.node)
    T.SYMKIND.clear()
    ctx.require(n_aug >= 2, 'add_signal: in-place accumulations of the smearing loop not found (rule would be vacuous)')

    # ---- D4 spacing of the Doppler-smearing copies: the n copies of a time sample are centred Δ/n apart, Δ the change of the
    # path centre over that sample (so that they cover [path(t_i), path(t_{i+1})) without counting the end point twice).
    # Stated on whatever evenly spaced family of centres the code builds: a loop-carried centre advanced by a fixed increment,
    # or a tabulated np.linspace family.
    ctx.clause = 'D4'
    T.SYMKIND.clear()
    T.SYMKIND.update({'path': 'callable', 't_profile': 'callable'})
    r4, I4 = ctx.run(fi, args={'integrate_path': FALSE, 'integrate_t_profile': FALSE, 'integrate_f_profile': FALSE,
                               'doppler_smearing': TRUE, 'bounding_f_range': NONE, 'bp_profile': NONE}, no_inline=(FR + 'get_index',))
    T.SYMKIND.clear()
    nsub = sym('smearing_subsamples')

    def untiled(t):
        return T.subst(t, lambda a: a.args[1][0] if (a.kind == 'call' and a.args[0] in ('tile_cols', 'tile_rows') and a.args[1]) else None)
    steps = []
    for e in I4.events:
        if e.kind == 'store' and e.data.get('target') == 'name' and e.loops and e.owner == fi.short \
                and any(e.data['name'] in l.get('carried', ()) for l in e.loops):
            v = e.data['value']
            lv = [a for a in v.atoms() if a.kind == 'loopvar']
            if len(lv) == 1 and any(x.kind == 'call' and x.args[0] == 'apply' and x.args[1] and x.args[1][0].key == sym('path').key
                                    for x in T.all_atoms(v).values()):
                inc = untiled(v - Term.of(lv[0]))
                # (a centre frequency, not the accumulated signal: nothing but the path is applied in it)
                if not any(x.kind == 'call' and x.args[0] == 'apply' and x.args[1] and x.args[1][0].key != sym('path').key
                           for x in T.all_atoms(inc).values()):
                    steps.append((e, inc))
    # (a centre that the engine recognised as an induction variable -- x_k = x_0 + k*c -- carries its increment c in the loop)
    for e in I4.events:
        if e.kind == 'loop' and e.owner == fi.short:
            for nm_, c_ in (e.data['info'].get('induction') or {}).items():
                if any(x.kind == 'call' and x.args[0] == 'apply' and x.args[1] and x.args[1][0].key == sym('path').key
                       for x in T.all_atoms(c_).values()):
                    inc = untiled(c_)
                    if not any(x.kind == 'call' and x.args[0] == 'apply' and x.args[1] and x.args[1][0].key != sym('path').key
                               for x in T.all_atoms(inc).values()):
                        steps.append((e, inc))
    for e in I4.events:
        vals = [e.data.get('value')] if e.kind == 'store' else []
        for v in vals:
            if v is None:
                continue
            for a in T.all_atoms(v).values():
                if a.kind == 'seq' and a.args[2].key == nsub.key and any(
                        x.kind == 'call' and x.args[0] == 'apply' and x.args[1] and x.args[1][0].key == sym('path').key
                        for x in T.all_atoms(a.args[0]).values()):
                    if all(a.args[1].key != s_.key for _, s_ in steps):
                        steps.append((e, untiled(a.args[1])))
    if not steps:
        ctx.ob('FORMULA', 'Doppler smearing: the family of smeared centres was not recognised (neither a centre advanced by a fixed '
               'increment nor a tabulated evenly spaced family)', fi, None, {}, node=fi.node, construct='smearing centres')
    for e, st_ in steps:
        # Δ as the code has it: np.diff(P) or P[1:] - P[:-1] for the path evaluated on the extended time axis
        P = [x for x in T.all_atoms(st_).values() if x.kind == 'call' and x.args[0] == 'apply' and x.args[1]
             and x.args[1][0].key == sym('path').key]
        ok_ = False
        if P:
            Pt = Term.of(P[0])
            d1 = T.mk_call('diff', [Pt])
            d2 = T.mk_sub(Pt, T.mk_slice(Term.num(1), NONE, NONE)) - T.mk_sub(Pt, T.mk_slice(NONE, Term.num(-1), NONE))
            ok_ = any(T.compare(st_ * nsub, d)[0] == T.EQUAL for d in (d1, d2))
        ctx.ob('FORMULA', 'Doppler smearing: successive copies of a time sample are centred (path(t_{i+1}) - path(t_i)) / '
               'smearing_subsamples apart', fi, ok_, {'spacing': pretty(st_)[:200]}, node=e.node,
               construct=e.text()[:80] + ' [copy spacing]')

    # ---- closed-form families (the shipped path / profile functions)
    ctx.clause = 'D6'
    for short, (lam, argn) in REF_FUNCS.items():
        f = ctx.func(short)
        I = ctx.interp()
        dargs = {p: I.eval_default(f, d) for p, d in f.defaults().items()}
        dargs = {p: v for p, v in dargs.items() if v.single_atom() is not None and v.single_atom().kind in ('str', 'bool')}
        r = I.run(f, args=dargs)
        ctx._account(I)
        I2 = ctx.interp()
        ref = ctx.spec(f, lam, I=I2)
        args = [sym(a) for a in argn]
        va = ctx.apply(I, f, r.ret, args)
        vb = ctx.apply(I2, f, ref, args)
        ctx.formula('FORMULA', f'{f.name}: closed form', f, va, vb, node=f.node, construct=f'return of {f.name}')
    # sinc^2 in its other modes (the default configuration above is width_mode='crossing', trunc=True): the first zero crossing
    # of an FWHM-specified profile is (width/2)/0.4429..., and that -- not width/2 -- is where truncation cuts
    for cfg_, lam_ in (({'width_mode': lift('fwhm'), 'trunc': T.TRUE},
                        'lambda f, f_center: np.where(np.abs(f - f_center) < (width / 2) / 0.442946470689452, '
                        'np.sinc((f - f_center) / ((width / 2) / 0.442946470689452)), 0)**2'),
                       ({'width_mode': lift('fwhm'), 'trunc': T.FALSE},
                        'lambda f, f_center: np.sinc((f - f_center) / ((width / 2) / 0.442946470689452))**2'),
                       ({'width_mode': lift('crossing'), 'trunc': T.FALSE},
                        'lambda f, f_center: np.sinc((f - f_center) / (width / 2))**2')):
        f = ctx.func('funcs.f_profiles.sinc2_f_profile')
        I = ctx.interp()
        r = I.run(f, args=dict(cfg_))
        ctx._account(I)
        I2 = ctx.interp()
        args = [sym('f'), sym('f_center')]
        va = ctx.apply(I, f, r.ret, args)
        vb = ctx.apply(I2, f, ctx.spec(f, lam_, I=I2), args)
        tag_ = ', '.join(f'{k}={pretty(v)}' for k, v in cfg_.items())
        ctx.formula('FORMULA', f'sinc2_f_profile[{tag_}]: closed form', f, va, vb, node=f.node, construct=f'return of sinc2_f_profile [{tag_}]')
    # families with their own state / loops: compared through a reference transcription of the whole factory,
    # applying the returned closure to a symbolic argument in both
    for short, ref, argn, cfgs in (
            ('funcs.f_profiles.voigt_f_profile', REF_VOIGT, ['f', 'f_center'], [{}]),
            ('funcs.f_profiles.multiple_gaussian_f_profile', REF_MULTI_GAUSS, ['f', 'f_center'], [{}]),
            ('funcs.paths.simple_rfi_path', REF_RFI, ['t'],
             [{'spread_type': lift(a), 'rfi_type': lift(b)} for a in ('uniform', 'normal', 'other') for b in ('stationary', 'random_walk')]),
            ('funcs.t_profiles.periodic_gaussian_t_profile', REF_PERIODIC, ['t'],
             [{'pulse_direction': lift(d)} for d in ('rand', 'up', 'down')])):
        f = ctx.func(short)
        for cfg in cfgs:
            I = ctx.interp()
            r = I.run(f, args=dict(cfg))
            ctx._account(I)
            rf = ctx.ref_func(f, ref)
            I2 = ctx.interp()
            r2 = I2.run(rf, args=dict(cfg))
            args = [sym(a) for a in argn]
            n1, n2 = len(I.events), len(I2.events)
            va = ctx.apply(I, f, r.ret, args)
            vb = ctx.apply(I2, f, r2.ret, args)
            tag = ', '.join(f'{k}={pretty(v)}' for k, v in cfg.items())
            o_val = ctx.formula('FORMULA', f'{f.name}[{tag}]: value of the returned function == reference definition', f, va, vb,
                                node=f.node, construct=f'return of {f.name} [{tag}]')
            ea = [e for e in I.events[n1:] if e.kind == 'store' and e.loops and e.data.get('target') == 'name'
                  and any(e.data['name'] in l.get('carried', ()) for l in e.loops)]
            eb = [e for e in I2.events[n2:] if e.kind == 'store' and e.loops and e.data.get('target') == 'name'
                  and any(e.data['name'] in l.get('carried', ()) for l in e.loops)]
            if len(ea) != len(eb) and o_val.verdict == 'HOLDS':
                pass    # (the accumulation was rewritten, e.g. as a sum over a generator, and the value is decided equal)
            elif len(ea) != len(eb):
                ctx.ob('FORMULA', f'{f.name}[{tag}]: same accumulation steps as the reference', f, False,
                       {'code': [e.text()[:70] for e in ea], 'reference': [e.text()[:70] for e in eb]}, node=f.node,
                       construct=f'loop accumulations of {f.name} [{tag}]')
            else:
                for x, y in zip(ea, eb):
                    ctx.formula('FORMULA', f'{f.name}[{tag}]: accumulation step == reference', f, x.data['value'], y.data['value'],
                                node=x.node, construct=x.text()[:70] + f' [{tag}]')
            ra = [e for e in I.events[n1:] if e.kind == 'raise']
            rb = [e for e in I2.events[n2:] if e.kind == 'raise']
            ctx.ob('FORMULA', f'{f.name}[{tag}]: rejects the same configurations as the reference', f, len(ra) == len(rb),
                   {'code': [e.text()[:60] for e in ra], 'reference': [e.text()[:60] for e in rb]}, node=f.node,
                   construct=f'raise paths of {f.name} [{tag}]')
    for short, lam, argn in (('funcs.func_utils.gaussian', 'lambda x, x0, sigma: np.exp(-np.power(x - x0, 2.) / (2 * np.power(sigma, 2.)))', ['x', 'x0', 'sigma']),
                             ('funcs.func_utils.lorentzian', 'lambda x, x0, gamma: 1 / (1 + np.power((x - x0) / gamma, 2))', ['x', 'x0', 'gamma']),
                             ('funcs.func_utils.voigt_fwhm', 'lambda g_width, l_width: 0.5346 * l_width + np.sqrt(0.2166 * l_width**2 + g_width**2)', ['g_width', 'l_width'])):
        f = ctx.func(short)
        r, I = ctx.run(f)
        I2 = ctx.interp()
        vb = ctx.apply(I2, f, ctx.spec(f, lam, I=I2), [sym(a) for a in argn])
        ctx.formula('FORMULA', f'{f.name}: closed form', f, r.ret, vb, node=f.node, construct=f'return {f.name}')
    f = ctx.func('funcs.t_profiles.constant_t_profile')
    I = ctx.interp()
    r = I.run(f)
    T.SYMKIND['tt'] = 'array'
    va = ctx.apply(I, f, r.ret, [sym('tt')])
    ctx.formula('FORMULA', 'constant_t_profile(array) == full(shape, level)', f, va,
                ctx.spec(f, 'np.full(np.array(tt).shape, level)', env={'tt': sym('tt')}), node=f.node, construct='t_profile(array)')
    T.SYMKIND['tt'] = 'scalar'
    va = ctx.apply(I, f, r.ret, [sym('tt')])
    ctx.formula('FORMULA', 'constant_t_profile(scalar) == level', f, va, sym('level'), node=f.node, construct='t_profile(scalar)')
    T.SYMKIND.clear()
    # bounding range on: the columns computed are [clip(i0), clip(i1)) with i = get_index(f) -- the plain rounded offset; a clamped
    # index could not name the exclusive stop `fchans`, and a range reaching the band edge would leave the top column at zero
    ctx.clause = 'D7'
    gi = ctx.func('frame.Frame.get_index')
    rgi, _ = ctx.run(gi)
    ctx.formula('FORMULA', 'get_index is the unclamped rounded channel offset round((f - fmin)/df) (bounded injection reaches the '
                'top channel through the exclusive stop index fchans)', gi, rgi.ret,
                ctx.spec(gi, 'np.round((frequency - self.fmin) / self.df).astype(int)'), node=gi.node, construct='return get_index')


META = {
    'technique': 'static analysis: symbolic value analysis of Frame.add_signal per input-form/flag configuration against a '
                 'reference definition (FORMULA/AGREE on the returned frame, the data update, the rejecting paths and the '
                 'smearing loop body/trip count), closed forms of the shipped path/profile families',
    'level': 'Decides from the source, for every combination of input forms (callable/array/scalar) and flags covered, that '
             "the returned array is T(t) * f_profile(ff, path) * B(f) on meshgrids of the frame's own axes (arguments in that "
             'order), that sub-sample averaging reshapes to (N, subsamples) and averages the sub-sample axis, that smearing '
             'adds n copies divided by n while stepping the path by diff(path)/n, that array inputs are validated against '
             'exactly the required length (tchans+1 for a smeared path), and the closed forms of the shipped path/profile '
             'functions. Pixel values and float rounding are not decided. Also decided: the scalar form of every component '
             'accepts numpy scalars (SCALARFORM), an array bandpass is one value per column also under frequency sub-sampling,'
             " an empty bounding range yields the empty/zero result, and the sub-sample time grids start at the frame's own "
             'first time stamp. Also decided: the copies averaged for Doppler smearing are centred (path(t_{i+1}) - path(t_i))'
             ' / smearing_subsamples apart, on whatever evenly spaced family of centres the code builds.',
    'note': 'Real arithmetic; numpy meshgrid/reshape/mean/diff are opaque functions compared by arguments; user callables are opaque.',
}
