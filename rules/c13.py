"""C13 Constant-signal helper == general injection (DESIGN §4.C13)."""
import ast
from vstatic import terms as T
from vstatic.terms import sym, Term, Atom, lift, pretty, TRUE, FALSE, NONE
from .common import agree_ref
from .c06 import lower_ok

FR = 'frame.Frame.'

REF = '''
def add_constant_signal(self, f_start, drift_rate, level, width, f_profile_type='sinc2', doppler_smearing=False):
    f_start = unit_utils.get_value(f_start, u.Hz)
    drift_rate = unit_utils.get_value(drift_rate, u.Hz / u.s)
    width = unit_utils.get_value(width, u.Hz)
    start_index = self.get_index(f_start)
    px_width_offset = int(np.ceil(2 * width / self.df))
    # General injection evaluates the linear path f_start + drift*t on the frame's OWN time axis (first row ts[0], last row
    # ts[-1], one step further with smearing): the box must span the path's excursion over exactly those times, whatever
    # ts[0] is (a frame inside a cadence injection, or a consolidated cadence, does not start at 0)
    px_first = drift_rate * self.ts[0] / self.df
    px_last = drift_rate * self.ts[-1] / self.df
    if doppler_smearing:
        px_last += drift_rate * self.dt / self.df
    bounding_start_index = start_index + int(np.floor(min(px_first, px_last))) - px_width_offset
    bounding_stop_index = start_index + int(np.ceil(max(px_first, px_last))) + px_width_offset + 1
    bounding_min_index = max(bounding_start_index, 0)
    bounding_max_index = min(bounding_stop_index, self.fchans)
    if f_profile_type == 'gaussian':
        f_profile = f_profiles.gaussian_f_profile(width)
    elif f_profile_type == 'lorentzian':
        f_profile = f_profiles.lorentzian_f_profile(width)
    elif f_profile_type == 'voigt':
        f_profile = f_profiles.voigt_f_profile(width, width)
    elif f_profile_type == 'sinc2':
        f_profile = f_profiles.sinc2_f_profile(width)
    elif f_profile_type == 'box':
        f_profile = f_profiles.box_f_profile(width)
    else:
        raise ValueError('Unsupported f_profile for constant signal!')
    return self.add_signal(path=paths.constant_path(f_start, drift_rate),
                           t_profile=t_profiles.constant_t_profile(level),
                           f_profile=f_profile,
                           bp_profile=bp_profiles.constant_bp_profile(level=1),
                           bounding_f_range=(self.get_frequency(bounding_min_index),
                                             self.get_frequency(bounding_max_index)),
                           doppler_smearing=doppler_smearing,
                           smearing_subsamples=max(1, int(np.ceil(abs(drift_rate) / self.unit_drift_rate))))
'''


def run(ctx):
    fi = ctx.func(FR + 'add_constant_signal')
    types = ['gaussian', 'lorentzian', 'voigt', 'sinc2', 'box', 'unsupported-name']
    for ftype in types:
        for sm in (FALSE, TRUE):
            ctx.clause = 'D1'
            tag = f'{ftype}, smearing={sm.key == TRUE.key}'
            (r, I), (rr, IR) = agree_ref(ctx, fi, REF, f'add_constant_signal[{tag}]', what=('raises',),
                                         args={'f_profile_type': lift(ftype), 'doppler_smearing': sm},
                                         no_inline=(FR + 'add_signal', FR + 'get_index'))
            ca = [e for e in I.events if e.kind == 'call' and e.data.get('name') == FR + 'add_signal']
            cb = [e for e in IR.events if e.kind == 'call' and e.data.get('name') == FR + 'add_signal']
            if ftype == 'unsupported-name':
                ctx.ob('AGREE', 'an unknown profile type is rejected, nothing is injected', fi, not ca and not cb
                       and any(e.kind == 'raise' for e in I.events), {'calls': [e.text()[:60] for e in ca]}, node=fi.node,
                       construct='else: raise')
                continue
            ctx.require(cb, 'reference does not delegate (internal)')
            if len(ca) != 1:
                ctx.ob('AGREE', f'[{tag}] delegates to general injection exactly once', fi, False, {'calls': [e.text()[:80] for e in ca]},
                       node=fi.node, construct='self.add_signal(...)')
                continue
            ba, bb = ca[0].data['bound'], cb[0].data['bound']
            for p in ('path', 't_profile', 'f_profile', 'bp_profile', 'doppler_smearing', 'integrate_path',
                      'integrate_t_profile', 'integrate_f_profile', 't_subsamples', 'f_subsamples'):
                va, vb = ba.get(p, NONE), bb.get(p, NONE)
                # closures: compare constructor + captured values (names of the defining function are the same module)
                ctx.formula('AGREE', f'[{tag}] general injection receives {p} == {("linear path" if p == "path" else p)} of the definition',
                            fi, va, vb, node=ca[0].node, construct=f'add_signal({p}=...) [{ftype}]' if p == 'f_profile' else f'add_signal({p}=...)')
            ctx.clause = 'D2'
            ctx.formula('FORMULA', f'[{tag}] smearing_subsamples == max(1, ceil(|drift_rate| / unit_drift_rate))', fi,
                        ba.get('smearing_subsamples', NONE), bb['smearing_subsamples'], node=ca[0].node,
                        construct='add_signal(smearing_subsamples=...)')
            ctx.clause = 'D3'
            ctx.formula('FORMULA', f'[{tag}] bounding range == [start + floor(min(D,0)) - ceil(2w/df), start + ceil(max(D,0)) + '
                        f'ceil(2w/df) + 1) clipped to the band', fi, ba.get('bounding_f_range', NONE), bb['bounding_f_range'],
                        node=ca[0].node, construct='add_signal(bounding_f_range=...)')
    # the general injection must honour the helper's range: its clamp keeps the exclusive stop index up to fchans
    ctx.clause = 'D3'
    asig = ctx.func(FR + 'add_signal')
    T.NOTNONE.update({'path', 't_profile', 'f_profile', 'BFR'})
    T.SYMKIND.update({'path': 'callable', 't_profile': 'callable'})
    r, I = ctx.run(asig, args={'bounding_f_range': sym('BFR'), 'bp_profile': NONE, 'integrate_path': FALSE, 'integrate_t_profile': FALSE,
                               'integrate_f_profile': FALSE, 'doppler_smearing': FALSE}, no_inline=(FR + 'get_index',))
    T.SYMKIND.clear()
    ds = [e for e in I.events if e.kind == 'store' and e.data.get('target') == 'sub' and ast.unparse(e.data['base_node']) == 'self.data']
    if not ds:
        ctx.ob('FORMULA', 'general injection updates self.data[:, lo:hi] in place', asig, False, {}, node=asig.node,
               construct='self.data[:, lo:hi] += signal')
        ds = None
    want = None if ds is None else ctx.spec(asig, 'ANY[:, min(max(self.get_index(BFR[0]), 0), self.fchans):min(max(self.get_index(BFR[1]), 0), self.fchans)]',
                    env={'ANY': sym('ANY'), 'BFR': sym('BFR')}, I=ctx.interp(no_inline=(FR + 'get_index',)))
    if ds is not None:
      ctx.formula('FORMULA', 'general injection maps the requested range to columns [clip(i0, 0, fchans), clip(i1, 0, fchans)) — the '
                'exclusive stop may reach fchans, so the helper\'s box keeps the top channel', asig, ds[0].data['key'],
                want.single_atom().args[1], node=ds[0].node, construct=ds[0].text() + ' [columns]')
    # the helper hands its box to the general injection as FREQUENCIES, which come back through get_index: that conversion must
    # be the plain rounded offset -- clamped into [0, fchans-1] it would turn the exclusive stop `fchans` into `fchans-1` and the
    # helper could never fill the top channel (the clause is stated here, on the function C13 depends on, and in C06)
    gi = ctx.func(FR + 'get_index')
    rgi, _ = ctx.run(gi)
    ctx.formula('FORMULA', 'get_index is the unclamped rounded channel offset round((f - fmin)/df): the helper\'s exclusive stop index '
                'survives the round trip through frequencies', gi, rgi.ret,
                ctx.spec(gi, 'np.round((frequency - self.fmin) / self.df).astype(int)'), node=gi.node, construct='return get_index')
    # the smeared path and the helper's bounding box are computed from the SAME time axis: the extended axis the general
    # injection evaluates a smeared path on is derived from the frame's current `ts` on every access (a stored copy would go
    # stale when the axis is replaced, e.g. by the cadence's temporary shift -- the box would then follow `ts`, the path not)
    te = ctx.func(FR + 'ts_ext')
    rte, _I = ctx.run(te, expand=False)
    ctx.formula('FORMULA', 'the extended time axis of a smeared injection is the current axis plus one step: '
                'ts_ext == append(ts, ts[-1] + dt), recomputed from ts', te, rte.ret,
                ctx.spec(te, 'np.append(self.ts, self.ts[-1] + self.dt)', I=ctx.interp(expand=False)), node=te.node,
                construct='return ts_ext')
    # RANGE: at every call site of Frame.add_signal in the package the sub-step count is provably >= 1
    ctx.clause = 'D2'
    sites = 0
    for f2 in ctx.prog.functions.values():
        if isinstance(f2.node, ast.Lambda) or f2 is fi:
            continue
        for n in ast.walk(f2.node):
            if isinstance(n, ast.Call) and isinstance(n.func, ast.Attribute) and n.func.attr == 'add_signal' and \
                    any(kw.arg == 'smearing_subsamples' for kw in n.keywords):
                sites += 1
                ctx.ob('RANGE', 'explicit smearing_subsamples at a package call site', f2, None, {'call': ast.unparse(n)[:100]}, node=n)
    r, I = ctx.run(fi, args={'f_profile_type': lift('box')}, no_inline=(FR + 'add_signal', FR + 'get_index'))
    ca = [e for e in I.events if e.kind == 'call' and e.data.get('name') == FR + 'add_signal']
    if ca:
        v = ca[0].data['bound'].get('smearing_subsamples')
        def at_least_one(t):
            c = t.const()
            if c is not None:
                return c >= 1
            a = t.single_atom()
            if a is not None and a.kind == 'call' and a.args[0] in ('max', 'maximum'):
                return any(at_least_one(x) for x in a.args[1])
            if a is not None and a.kind == 'call' and a.args[0] in ('min', 'minimum'):
                return all(at_least_one(x) for x in a.args[1])
            return False
        ge1 = v is not None and at_least_one(v)
        ctx.ob('RANGE', 'smearing_subsamples passed by the helper is >= 1 (it is a divisor and a loop count)', fi, ge1 or None,
               {'value': pretty(v) if v is not None else None}, node=ca[0].node, construct='smearing_subsamples >= 1')


META = {
    'technique': 'static analysis: symbolic value analysis of the delegation call (bound arguments, captured closure values) '
                 'against a reference definition per profile type and smearing flag (AGREE/FORMULA), interval check (RANGE)',
    'level': 'Decides from the source that the helper delegates exactly once to general injection with the linear path, '
             'constant time profile, unit bandpass, the named frequency profile constructed from the width (voigt with (w, '
             'w)), the smearing flag, max(1, ceil(|drift|/unit drift)) sub-steps and a bounding range whose width/drift '
             'margins are rounded outward (never truncated to zero), and that unknown profile names are rejected. Pixelwise '
             "equality with the general signal is not decided. The bounding box is required to span the path's excursion over "
             "the frame's own time axis (ts[0] .. ts[-1]), not over 0 .. (tchans-1)*dt.",
    'note': 'Real arithmetic; closures compared by defining function and captured values; the profile constructors themselves are '
            'checked under C01.',
}
