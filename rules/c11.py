"""C11 Noise and SNR bookkeeping (DESIGN §4.C11)."""
import ast
from vstatic import terms as T
from vstatic.terms import sym, Term, Atom, lift, pretty
from .common import agree_ref, selfattr, inline_locals, new_helpers_of

FR = 'frame.Frame.'
DS = 'voltage.data_stream.'
DIST = ('distributions.chi2', 'distributions.gaussian',
        'sample_from_obs.sample_gaussian_params', FR + '_update_noise_frame_stats')

REF_CHI2 = '''
def chi2(x_mean, chi2_df, shape, seed=None):
    rng = np.random.default_rng(seed)
    return rng.chisquare(df=chi2_df, size=shape) * x_mean / chi2_df
'''
REF_GAUSS = '''
def gaussian(x_mean, x_std, shape, seed=None):
    rng = np.random.default_rng(seed)
    return rng.normal(x_mean, x_std, shape)
'''
REF_TRUNC = '''
def truncated_gaussian(x_mean, x_std, x_min, shape, seed=None):
    return np.maximum(gaussian(x_mean, x_std, shape, seed), x_min)
'''
REF_SAMPLE = '''
def sample_gaussian_params(x_mean_array, x_std_array, x_min_array=None, seed=None):
    rng = np.random.default_rng(seed)
    x_mean = rng.choice(x_mean_array)
    x_std = rng.choice(x_std_array)
    x_mean = np.maximum(x_mean, x_std)
    if x_min_array is not None:
        x_min = rng.choice(x_min_array)
        return x_mean, x_std, x_min
    return x_mean, x_std
'''
REF_ADD_NOISE = '''
def add_noise(self, x_mean, x_std=None, x_min=None, noise_type='chi2'):
    if noise_type == 'chi2':
        noise = distributions.chi2(x_mean, self.chi2_df, self.shape, seed=self.rng)
        x_std = np.sqrt(2 * self.chi2_df) * x_mean / self.chi2_df
    elif noise_type in ['normal', 'gaussian']:
        if x_std is not None:
            if x_min is not None:
                noise = distributions.truncated_gaussian(x_mean, x_std, x_min, self.shape, seed=self.rng)
            else:
                noise = distributions.gaussian(x_mean, x_std, self.shape, seed=self.rng)
        else:
            raise ValueError("x_std must be given")
    else:
        raise ValueError("not a valid noise type")
    self.data += noise
    set_to_param = (self.noise_mean == self.noise_std == 0)
    if set_to_param:
        self.noise_mean, self.noise_std = x_mean, x_std
    else:
        self._update_noise_frame_stats()
    return noise
'''
REF_FROM_OBS = '''
def add_noise_from_obs(self, x_mean_array=None, x_std_array=None, x_min_array=None, share_index=True, noise_type='chi2'):
    if (x_mean_array is None and x_std_array is None and x_min_array is None):
        path = pathlib.Path(__file__).parent.resolve() / "assets/sample_noise_params.npy"
        sample_noise_params = np.load(path)
        obs_dt = 1.4316557653333333
        scale_factor = self.dt / obs_dt
        x_mean_array = sample_noise_params[:, 0] * scale_factor
        x_std_array = sample_noise_params[:, 1] * scale_factor
        x_min_array = sample_noise_params[:, 2] * scale_factor
    if noise_type == 'chi2':
        x_mean = self.rng.choice(x_mean_array)
        noise = distributions.chi2(x_mean, self.chi2_df, self.shape, seed=self.rng)
        x_std = np.sqrt(2 * self.chi2_df) * x_mean / self.chi2_df
    elif noise_type in ['normal', 'gaussian']:
        if x_min_array is not None:
            if share_index:
                if (len(x_mean_array) != len(x_std_array) or len(x_mean_array) != len(x_min_array)):
                    raise IndexError('same length')
                i = self.rng.integers(len(x_mean_array))
                x_mean, x_std, x_min = (x_mean_array[i], x_std_array[i], x_min_array[i])
            else:
                x_mean, x_std, x_min = sample_from_obs.sample_gaussian_params(x_mean_array, x_std_array, x_min_array, seed=self.rng)
            noise = distributions.truncated_gaussian(x_mean, x_std, x_min, self.shape, seed=self.rng)
        else:
            if share_index:
                if len(x_mean_array) != len(x_std_array):
                    raise IndexError('same length')
                i = self.rng.integers(len(x_mean_array))
                x_mean, x_std = x_mean_array[i], x_std_array[i]
            else:
                x_mean, x_std = sample_from_obs.sample_gaussian_params(x_mean_array, x_std_array, seed=self.rng)
            noise = distributions.gaussian(x_mean, x_std, self.shape, seed=self.rng)
    else:
        raise ValueError("not a valid noise type")
    self.data += noise
    set_to_param = (self.noise_mean == self.noise_std == 0)
    if set_to_param:
        self.noise_mean, self.noise_std = x_mean, x_std
    else:
        self._update_noise_frame_stats()
    return noise
'''
REF_UPDATE_STATS = '''
def _update_noise_frame_stats(self):
    clipped_data = sigma_clip(self.data, sigma=3, maxiters=5, masked=False)
    self.noise_mean, self.noise_std = np.mean(clipped_data), np.std(clipped_data)
'''
REF_DS_ADD_NOISE = '''
def add_noise(self, v_mean, v_std):
    noise_func = lambda ts: v_mean + v_std * self.rng.standard_normal(size=len(ts))
    self.noise_std = xp.sqrt(self.noise_std**2 + v_std**2)
    self.noise_sources.append(noise_func)
'''


def raises_guarded(I, fi):
    """conditions under which the function raises"""
    return [e for e in I.events if e.kind == 'raise' and e.owner == fi.short]


def run(ctx):
    # ---- D1 distributions
    ctx.clause = 'D1'
    for short, ref, title in (('distributions.chi2', REF_CHI2, 'chi2 = rng.chisquare(k, shape) * x_mean / k'),
                              ('distributions.gaussian', REF_GAUSS, 'gaussian = rng.normal(x_mean, x_std, shape)'),
                              ('distributions.truncated_gaussian', REF_TRUNC, 'truncated = maximum(gaussian, x_min)'),
                              ('sample_from_obs.sample_gaussian_params', REF_SAMPLE,
                               'each parameter drawn from its own table, mean raised to at least the deviation')):
        agree_ref(ctx, ctx.func(short), ref, title, what=('return',), rule='FORMULA')
    init = ctx.func(FR + '__init__')
    derived, _ = ctx.exp.build(ctx.prog.cls('frame.Frame'))
    ctx.require('chi2_df' in derived, 'Frame.chi2_df is no longer a pure function of df, dt')
    ctx.formula('FORMULA', 'chi2_df == 4*round(df*dt)', init, derived['chi2_df'], ctx.spec(init, '4 * round(self.df * self.dt)',
                                                                                            I=ctx.interp(expand=False)),
                node=init.node, construct='self.chi2_df')

    # ---- D2/D3/D4 noise routines
    ctx.clause = 'D3'
    an = ctx.func(FR + 'add_noise')
    (r, I), _ = agree_ref(ctx, an, REF_ADD_NOISE, 'add_noise: draw, add, book-keep (requested parameters on an empty frame, '
                          'sigma-clipped re-estimate otherwise)', what=('return', 'heap', 'raises'), no_inline=DIST, expand=False)
    ao = ctx.func(FR + 'add_noise_from_obs')
    # (the parameter tables are numeric arrays: an entry drawn from one is a number, never None)
    T.SYMKIND.update({'x_mean_array': 'array', 'x_std_array': 'array', 'x_min_array': 'array'})
    (r2, I2), _ = agree_ref(ctx, ao, REF_FROM_OBS, 'add_noise_from_obs: table sampling (one shared index when requested), draw, add, '
                            'book-keep', what=('return', 'heap', 'raises'), no_inline=DIST, expand=False)
    for k_ in ('x_mean_array', 'x_std_array', 'x_min_array'):
        T.SYMKIND.pop(k_, None)
    ctx.clause = 'D2'
    for fi, II, rr in ((an, I, r), (ao, I2, r2)):
        # (everything the entry function does, also through another noise routine it delegates to)
        adds = [e for e in II.events if e.kind == 'store' and e.data.get('target') == 'attr' and e.data.get('name') == 'data'
                and e.data['base'].key == sym('self').key]
        ctx.require(adds, f'{fi.short}: no accumulation into self.data found')
        # (one addition per call: several statements are fine when their path conditions exclude one another, e.g. one per
        #  early-returning branch)
        excl = all(T.compare(T.mk_and([adds[i].cond(), adds[j].cond()]), T.FALSE)[0] == T.EQUAL
                   for i in range(len(adds)) for j in range(i + 1, len(adds)))
        ok = all(e.data.get('aug') == 'Add' for e in adds) and (len(adds) == 1 or excl)
        ctx.ob('AGREE', 'data is changed exactly once, by in-place addition', fi, ok, {'stores': [e.text() for e in adds]},
               node=adds[0].node)
        if ok:
            added = adds[-1].data['rhs']
            for e in reversed(adds[:-1]):
                added = T.mk_ite(e.cond(), e.data['rhs'], added)
            ctx.formula('AGREE', 'the returned array is exactly what was added to the data', fi, rr.ret, added,
                        node=adds[0].node, construct='return noise')
        # share_index guard: raises IndexError when lengths differ
    rz = ctx.func(FR + 'zero_data')
    r, I = ctx.run(rz, expand=False)
    ctx.formula('FORMULA', 'zero_data resets noise_mean', rz, selfattr(r, 'noise_mean') or T.NONE, lift(0), node=rz.node,
                construct='self.noise_mean')
    ctx.formula('FORMULA', 'zero_data resets noise_std', rz, selfattr(r, 'noise_std') or T.NONE, lift(0), node=rz.node,
                construct='self.noise_std')
    ctx.formula('FORMULA', 'zero_data zeroes the data', rz, selfattr(r, 'data') or T.NONE, ctx.spec(rz, 'np.zeros(self.shape)',
                                                                                                 I=ctx.interp(expand=False)),
                node=rz.node, construct='self.data')
    agree_ref(ctx, ctx.func(FR + '_update_noise_frame_stats'), REF_UPDATE_STATS, 'sigma-clipped estimator', what=('heap',),
              expand=False)

    # ---- D5 SNR relations
    ctx.clause = 'D5'
    gi, gs = ctx.func(FR + 'get_intensity'), ctx.func(FR + 'get_snr')
    r, I = ctx.run(gi)
    ctx.formula('FORMULA', 'get_intensity == snr * noise_std / sqrt(tchans)', gi, r.ret,
                ctx.spec(gi, 'snr * self.noise_std / np.sqrt(self.tchans)'), node=gi.node, construct='return get_intensity')
    r2, I2 = ctx.run(gs)
    ctx.formula('FORMULA', 'get_snr == intensity * sqrt(tchans) / noise_std', gs, r2.ret,
                ctx.spec(gs, 'intensity * np.sqrt(self.tchans) / self.noise_std'), node=gs.node, construct='return get_snr')
    r3, I3 = ctx.run(gs, args={'intensity': r.ret})
    ctx.formula('AGREE', 'get_snr(get_intensity(s)) == s', gs, r3.ret, sym('snr'), node=gs.node, construct='get_snr∘get_intensity')
    for fi, II in ((gi, I), (gs, I2)):
        rs = raises_guarded(II, fi)
        ok = len(rs) == 1 and T.mk_and(rs[0].pc).key == ctx.spec(fi, 'self.noise_std == 0').key
        ctx.ob('GUARDDOM', 'raises exactly when no noise estimate exists (noise_std == 0)', fi, ok,
               {'raises': [(e.text(), [pretty(c) for c in e.pc]) for e in rs]}, node=fi.node, construct='noise_std == 0 guard')

    # ---- D6 voltage stream noise
    ctx.clause = 'D6'
    dsa = ctx.func(DS + 'DataStream.add_noise')
    (r, I), (rr, IR) = agree_ref(ctx, dsa, REF_DS_ADD_NOISE, 'stream noise deviations add in quadrature', what=('heap',),
                                 expand=False, rule='FORMULA', skip_attrs=('noise_sources',), ref_attrs_only=True)

    def appended(II):
        es = [e for e in II.events if e.kind == 'call' and e.data.get('name') == '.append'
              and 'noise_sources' in ast.unparse(e.data['recv_node'])]
        return es
    a, b = appended(I), appended(IR)
    repl = [e for e in I.events if e.kind == 'store' and e.data.get('name') == 'noise_sources']
    ctx.ob('AGREE', 'noise sources are appended, never replaced', dsa, len(a) == 1 and not repl,
           {'appends': [e.text() for e in a], 'assignments': [e.text() for e in repl]},
           node=(repl[0].node if repl else (a[-1].node if a else dsa.node)), construct='noise_sources.append')
    if a:
        va = ctx.apply(I, dsa, a[-1].data['args'][1], [sym('ts')])
        vb = ctx.apply(IR, dsa, b[-1].data['args'][1], [sym('ts')])

        def any_generator(t):
            """which generator object draws the samples is C10/C12 business: compare the distribution only"""
            def fn(x):
                if x.kind == 'call' and x.args[0] == 'standard_normal' and x.args[1]:
                    return T.mk_call('standard_normal', [sym('GENERATOR')] + list(x.args[1][1:]), x.args[2])
                return None
            return T.subst(t, fn)
        va, vb = any_generator(va), any_generator(vb)
        ctx.formula('FORMULA', 'noise source == v_mean + v_std * <generator>.standard_normal(len(ts))', dsa, va, vb,
                    node=a[-1].node, construct='noise_func')
    # quadrature addition presupposes INDEPENDENT sources: a further source's generator must be seeded with fresh numbers drawn
    # from the stream's generator (or spawned from its seed sequence) -- re-creating a generator from the same seed material
    # (the seed itself, bit_generator.seed_seq, a copy of the state) replays the first source's numbers
    gens = []
    for owner in [dsa] + list(new_helpers_of(ctx, dsa)):
        for n in ast.walk(owner.node):
            if isinstance(n, ast.Call) and isinstance(n.func, ast.Attribute) and n.func.attr in ('default_rng', 'Generator', 'deepcopy', 'copy'):
                gens.append((owner, n))
    for owner, n in gens:
        arg = inline_locals(owner.node, n.args[0]) if n.args else None
        src = ast.unparse(arg) if arg is not None else ''
        ok = ('.integers(' in src or '.spawn(' in src) and 'seed_seq)' not in src.replace(' ', '')
        if n.func.attr in ('deepcopy', 'copy'):
            ok = 'rng' not in src and 'bit_generator' not in src
        ctx.ob('RNG', 'each further noise source of a stream draws from a generator seeded with numbers DRAWN from the stream\'s '
               'generator (independent sources: deviations add in quadrature)', owner, ok, {'construction': ast.unparse(n)[:120]},
               node=n, construct=ast.unparse(n)[:80])
    tn = ctx.func(DS + 'DataStream.get_total_noise_std')
    r, I = ctx.run(tn)
    ctx.formula('FORMULA', 'total noise == sqrt(noise_std^2 + bg_noise_std^2)', tn, r.ret,
                ctx.spec(tn, 'xp.sqrt(self.noise_std**2 + self.bg_noise_std**2)'), node=tn.node, construct='return total')
    # Every method a BackgroundDataStream answers to (own or inherited, dispatched on the background class) that assigns
    # its noise_std must afterwards, on every path that assigns it, push the final value to every linked antenna stream.
    bci = ctx.prog.cls(DS + 'BackgroundDataStream')
    dci = ctx.prog.cls(DS + 'DataStream')
    names = sorted({n for c in bci.mro() for n in c.methods if n != '__init__'})
    n_writers = 0
    for name in names:
        fi = bci.find_method(name)
        I = ctx.interp(expand=False)
        r = I.run(fi, self_cls=bci)
        ctx._account(I)
        ctx.functions_analysed.add(fi.short)
        ns = [e for e in I.events if e.kind == 'store' and e.data.get('target') == 'attr' and e.data.get('name') == 'noise_std'
              and e.data['base'].key == sym('self').key]
        if not ns:
            continue
        n_writers += 1

        def is_push(e):
            if not (e.kind == 'store' and e.data.get('target') == 'attr' and e.data.get('name') == 'bg_noise_std' and e.loops):
                return False
            ba = e.data['base'].single_atom()
            it = e.loops[-1]['iter']
            return ba is not None and ba.kind == 'elem' and ba.args[0].key == it.key and \
                it.key == T.mk_attr(sym('self'), 'antenna_streams').key
        pushes = [e for e in I.events if is_push(e)]
        last = ns[-1]
        after = [e for e in pushes if e.seq > last.seq]
        kl = {c.key for c in last.pc}
        ok = bool(after) and all(c.key in kl for c in after[-1].pc)
        ctx.ob('MUSTPASS', f'background stream .{name}(): after noise_std is assigned, every linked antenna stream receives it '
               '(on every path that assigns it)', fi, ok,
               {'noise_std_stores': [e.text() for e in ns], 'pushes': [e.text() for e in pushes]},
               node=last.node, construct=f'{name}: bg_noise_std push after `{last.text()[:60]}`')
        if ok:
            final = r.heap.get((sym('self').key, 'noise_std'))
            ctx.formula('FORMULA', f'background stream .{name}(): pushed value == the stream\'s own final noise_std', fi,
                        after[-1].data['value'], final if final is not None else T.NONE, node=after[-1].node,
                        construct=f'{name}: stream.bg_noise_std value')
        # the background stream book-keeps its own deviation exactly like a plain stream
        base_fi = dci.find_method(name)
        if base_fi is not None:
            I2 = ctx.interp(expand=False)
            r2 = I2.run(base_fi, self_cls=dci)
            ctx.formula('AGREE', f'background stream .{name}(): own noise_std book-keeping == DataStream.{name}', fi,
                        r.heap.get((sym('self').key, 'noise_std'), T.NONE), r2.heap.get((sym('self').key, 'noise_std'), T.NONE),
                        node=last.node, construct=f'{name}: self.noise_std at exit')
    ctx.require(n_writers >= 2, 'fewer than two methods of BackgroundDataStream assign noise_std (add_noise / update_noise expected): '
                'MUSTPASS vacuity guard')

META = {
    'technique': 'static analysis: symbolic value analysis against reference transcriptions (FORMULA/AGREE incl. attribute '
                 'state at exit and the appended closure), guard conditions of raises (GUARDDOM), call presence/order (MUSTPASS)',
    'level': 'Decides from the source that the distribution helpers call the generator with the stated parameters and scaling '
             '(chi2: chisquare(k)*x_mean/k, k = 4*round(df*dt); reported deviation sqrt(2k)*x_mean/k), that the noise routines'
             ' add exactly the returned array and book-keep noise_mean/noise_std as stated (incl. shared-index sampling with '
             'its length guard), the SNR<->intensity relations and their inverse composition, the quadrature sums of stream '
             'noise and the independence they presuppose (every further noise source draws from a generator seeded with '
             'numbers drawn from the stream generator, never re-created from the same seed material), and that every method a '
             'BackgroundDataStream answers to which assigns noise_std pushes the final value to every linked antenna stream '
             "afterwards; module-level memo state makes the table comparison fail. Every distributional claim (what numpy's "
             'samplers return) is trusted, not decided.',
    'note': 'Real arithmetic; numpy Generator methods are opaque, only their arguments and post-scaling are compared.',
}
