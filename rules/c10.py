"""C10 Antenna streams: one continuous timeline (DESIGN §4.C10)."""
import ast
from vstatic import terms as T
from vstatic.terms import sym, Term, Atom, lift, pretty
from .common import agree_ref, selfattr
from .c07 import chirp_term

DS = 'voltage.data_stream.DataStream.'
AN = 'voltage.antenna.Antenna.'
MA = 'voltage.antenna.MultiAntennaArray.'

REF_GET_SAMPLES = '''
def get_samples(self, num_samples):
    self._update_t(num_samples)
    for noise_func in self.noise_sources:
        self.v += noise_func(self.ts)
    for signal_func in self.signal_sources:
        signal_v = xp.array(signal_func(self.ts))
        if not xp.iscomplexobj(self.v) and xp.iscomplexobj(signal_v):
            self.v = self.v.astype(complex)
        self.v += signal_v
    self.start_obs = False
    return self.v
'''
REF_UPDATE_NOISE = '''
def update_noise(self, stats_calc_num_samples=10000):
    # the estimate comes from a probe request; afterwards the stream is exactly where it was (C10 quantifies over
    # interleaved update_noise calls): clock and start flag are put back -- the generators are handled by the
    # GENSTATE obligations of the rule, not by this reference
    start_obs = self.start_obs
    t_start = self.t_start
    v = self.get_samples(num_samples=stats_calc_num_samples)
    _, self.noise_std = estimate_stats(v, stats_calc_num_samples=stats_calc_num_samples)
    self.start_obs = start_obs
    self.t_start = t_start
'''
REF_ANT_SET_TIME = '''
def set_time(self, t):
    self.start_obs = True
    self.t_start = t
    self.x.set_time(t)
    if self.num_pols == 2:
        self.y.set_time(t)
'''
REF_ANT_GET = '''
def get_samples(self, num_samples):
    if self.num_pols == 2:
        samples = [[self.x.get_samples(num_samples), self.y.get_samples(num_samples)]]
    else:
        samples = [[self.x.get_samples(num_samples)]]
    self.t_start += num_samples * self.dt
    self.start_obs = False
    return xp.array(samples)
'''


# the same definition with the per-request time step written out (for a tree in which `_update_t` was folded into its caller)
REF_GET_SAMPLES_FOLDED = REF_GET_SAMPLES.replace(
    '    self._update_t(num_samples)\n',
    '    self.ts = self.t_start + xp.linspace(0., num_samples * self.dt, num_samples, endpoint=False)\n'
    '    self.t_start += num_samples * self.dt\n'
    '    self.v = xp.zeros(num_samples)\n')


def stream_time_step(ctx, why=''):
    """the per-request time step of a stream: sample k at t_start + k*dt, the clock advanced by num_samples*dt, the next request
    starting one dt after the last sample (C10-D1; C07 states the same -- a tone is registered at its header frequency only if
    the time axis is continuous across the sub-block requests of a recording)"""
    had = 'num_samples' in T.INTEGER
    T.INTEGER.add('num_samples')
    try:
        return _stream_time_step(ctx, why)
    finally:
        if not had:
            T.INTEGER.discard('num_samples')


def _stream_time_step(ctx, why):
    # the per-request time step lives in _update_t, or -- when that helper was folded into its only caller -- at the head of
    # get_samples: the first store of each attribute in the request is what is checked
    has_ut = (DS + '_update_t') in {f.short for f in ctx.prog.functions.values()}
    ut = ctx.func(DS + ('_update_t' if has_ut else 'get_samples'))
    r, I = ctx.run(ut, opaque_attrs=('dt',), **({} if has_ut else {'heap': {'noise_sources': '[]', 'signal_sources': '[]'}}))
    J = ctx.interp(opaque_attrs=('dt',))

    def first_store(name):
        es = [e for e in I.events if e.kind == 'store' and e.data.get('target') == 'attr' and e.data.get('name') == name
              and e.data['base'].key == sym('self').key]
        return es[0].data['value'] if es else None
    # (values at exit: with no sources the request consists of the time step alone, and a conditional re-use of the old
    #  buffer shows up as a conditional value)
    ts_v, t0_v, v_v = selfattr(r, 'ts'), selfattr(r, 't_start'), selfattr(r, 'v')
    ctx.formula('FORMULA', 'sample k of a request is at t_start + k*dt' + why, ut, ts_v if ts_v is not None else T.NONE,
                ctx.spec(ut, 'SEQ(self.t_start, self.dt, num_samples)', I=J), node=ut.node, construct='self.ts')
    ctx.formula('FORMULA', 'the clock advances by num_samples*dt' + why, ut, t0_v if t0_v is not None else T.NONE,
                ctx.spec(ut, 'self.t_start + num_samples * self.dt', I=J), node=ut.node, construct='self.t_start')
    nxt = t0_v
    seq = T.as_seq(ts_v) if ts_v is not None else None
    ok = seq is not None and nxt is not None and (seq[0] + seq[2] * seq[1] - nxt).is_zero()
    ctx.ob('AGREE', 'continuity: the next request starts exactly one dt after the last sample of this one' + why, ut, ok,
           {'ts': pretty(ts_v) if ts_v is not None else None, 'next_t_start': pretty(nxt) if nxt is not None else None},
           node=ut.node, construct='ts[n] == new t_start')
    return ut, r, I, has_ut, selfattr(r, 'v')


def run(ctx):
    T.INTEGER.add('num_samples')
    # ---- D1 time array and clock advance
    ctx.clause = 'D1'
    ut, r, I, has_ut, v_v = _stream_time_step(ctx, '')
    ctx.formula('FORMULA', 'voltage buffer is reset to zeros(num_samples)', ut, v_v if v_v is not None else T.NONE,
                ctx.spec(ut, 'xp.zeros(num_samples)'), node=ut.node, construct='self.v')
    derived, base = ctx.exp.build(ctx.prog.cls('voltage.data_stream.DataStream'))
    init = ctx.func(DS + '__init__')
    ctx.require('dt' in derived, 'DataStream.dt is no longer derived from sample_rate in __init__')
    ctx.formula('FORMULA', 'dt == 1/sample_rate', init, derived['dt'], ctx.spec(init, '1 / self.sample_rate', I=ctx.interp(expand=False)),
                node=init.node, construct='self.dt')
    for c, q in (('voltage.antenna.Antenna', AN), ('voltage.antenna.MultiAntennaArray', MA)):
        d2, _ = ctx.exp.build(ctx.prog.cls(c))
        fi = ctx.func(q + '__init__')
        ctx.require('dt' in d2, f'{c}.dt is no longer derived from sample_rate')
        ctx.formula('FORMULA', f'{c.split(".")[-1]}.dt == 1/sample_rate', fi, d2['dt'],
                    ctx.spec(fi, '1 / self.sample_rate', I=ctx.interp(expand=False)), node=fi.node, construct='self.dt')

    # constructors: both polarisation streams share the antenna's rate, band, orientation and start time
    ctx.clause = 'D1b'
    REF_DS_INIT = """
def __init__(self, sample_rate=3*u.GHz, fch1=0*u.GHz, ascending=True, t_start=0, seed=None):
    self.rng = xp.random.default_rng(seed)
    self.sample_rate = unit_utils.get_value(sample_rate, u.Hz)
    self.dt = 1 / self.sample_rate
    self.fch1 = unit_utils.get_value(fch1, u.Hz)
    self.ascending = ascending
    self.noise_std = 0
    self.bg_noise_std = 0
    self.t_start = t_start
    self.start_obs = True
    self.ts = None
    self.v = None
    self.noise_sources = []
    self.signal_sources = []
"""
    REF_ANT_INIT = """
def __init__(self, sample_rate=3*u.GHz, fch1=0*u.GHz, ascending=True, num_pols=2, t_start=0, seed=None, **kwargs):
    self.rng = xp.random.default_rng(seed)
    self.sample_rate = unit_utils.get_value(sample_rate, u.Hz)
    self.dt = 1 / self.sample_rate
    self.fch1 = unit_utils.get_value(fch1, u.Hz)
    self.ascending = ascending
    assert num_pols in [1, 2]
    self.num_pols = num_pols
    self.t_start = t_start
    self.start_obs = True
    self.x = data_stream.DataStream(sample_rate=self.sample_rate, fch1=self.fch1, ascending=self.ascending, t_start=self.t_start,
                                    seed=int(self.rng.integers(2**31)))
    self.streams = [self.x]
    if self.num_pols == 2:
        self.y = data_stream.DataStream(sample_rate=self.sample_rate, fch1=self.fch1, ascending=self.ascending, t_start=self.t_start,
                                        seed=int(self.rng.integers(2**31)))
        self.streams.append(self.y)
    self.delay = None
    self.bg_cache = [None, None]
"""
    agree_ref(ctx, ctx.func(DS + '__init__'), REF_DS_INIT, 'DataStream.__init__: clock starts at t_start with the start-of-observation '
              'flag set, no sources', what=('attrstores',), expand=False, max_depth=0, ref_attrs_only=True)
    agree_ref(ctx, ctx.func(AN + '__init__'), REF_ANT_INIT, 'Antenna.__init__: x and y streams built with the antenna\'s rate, band, '
              'orientation and start time', what=('attrstores', 'calls', 'asserts'), expand=False, max_depth=0)

    # ---- D3 accumulation of sources
    ctx.clause = 'D3'
    gs = ctx.func(DS + 'get_samples')
    agree_ref(ctx, gs, REF_GET_SAMPLES if has_ut else REF_GET_SAMPLES_FOLDED, 'get_samples: new time array, every noise and signal source summed in (complex promotion '
              'before a complex source), start flag cleared', what=('return', 'attrstores', 'calls'),
              no_inline=((DS + '_update_t',) if has_ut else ()), expand=False)
    fi, ev, val = chirp_term(ctx)
    spec = ctx.spec(fi, 'level * xp.cos(ITE(self.ascending, 1, -1) * 2 * xp.pi * ((f_start - self.fch1) * ts + '
                        'drift_rate * ts**2 / 2) + phase)', env={'ts': sym('ts')})
    ctx.formula('FORMULA', 'constant-drift source == level*cos(±2π((f_start-fch1)t + drift t²/2) + phase)', fi, val, spec,
                node=ev.node, construct='signal_func')
    ads = ctx.func(DS + 'add_signal')
    r, I = ctx.run(ads, expand=False)
    app = [e for e in I.events if e.kind == 'call' and e.data.get('name') == '.append']
    ok = len(app) == 1 and 'signal_sources' in ast.unparse(app[0].data['recv_node']) and app[0].data['args'][1].key == sym('signal_func').key
    ctx.ob('AGREE', 'custom sources are appended unchanged to signal_sources', ads, ok, {'appends': [e.text() for e in app]},
           node=ads.node, construct='signal_sources.append(signal_func)')

    # ---- D4 clock set / add / restore
    ctx.clause = 'D4'
    st = ctx.func(DS + 'set_time')
    r, I = ctx.run(st, expand=False)
    ctx.formula('FORMULA', 'set_time: t_start == t', st, selfattr(r, 't_start') or T.NONE, sym('t'), node=st.node, construct='self.t_start')
    ctx.formula('FORMULA', 'set_time: start_obs == True', st, selfattr(r, 'start_obs') or T.NONE, T.TRUE, node=st.node, construct='self.start_obs')
    at = ctx.func(DS + 'add_time')
    r, I = ctx.run(at, expand=False)
    ctx.formula('FORMULA', 'add_time: t_start == t_start + t', at, selfattr(r, 't_start') or T.NONE,
                ctx.spec(at, 'self.t_start + t', I=ctx.interp(expand=False)), node=at.node, construct='self.t_start')
    ctx.formula('FORMULA', 'add_time: start_obs == True', at, selfattr(r, 'start_obs') or T.NONE, T.TRUE, node=at.node, construct='self.start_obs')
    un = ctx.func(DS + 'update_noise')
    (r, I), _ = agree_ref(ctx, un, REF_UPDATE_NOISE, 'update_noise: noise estimate from a request, clock and start flag restored afterwards',
                          what=('heap', 'calls'), no_inline=(DS + 'get_samples', 'voltage.data_stream.estimate_stats'), expand=False,
                          ref_attrs_only=True)
    calls = [e for e in I.events if e.kind == 'call' and e.data.get('name') == DS + 'get_samples']
    rest = [e for e in I.events if e.kind == 'store' and e.data.get('target') == 'attr' and e.data.get('name') in ('t_start', 'start_obs') and e.owner == un.short]
    def unconditional(e):
        # (a restore that is performed on the normal AND on the exceptional exit of a try/finally or of a context manager
        #  appears once per exit, each under that exit's own condition)
        return all('exc(' in c.key or 'partial(' in c.key for c in e.pc)
    # (a store made BEFORE the request that writes the attribute's own entry value back -- putting a saved state in place with
    #  fresh generators -- changes nothing and is not a restore)
    noop = [e for e in rest if calls and e.seq < calls[-1].seq and e.data['value'].key == T.mk_attr(sym('self'), e.data['name']).key]
    rest = [e for e in rest if e not in noop]
    ok = bool(calls) and len(rest) >= 2 and all(e.seq > calls[-1].seq and unconditional(e) for e in rest)
    ctx.ob('RESTORE', 'the clock and start flag are re-assigned from the saved values after the request', un, ok,
           {'request': [e.text() for e in calls], 'restores': [e.text() for e in rest]}, node=un.node, construct='restore after get_samples')
    # GENSTATE: the probe request must not consume the stream's random generators -- seeded noise after update_noise has to be
    # the noise an uninterrupted stream would have produced.  Accepted realisations: the probe runs while every generator
    # attribute is bound to a copy and the original objects are put back afterwards; or the generator state is saved and
    # assigned back.
    gens = sorted({e.data['name'] for f2 in (ctx.func(DS + '__init__'), ctx.func(DS + 'add_noise'))
                   for e in ctx.run(f2, expand=False, max_depth=0)[1].events
                   if e.kind == 'store' and e.data.get('target') == 'attr' and e.data['base'].key == sym('self').key
                   and any(a.kind == 'call' and a.args[0] in ('default_rng',) for a in T.all_atoms(e.data['value']).values())}
                  | {e.data['recv'].single_atom().args[1] for e in ctx.run(ctx.func(DS + 'add_noise'), expand=False, max_depth=0)[1].events
                     if e.kind == 'call' and e.data.get('name') == '.append' and e.data.get('recv') is not None
                     and e.data['recv'].single_atom() is not None and e.data['recv'].single_atom().kind == 'attr'
                     and any(a.kind == 'call' and a.args[0] == 'default_rng' or (a.kind == 'attr' and a.args[1] == 'rng')
                             for a in T.all_atoms(e.data['args'][1]).values())})
    ctx.require('rng' in gens, 'DataStream: the generator attribute `rng` was not found (GENSTATE anchor)')
    for g in gens:
        st_g = [e for e in I.events if e.kind == 'store' and e.data.get('target') == 'attr' and e.data.get('name') == g
                and e.data['base'].key == sym('self').key]
        before = [e for e in st_g if calls and e.seq < calls[-1].seq and
                  any(a.kind == 'call' and a.args[0] in ('deepcopy', 'copy') for a in T.all_atoms(e.data['value']).values())]
        after = [e for e in st_g if calls and e.seq > calls[-1].seq]
        orig = T.mk_attr(sym('self'), g)
        swapped = bool(before) and bool(after) and after[-1].data['value'].key == orig.key
        state_saved = any(e.kind == 'store' and e.data.get('target') == 'attr' and e.data.get('name') == 'state' and calls
                          and e.seq > calls[-1].seq and g in pretty(e.data['base']) for e in I.events)
        ctx.ob('GENSTATE', f'update_noise leaves the generator(s) in `self.{g}` as they were: the probe request draws from copies (or the '
               'generator state is saved and assigned back)', un, swapped or state_saved,
               {'stores': [e.text() for e in st_g]}, node=(st_g[0].node if st_g else un.node), construct=f'self.{g} around the probe request')
    # SHAREDGEN: with several noise sources on one stream, a generator shared by the sources is consumed in an order that
    # depends on how requests are chunked; every source after the first must draw from a generator of its own
    dsa = ctx.func(DS + 'add_noise')
    ra, Ia = ctx.run(dsa, expand=False)
    appn = [e for e in Ia.events if e.kind == 'call' and e.data.get('name') == '.append' and 'noise_sources' in ast.unparse(e.data['recv_node'])]
    ctx.require(appn, 'DataStream.add_noise no longer appends a noise source')
    val = ctx.apply(Ia, dsa, appn[-1].data['args'][1], [sym('ts')])
    draws = [a for a in T.all_atoms(val).values() if a.kind == 'call' and a.args[0] in ('standard_normal', 'normal') and a.args[1]]
    ctx.require(draws, 'DataStream.add_noise: the noise source no longer draws from a generator')
    shared = T.mk_attr(sym('self'), 'rng')
    own = [d for d in draws if d.args[1][0].key != shared.key and
           any(a.kind == 'call' and a.args[0] in ('default_rng', 'spawn', 'SeedSequence') for a in T.all_atoms(d.args[1][0]).values())]
    # (the value of the source is a case split over "is this the first source": the stream's own generator may serve the
    #  first source; some case must use a generator created for the source)
    ok_g = bool(own)
    ctx.ob('SHAREDGEN', 'a second noise source on a stream draws from a generator of its own (not from the generator the first '
           'source uses), so seeded noise does not depend on how requests are chunked', dsa, ok_g,
           {'generators_drawn_from': sorted({pretty(d.args[1][0])[:120] for d in draws})}, node=appn[-1].node, construct='generator of the appended noise source')

    # ---- D5 antenna
    ctx.clause = 'D5'
    agree_ref(ctx, ctx.func(AN + 'set_time'), REF_ANT_SET_TIME, 'Antenna.set_time sets its own clock and both streams',
              what=('attrstores', 'calls'), expand=False, max_depth=0)
    agree_ref(ctx, ctx.func(AN + 'get_samples'), REF_ANT_GET, 'Antenna.get_samples: [x, y] order, own clock advanced by n*dt',
              what=('return', 'attrstores'), expand=False, max_depth=0)
    for cq in (AN, MA):
        fi = ctx.func(cq + 'add_time')
        r, I = ctx.run(fi, max_depth=0, expand=False)
        c = [e for e in I.events if e.kind == 'call' and e.data.get('name') == cq + 'set_time']
        ok = len(c) == 1 and not c[0].pc
        ctx.ob('FORMULA', 'add_time == set_time(t_start + t)', fi, ok, {'calls': [e.text() for e in c]}, node=fi.node, construct='add_time')
        if ok:
            ctx.formula('FORMULA', 'add_time passes t_start + t', fi, c[0].data['bound'].get('t', T.NONE),
                        ctx.spec(fi, 'self.t_start + t', I=ctx.interp(expand=False)), node=c[0].node)
        fi = ctx.func(cq + 'reset_start')
        r, I = ctx.run(fi, max_depth=0, expand=False)
        c = [e for e in I.events if e.kind == 'call' and e.data.get('name') == cq + 'add_time']
        ok = len(c) == 1 and not c[0].pc and c[0].data['bound'].get('t', T.NONE).const() == 0
        ctx.ob('FORMULA', 'reset_start == add_time(0)', fi, ok, {'calls': [e.text() for e in c]}, node=fi.node, construct='reset_start')
    # ownership: whoever advances an antenna's streams advances that antenna's clock
    ctx.clause = 'D5b'
    mg = ctx.func(MA + 'get_samples')
    r, I = ctx.run(mg, max_depth=0, expand=False)
    adv = [e for e in I.events if e.kind == 'call' and e.data.get('name') == '.get_samples' and e.loops
           and e.data['recv'].single_atom() is not None and e.data['recv'].single_atom().kind == 'attr'
           and e.data['recv'].single_atom().args[1] in ('x', 'y')]
    ctx.require(adv, 'MultiAntennaArray.get_samples: per-antenna stream requests not found')
    ant = adv[0].data['recv'].single_atom().args[0]
    whole = [e for e in I.events if e.kind == 'call' and e.data.get('name') == '.get_samples' and e.data['recv'].key == ant.key]
    clk = [e for e in I.events if e.kind == 'store' and e.data.get('target') == 'attr' and e.data.get('name') == 't_start' and e.data['base'].key == ant.key and e.loops]
    flg = [e for e in I.events if e.kind == 'store' and e.data.get('target') == 'attr' and e.data.get('name') == 'start_obs' and e.data['base'].key == ant.key and e.loops]
    ok = bool(whole) or (len(clk) == 1 and len(flg) == 1)
    ctx.ob('AGREE', 'the array advances each antenna\'s own clock together with its streams', mg, ok,
           {'stream_requests': [e.text() for e in adv], 'antenna_clock_updates': [e.text() for e in clk + flg]},
           node=adv[0].node, construct='antenna clock in MultiAntennaArray.get_samples')
    if clk and not whole:
        n = adv[0].data['args'][1]
        if clk[0].data.get('aug') == 'Add':
            rhs = clk[0].data.get('rhs')
        else:
            val = clk[0].data['value']
            prev = [a for a in val.atoms() if a.kind == 'loopvar' and str(a.args[0]).endswith('.t_start')]
            rhs = val - (Term.of(prev[0]) if prev else T.mk_attr(ant, 't_start'))
        # (dt = 1/sample_rate of the antenna, which the array's constructor copies from its own: any of these spellings)
        alts = [n * T.mk_attr(ant, 'dt'), n * T.mk_attr(sym('self'), 'dt'), n / T.mk_attr(sym('self'), 'sample_rate'),
                n / T.mk_attr(ant, 'sample_rate'), n * I.get_attr(ant, 'dt', None), n * I.get_attr(sym('self'), 'dt', None)]
        ctx.ob('FORMULA', 'antenna clock advance == num_samples * dt', mg, any((rhs - a).is_zero() for a in alts),
               {'advance': pretty(rhs)}, node=clk[0].node)
        ctx.formula('FORMULA', 'antenna start flag cleared', mg, flg[0].data['value'], T.FALSE, node=flg[0].node)
    own = [e for e in I.events if e.kind == 'store' and e.data.get('target') == 'attr' and e.data.get('name') == 't_start' and e.data['base'].key == sym('self').key]
    ctx.require(own, 'MultiAntennaArray.get_samples no longer advances its own clock')
    ctx.formula('FORMULA', 'array clock advance == num_samples * dt', mg, own[-1].data['value'],
                ctx.spec(mg, 'self.t_start + num_samples * self.dt', I=ctx.interp(expand=False)), node=own[-1].node)


META = {
    'technique': 'static analysis: symbolic value analysis with the affine-sequence domain (FORMULA/AGREE), trace comparison '
                 'against reference transcriptions (attribute stores, calls, guards), ownership pairing of clock updates',
    'level': 'Decides from the source that a request evaluates sample k at t_start + k/sample_rate and advances the clock so '
             'the next request continues exactly one dt later, that every noise/signal source is summed in (with complex '
             'promotion), the chirp closed form, set/add/reset time semantics, restoration after update_noise, the [x, y] '
             "stacking order and that every function advancing an antenna's streams advances that antenna's clock. Sample-for-"
             'sample equality under chunking (float accumulation of the clock, generator stream continuity) is not decided. '
             'Also decided: update_noise runs its probe request on copies of the generators and puts clock, flag and '
             'generators back on every exit (GENSTATE), and every noise source after the first draws from a generator of its '
             'own (SHAREDGEN), both necessary for seeded noise to be independent of chunking and of interleaved update_noise '
             'calls.',
    'note': 'Real arithmetic; user-supplied source callables are opaque.',
}
