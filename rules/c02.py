"""C02 Recorded RAW samples == reference pipeline, whatever the partitioning (DESIGN §4.C02)."""
import ast
from vstatic import terms as T
from vstatic.terms import sym, Term, Atom, lift, pretty, TRUE, FALSE, NONE
from .common import B, agree_ref, selfattr, RECORD_NO_INLINE, dominates, component_resets, resets_all_pairs, fresh_request_buffer
from .refs_backend import REF_COLLECT, REF_READ_NEXT_BLOCK

NI = (B + '._read_next_block',)


def stores_into(I, fi):
    """item stores into the array the function returns (whatever the local is called)"""
    names = {n.value.id for n in ast.walk(fi.node) if isinstance(n, ast.Return) and isinstance(n.value, ast.Name)}
    direct = [e for e in I.events if e.kind == 'store' and e.data.get('target') == 'sub' and e.owner == fi.short
              and isinstance(e.data.get('base_node'), ast.Name) and e.data['base_node'].id in names and e.func.short == fi.short]
    # stores made by an extracted helper that received the array as an argument: same [channel rows, byte columns] form
    via = [e for e in I.events if e.kind == 'store' and e.data.get('target') == 'sub' and e.owner == fi.short
           and e.func.short != fi.short and time_index(e) is not None]
    return direct + via


def time_index(e):
    """(offset-term, stride-term) of the time/byte index of a buffer store final[c_idx[:, None], X[None, :]]"""
    ka = e.data['key'].single_atom()
    if ka is None or ka.kind != 'tuple' or len(ka.args) != 2:
        return None
    col = T.canon(ka.args[1]).single_atom()          # (t_idx + 1)[None, :] and t_idx[None, :] + 1 alike
    if col is not None and col.kind == 'slice':
        # buf[chans, start::step]: the same affine sequence written as a slice
        lo, hi, st = col.args
        return (lo, Term.num(1) if T._isnone(st) else st, None)
    if col is None or col.kind != 'sub':
        return None
    s = T.as_seq(T.subst(col.args[0], lambda a: None))
    return s


def run(ctx):
    cdb = ctx.func(B + '.collect_data_block')
    rnb = ctx.func(B + '._read_next_block')
    # ---- whole-function comparison with the reference writer, per bit depth / mode
    for nb in (8, 4):
        for stem in ('none', 'given'):
            for dig in (TRUE, FALSE):
                ctx.clause = 'D1-D3,D5'
                heap = {'num_bits': lift(nb)}
                if stem == 'none':
                    heap['input_file_stem'] = NONE
                else:
                    heap['input_file_stem'] = lift('stem')
                tag = f'num_bits={nb}, input={stem}, digitize={dig.key == TRUE.key}'
                agree_ref(ctx, cdb, REF_COLLECT, f'collect_data_block[{tag}]',
                          what=('return', 'substores', 'attrstores', 'calls', 'raises', 'loopstores'),
                          heap=heap, args={'digitize': dig, 'requantize': TRUE}, no_inline=NI, expand=False, max_depth=0)
    agree_ref(ctx, cdb, REF_COLLECT, 'collect_data_block[num_bits=8, requantize=False]',
              what=('return', 'substores', 'raises'), heap={'num_bits': lift(8), 'input_file_stem': NONE},
              args={'digitize': TRUE, 'requantize': FALSE}, no_inline=NI, expand=False, max_depth=0)
    # ---- D1 explicit byte-layout agreement writer <-> decoder, coverage of every byte
    ctx.clause = 'D1'
    T.INTEGER.update({'POL'})
    for nb in (8, 4):
        rW, IW = ctx.run(cdb, heap={'num_bits': lift(nb), 'input_file_stem': NONE}, args={'digitize': TRUE, 'requantize': TRUE},
                         no_inline=NI, expand=False, max_depth=0)
        rR, IR = ctx.run(rnb, heap={'num_bits': lift(nb)}, expand=False, max_depth=0)
        wst = stores_into(IW, cdb)
        ctx.require(wst, 'collect_data_block: stores into the output block not found')
        # decoder reads: the locals bound directly to a strided selection of the raw byte buffer (frombuffer(...)[...]),
        # in statement order (8 bit: real then imaginary bytes; 4 bit: the packed byte)
        reads = {}
        for e in IR.events:
            if e.kind == 'store' and e.data.get('target') == 'name' and e.data.get('aug') is None:
                va = e.data['value'].single_atom()
                if va is not None and va.kind == 'sub' and any(a.kind == 'call' and a.args[0] == 'frombuffer'
                                                               for a in T.all_atoms(va.args[0]).values()):
                    reads.setdefault(e.data['name'], e)
        comp_names = tuple(reads)
        ctx.require(len(comp_names) == (2 if nb == 8 else 1), f'_read_next_block[{nb} bit]: expected {2 if nb == 8 else 1} strided '
                    f'reads of the raw byte buffer, found {len(comp_names)}')
        if nb == 8:
            # components are paired by ROLE, not by statement order: on the writer side the stored value is the real / the
            # imaginary part of the requantised voltages, on the decoder side the imaginary component is the read that the
            # decoded complex sample multiplies by 1j
            def w_role(e):
                hs = {a.args[0] for a in T.all_atoms(e.data['value']).values() if a.kind == 'call'}
                return 1 if ('imag' in hs and 'real' not in hs) else 0 if ('real' in hs and 'imag' not in hs) else None

            def r_role(n):
                v = reads[n].data['value']
                for e2 in IR.events:
                    if e2.kind == 'store' and e2.data.get('target') == 'sub':
                        for m, cf in e2.data['value'].p.items():
                            ats = [a for a, _ in m]
                            if any(a.key == v.single_atom().key for a in ats):
                                return 1 if any(a.kind == 'J' or (a.kind == 'call' and a.args[0] == 'J') for a in ats) else 0
                return None
            wr, rr_ = [w_role(e) for e in wst], [r_role(n) for n in comp_names]
            if sorted(x for x in wr if x is not None) == [0, 1] and len(wst) == 2:
                wst = [e for _, e in sorted(zip(wr, wst), key=lambda t: t[0])]
            if sorted(x for x in rr_ if x is not None) == [0, 1]:
                comp_names = tuple(n for _, n in sorted(zip(rr_, comp_names), key=lambda t: t[0]))
        wl = [time_index(e) for e in wst]
        rl = []
        for n in comp_names:
            e = reads[n]
            va = e.data['value'].single_atom()
            fake = type('E', (), {'data': {'key': va.args[1]}})
            rl.append(time_index(fake))
        if any(x is None for x in wl + rl) or len(wl) != len(rl):
            ctx.ob('AGREE', f'[{nb} bit] writer and decoder byte indices are affine sequences', cdb, False,
                   {'writer': [e.text() for e in wst], 'decoder': [reads[n].text() for n in comp_names]}, node=wst[0].node,
                   construct=f'byte index structure [{nb} bit]')
            continue
        # the pol loop variables of the two functions
        wpol = wst[0].loops[-1]['index']
        rpol = reads[comp_names[0]].loops[-1]['index']
        sub_idx = wst[0].loops[0]['index']

        def norm(term, pol_atom):
            P = sym('POL')

            def fn(a):
                if Term.of(a).key == pol_atom.key:
                    return P
                if Term.of(a).key == sub_idx.key:
                    return Term.num(0)
                return None
            return T.subst(term, fn)
        offs = []
        for k, (w, rd) in enumerate(zip(wl, rl)):
            wo, ws = norm(w[0], wpol), norm(w[1], wpol)
            ro, rs = norm(rd[0], rpol), norm(rd[1], rpol)
            ctx.formula('AGREE', f'[{nb} bit] byte offset of component {k} within a sample group: writer == decoder', cdb, wo, ro,
                        node=wst[k].node, construct=wst[k].text()[:70] + f' [offset, {nb} bit]')
            ctx.formula('AGREE', f'[{nb} bit] byte stride between successive time samples: writer == decoder', cdb, ws, rs,
                        node=wst[k].node, construct=wst[k].text()[:70] + f' [stride, {nb} bit]')
            offs.append((wo, ws))
        # coverage: offsets {off(pol, comp)} are distinct residues covering 0..stride-1 for 1 and 2 polarisations
        for npol in (1, 2):
            res = []
            stride = None
            for wo, ws in offs:
                for pol in range(npol):
                    def fn(a, pol=pol, npol=npol):
                        if a.kind == 'sym' and a.args[0] == 'POL':
                            return Term.num(pol)
                        if a.kind == 'attr' and a.args[1] == 'num_pols':
                            return Term.num(npol)
                        return None
                    o, s_ = T.subst(wo, fn).const(), T.subst(ws, fn).const()
                    res.append(o)
                    stride = s_
            ok = stride is not None and all(x is not None for x in res) and sorted(x % stride for x in res) == list(range(int(stride)))
            ctx.ob('AGREE', f'[{nb} bit, {npol} pol] every byte of a sample group is written exactly once', cdb, ok,
                   {'offsets': [str(x) for x in res], 'stride': str(stride)}, node=wst[0].node,
                   construct=f'byte coverage [{nb} bit, {npol} pol]')
    # ---- D3 serialisation
    ctx.clause = 'D3'
    rec = ctx.func(B + '.record')
    r, I = ctx.run(rec, no_inline=RECORD_NO_INLINE, sticky_attrs=('num_blocks',))
    wr = [e for e in ctx.calls(I, name='.write') if e.owner == rec.short]
    ctx.require(wr, 'record() no longer writes data blocks')
    blk = [e for e in I.events if e.kind == 'call' and e.data.get('name') == B + '.collect_data_block']
    ctx.require(blk, 'record() no longer calls collect_data_block')
    want = ctx.spec(rec, 'xp.array(V, dtype=xp.int8).tobytes()', env={'V': blk[0].data.get('ret', T.mk_call(B + '.collect_data_block', [sym('self')], blk[0].data['kwargs']))})
    ctx.formula('FORMULA', 'a block is serialised as the int8 bytes of the collected array, nothing in between', rec, wr[0].data['args'][1],
                want, node=wr[0].node)
    b = blk[0].data['bound']
    ctx.formula('AGREE', 'record() forwards digitize and always requantises', rec, T.mk_tuple([b.get('digitize', NONE), b.get('requantize', NONE)]),
                T.mk_tuple([sym('digitize'), TRUE]), node=blk[0].node, construct='collect_data_block(digitize, requantize)')
    # ---- D5 sub-block accounting
    ctx.clause = 'D5'
    T.INTEGER.update({'Wn'})
    T.POSITIVE.update({'Wn'})
    rW, IW = ctx.run(cdb, heap={'num_bits': lift(8), 'input_file_stem': NONE}, args={'digitize': TRUE, 'requantize': TRUE},
                     no_inline=NI, expand=False, max_depth=0)
    req = [e for e in IW.events if e.kind == 'call' and e.data.get('name') == '.get_samples' and e.loops
           and 'antenna_source' in ast.unparse(e.data['recv_node'])]
    ctx.require(len(req) == 1, 'collect_data_block: the per-sub-block request to the antenna source was not found')
    nsamp = req[0].data['args'][1]
    so = T.mk_attr(T.mk_attr(sym('self'), 'antenna_source'), 'start_obs')
    TB = ctx.spec(cdb, 'self.num_taps * self.num_branches', I=ctx.interp(expand=False))
    Tt = ctx.spec(cdb, 'self.num_taps', I=ctx.interp(expand=False))

    def named(t):
        """a window count that is still an opaque loop-carried local is named as one integer symbol"""
        return T.subst(t, lambda x: sym('Wn') if x.kind == 'loopvar' else None)
    n1 = named(T.assume(nsamp, {so.key: True}))
    n2 = named(T.assume(nsamp, {so.key: False}))
    # the window count W of the sub-block is what the first request asks for, in units of one window (taps x branches samples)
    W1 = n1 / TB
    ctx.ob('AGREE', 'the first request of an observation is a whole number W of windows (num_taps*num_branches samples each)', cdb,
           T.is_integer(W1), {'request': pretty(nsamp)[:300], 'windows': pretty(W1)[:200]}, node=req[0].node,
           construct='antenna_source.get_samples(...) [window count]')
    spectra = lambda length: (T.mk_call('floor', [length / TB]) - 1) * Tt        # rows produced by the PFB front end (C08-D2)
    want_rows = Tt * (W1 - 1)
    ctx.formula('AGREE', 'first request of an observation: W windows in, (W-1)*num_taps spectra out (one warm-up window)', cdb,
                spectra(n1), want_rows, node=req[0].node, construct='antenna_source.get_samples(...) [first request]')
    ctx.formula('AGREE', 'later requests: (W-1) windows plus the cached window give (W-1)*num_taps spectra', cdb,
                spectra(n2 + TB), want_rows, node=req[0].node, construct='antenna_source.get_samples(...) [later requests]')
    ctx.formula('AGREE', 'the first request exceeds the later ones by exactly num_taps*num_branches samples', cdb, n1 - n2, TB,
                node=req[0].node, construct='warm-up surplus')
    w = [e for e in IW.events if e.kind == 'store' and e.data.get('target') == 'attr' and e.data.get('name') == 'num_subblocks']
    ctx.ob('WHOWRITES', 'num_subblocks is re-derived once per block from the window arithmetic', cdb, len(w) == 1 and not w[0].loops,
           {'stores': [e.text() for e in w]}, node=(w[0].node if w else cdb.node), construct='self.num_subblocks')
    # ---- D7 components the partition invariance rests on (shared definitions with C09 / C15)
    ctx.clause = 'D7'
    from .c09 import REF_RQ, Q, DSM
    agree_ref(ctx, ctx.func(Q + 'RealQuantizer.quantize'), REF_RQ, 'quantiser statistics are taken once (non-positive period) or every '
              'p-th call, never re-estimated per sub-block otherwise', what=('return', 'heap'),
              no_inline=(Q + 'quantize_real', DSM + 'estimate_stats'))
    from .c15 import REF_GET, MA
    # (precondition: delay_i <= max_delay for every antenna, established by __init__ -- C15-D1)
    from .common import delay_within_max
    T.GE0_PATTERNS.append(delay_within_max)
    had_ns = 'num_samples' in T.POSITIVE
    T.POSITIVE.add('num_samples')           # (a request is asserted to be longer than max_delay >= 0)
    try:
        agree_ref(ctx, ctx.func(MA + 'get_samples'), REF_GET, 'array source: successive requests deliver contiguous, correctly delayed samples',
                  what=('return', 'attrstores', 'calls', 'substores'), max_depth=0, expand=False)
    finally:
        T.GE0_PATTERNS.remove(delay_within_max)
        if not had_ns:
            T.POSITIVE.discard('num_samples')
    # the cached background tails (and the samples handed to the backend) are views of a stream's buffer: they stay valid
    # across requests only if every request gets a new buffer
    fresh_request_buffer(ctx)
    # ---- D8 the backend owns an independent digitiser / filterbank / requantiser per (antenna, polarisation)
    ctx.clause = 'D8'
    from .refs_backend import REF_BACKEND_INIT
    agree_ref(ctx, ctx.func(B + '.__init__'), REF_BACKEND_INIT, 'RawVoltageBackend.__init__: template components are deep-copied per '
              '(antenna, polarisation) so caches and statistics are never shared; geometry taken from the antenna source and the '
              'first filterbank/requantiser', what=('attrstores', 'raises', 'asserts'), expand=False, max_depth=0)
    # ---- D6 per-recording resets (also C12-D3)
    ctx.clause = 'D6'
    fb = blk[0]
    for comp in ('digitizer', 'filterbank', 'requantizer'):
        es = component_resets(I, comp)
        ctx.ob('MUSTPASS', f'{comp} caches are reset before the first block of every recording', rec,
               bool(es) and dominates(es[0], fb) and resets_all_pairs(es[0]),
               {'calls': [e.text() for e in es]}, node=(es[0].node if es else rec.node), construct=f'{comp}._reset_cache()')
    # ... and the reset really returns a used component to its constructed state (a requantiser whose refresh index survives a
    # reset never re-estimates its statistics in the next recording when stats_calc_period != 1)
    from .c12 import reset_chain
    reset_chain(ctx, ' [a used backend records like a fresh one]')
    rs = [e for e in I.events if e.kind == 'call' and e.data.get('name') == '.reset_start']
    ctx.ob('MUSTPASS', 'the antenna source is marked start-of-observation before the first block (warm-up window requested)', rec,
           bool(rs) and dominates(rs[0], fb), {'calls': [e.text() for e in rs]}, node=(rs[0].node if rs else rec.node),
           construct='antenna_source.reset_start()')


META = {
    'technique': 'static analysis: symbolic value analysis of the block writer against a reference definition per bit depth/mode '
                 '(buffer-store indices and values, loop bodies, trip counts), affine byte-index agreement writer<->decoder with '
                 'residue coverage, window/spectra accounting identities, reset dominance on the event trace',
    'level': 'Decides from the source that the writer places re/im (8 bit) or the packed nibble byte 16*Re + (Im mod 16) (4 '
             'bit) at the channel-major, time, polarisation, component offsets the decoder reads (offsets/strides equal as '
             'terms, every byte covered once for 1 and 2 polarisations), that blocks are serialised as int8 bytes of the '
             'collected array, that each sub-block request is a whole number W of windows at the start of an observation and '
             'W-1 afterwards (stated on the request length, whatever locals compute it) and therefore yields (W-1)*num_taps '
             'spectra matching the bytes written, that every stream request binds a fresh voltage buffer (the array source '
             'keeps views of the previous one), and that all caches are reset before the first block. The comparison of the delayed background slices takes the class invariant delay_i <= max_delay (established on the constructor by C15) as a stated precondition. Byte-exact partition '
             'invariance (tiling of the block by sub-blocks for all num_subblocks) is not decided.',
    'note': 'Real/integer arithmetic; the PFB row count floor(len/(T*B))-1 windows is taken from the front-end definition checked '
            'under C08; duck-typed quantize/channelize calls are opaque.',
}
