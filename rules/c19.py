"""C19 Splitting utilities tile the band and the array exactly (DESIGN §4.C19)."""
import ast
from vstatic import terms as T
from vstatic.terms import sym, Term, Atom, lift, pretty, TRUE, FALSE, NONE
from .common import agree_ref, kind_of

SU = 'split_utils.'

REF_SPLIT_ARRAY = '''
def split_array(data, f_sample_num=None, t_sample_num=None, f_shift=None, t_shift=None, f_trim=False, t_trim=False):
    split_data = []
    if not isinstance(data, np.ndarray):
        raise ValueError("Input data must be a numpy array")
    height, width = data.shape
    if f_sample_num is None:
        f_sample_num = width
    if t_sample_num is None:
        t_sample_num = height
    if f_shift is None:
        f_shift = f_sample_num
    elif f_shift <= 0:
        raise ValueError("Invalid x-direction shift")
    if t_shift is None:
        t_shift = t_sample_num
    elif t_shift <= 0:
        raise ValueError("Invalid y-direction shift")
    y_start = 0
    y_stop = min(t_sample_num, height)
    x_start = 0
    x_stop = min(f_sample_num, width)
    split_data.append(data[y_start:y_stop, x_start:x_stop])
    y_in_bound = (y_stop < height)
    x_in_bound = (x_stop < width)
    while y_in_bound or x_in_bound:
        while x_in_bound:
            x_start = x_start + f_shift
            x_stop = min(x_stop + f_shift, width)
            split_data.append(data[y_start:y_stop, x_start:x_stop])
            x_in_bound = (x_stop < width)
        if not y_in_bound:
            break
        y_start = y_start + t_shift
        y_stop = min(y_stop + t_shift, height)
        x_start = 0
        x_stop = min(f_sample_num, width)
        split_data.append(data[y_start:y_stop, x_start:x_stop])
        y_in_bound = (y_stop < height)
        x_in_bound = (x_stop < width)
    if t_trim:
        split_data = list(filter(lambda A: A.shape[0] == t_sample_num, split_data))
    if f_trim:
        split_data = list(filter(lambda A: A.shape[1] == f_sample_num, split_data))
    return split_data
'''


def run(ctx):
    T.INTEGER.update({'fchans', 'f_shift', 'tchans'})
    T.NOTNONE.update({'f_shift', 'tchans'})
    gen = ctx.func(SU + 'split_waterfall_generator')
    r, I = ctx.run(gen)
    ys = [e for e in I.events if e.kind == 'yield']
    ctx.require(ys, 'split_waterfall_generator no longer yields')
    # ---- D1 trip count from integers
    ctx.clause = 'D1'
    for y in ys:
        if not y.loops:
            ctx.ob('EXACTCOUNT', 'windows are produced by a loop', gen, False, {'yield': y.text()}, node=y.node)
            continue
        lp = y.loops[-1]
        if lp['kind'] == 'for' and lp.get('trip') is not None:
            k, bad = kind_of(lp['trip'])
            ctx.ob('EXACTCOUNT', 'the number of windows is computed from integer channel counts (no comparison or truncation of '
                   'accumulated float frequencies)', gen, (k == 'Int' and not bad) if k != 'Unknown' else None,
                   {'trip_count': pretty(lp['trip']), 'kind': k, 'float_truncations': bad}, node=lp['node'],
                   construct='window loop [trip count kind]')
            want = ctx.spec(gen, "(Waterfall(waterfall_fn, load_data=False).header['nchans'] - fchans) // f_shift + 1")
            ctx.formula('FORMULA', 'number of windows == floor((nchans - fchans)/shift) + 1', gen, lp['trip'], want, node=lp['node'],
                        construct='window loop [trip count]')
        else:
            cond = lp.get('cond')
            k, bad = kind_of(cond) if cond is not None else ('Unknown', [])
            reals = [a for a in T.all_atoms(cond).values() if a.kind == 'loopvar'] if cond is not None else []
            if cond is not None and not reals:
                for a in T.all_atoms(cond).values():
                    if a.kind == 'cmp':
                        for side in a.args[1:]:
                            if kind_of(side)[0] == 'Real':
                                k = 'Real'

            ctx.ob('EXACTCOUNT', 'the number of windows is computed from integer channel counts (no comparison or truncation of '
                   'accumulated float frequencies)', gen, False if (reals or k == 'Real') else None,
                   {'loop': 'while', 'condition': pretty(cond)[:200] if cond is not None else None,
                    'loop_carried_values_compared': [pretty(Term.of(a)) for a in reals]}, node=lp['node'],
                   construct='window loop [trip count kind]')
        # the i-th window
        c = [e for e in I.events if e.kind == 'call' and e.data.get('name', '').endswith('Waterfall') and e.loops and e.seq < y.seq]
        ctx.require(c, 'split_waterfall_generator: the per-window Waterfall construction was not found')
        kw = dict(c[-1].data['kwargs'])
        idx = lp.get('index')
        f1 = ctx.spec(gen, "Waterfall(waterfall_fn, load_data=False).header['fch1']")
        dfv = ctx.spec(gen, "Waterfall(waterfall_fn, load_data=False).header['foff']")
        if lp['kind'] == 'for':
            lo = ctx.spec(gen, 'F1 + IDX * f_shift * DF', env={'F1': f1, 'DF': dfv, 'IDX': idx})
            hi = ctx.spec(gen, 'F1 + IDX * f_shift * DF + fchans * DF', env={'F1': f1, 'DF': dfv, 'IDX': idx})
            want = ctx.spec(gen, 'np.sort([LO, HI])', env={'LO': lo, 'HI': hi})
            ctx.formula('FORMULA', 'window i spans header frequencies fch1 + i*shift*foff .. + fchans*foff (low edge)', gen,
                        kw.get('f_start', NONE), T.mk_sub(want, lift(0)), node=c[-1].node, construct='Waterfall(f_start=...)')
            ctx.formula('FORMULA', 'window i spans header frequencies fch1 + i*shift*foff .. + fchans*foff (high edge)', gen,
                        kw.get('f_stop', NONE), T.mk_sub(want, lift(1)), node=c[-1].node, construct='Waterfall(f_stop=...)')
        ctx.formula('FORMULA', 'every piece starts at integration 0', gen, kw.get('t_start', NONE), lift(0), node=c[-1].node,
                    construct='Waterfall(t_start=...)')
        ctx.formula('FORMULA', 'every piece has the requested number of leading integrations', gen, kw.get('t_stop', NONE),
                    sym('tchans'), node=c[-1].node, construct='Waterfall(t_stop=...)')
        ctx.formula('FORMULA', 'each piece is yielded as constructed', gen, y.data['value'], c[-1].data.get('ret') if c[-1].data.get('ret') is not None
                    else T.mk_call(c[-1].data['name'], c[-1].data['args'], c[-1].data['kwargs']), node=y.node)
    T.NOTNONE.discard('f_shift')
    T.NOTNONE.discard('tchans')
    r2, I2 = ctx.run(gen, args={'f_shift': NONE, 'tchans': NONE})
    fs = [e for e in I2.events if e.kind == 'store' and e.data.get('name') == 'f_shift']
    ts = [e for e in I2.events if e.kind == 'store' and e.data.get('name') == 'tchans']
    ctx.ob('FORMULA', 'default shift is the window size; default integrations is the whole file', gen,
           bool(fs) and fs[-1].data['value'].key == sym('fchans').key and bool(ts) and 'selection_shape' in pretty(ts[-1].data['value']),
           {'f_shift': [pretty(e.data['value']) for e in fs], 'tchans': [pretty(e.data['value'])[:80] for e in ts]}, node=gen.node,
           construct='defaults of f_shift / tchans')
    # split_fil writes one file per piece
    sf = ctx.func(SU + 'split_fil')
    r, I = ctx.run(sf, no_inline=(SU + 'split_waterfall_generator',))
    wr = [e for e in I.events if e.kind == 'call' and e.data['name'] == '.write_to_fil']
    g = [e for e in I.events if e.kind == 'call' and e.data['name'] == SU + 'split_waterfall_generator']
    def per_piece(e):
        # once per iteration of a loop over the generator, or applied to the items of the generator in a comprehension
        if len(e.loops) == 1:
            return True
        rv = e.data.get('recv')
        return rv is not None and not e.loops and any(
            a.kind in ('sub', 'elem') and any(x.kind == 'call' and x.args[0] == SU + 'split_waterfall_generator'
                                              for x in T.all_atoms(a.args[0]).values())
            for a in T.all_atoms(rv).values())
    ok = len(wr) == 1 and per_piece(wr[0]) and not wr[0].pc and len(g) == 1 and all(
        g[0].data['bound'].get(p, NONE).key == sym(p).key for p in ('waterfall_fn', 'fchans', 'tchans', 'f_shift'))
    ctx.ob('AGREE', 'split_fil forwards its arguments to the generator and writes every yielded piece exactly once', sf, ok,
           {'generator_call': [e.text()[:100] for e in g], 'writes': [e.text() for e in wr]}, node=sf.node, construct='split_fil loop')

    # ---- D2 array tiling
    ctx.clause = 'D2'
    sa = ctx.func(SU + 'split_array')
    T.SYMKIND['data'] = 'array'
    T.INTEGER.update({'f_sample_num', 't_sample_num', 't_shift'})
    T.NOTNONE.update({'f_sample_num', 't_sample_num', 'f_shift', 't_shift'})
    # (the 2-D walk can be written with or without the in-bound flags and with the first tile of a row inside or before the
    #  loop: when the statements are grouped differently from the reference walk the one-to-one comparison is not decisive)
    from . import common as _common
    _common.RESTRUCTURED_UNDECIDED[0] = 'any'       # (split_array has no effects besides its local tile list)
    try:
        (r, I), (rr, IR) = agree_ref(ctx, sa, REF_SPLIT_ARRAY, 'split_array: tiles [y:y+t, x:x+f] advancing by the shifts, row-major',
                                     what=('loopstores', 'calls', 'raises'))
    finally:
        _common.RESTRUCTURED_UNDECIDED[0] = False

    def appends(II):
        return [e for e in II.events if e.kind == 'call' and e.data['name'] == '.append']
    a, b = appends(I), appends(IR)
    if len(a) != len(b):
        ctx.ob('AGREE', 'split_array appends the same tiles as the reference', sa, None if a else False,
               {'code': [e.text() for e in a], 'reference': [e.text() for e in b]}, node=sa.node, construct='split_data.append')
    else:
        for ea, eb in zip(a, b):
            ctx.formula('AGREE', 'tile appended == data[y_start:y_stop, x_start:x_stop] of the reference walk', sa,
                        ea.data['args'][1], eb.data['args'][1], node=ea.node)
    def trims(II):
        """name stores whose value is a filtered list [A for A in <tiles> if <predicate on A>] (filter(...) or comprehension)"""
        out = []
        for e in II.events:
            if e.kind == 'store' and e.data.get('target') == 'name':
                va = e.data['value'].single_atom()
                if va is not None and va.kind == 'comp' and va.args[0] == 'list' and len(va.args[2]) == 1:
                    g = va.args[2][0].single_atom()
                    if g is not None and len(g.args) >= 2 and va.args[1].single_atom() is not None \
                            and va.args[1].single_atom().kind == 'elem':
                        if any(o.data['value'] == e.data['value'] for o, _ in out):
                            continue   # the same filtered list bound to a second name (a temporary)
                        out.append((e, T.mk_and(list(g.args[1:]))))
        return out
    fa, fb = trims(I), trims(IR)
    if len(fa) != len(fb):
        ctx.ob('AGREE', 'trimming filters as in the reference', sa, False, {'code': [e.text() for e, _ in fa]}, node=sa.node,
               construct='trimming filters')
    else:
        for (ea, pa), (eb, pb) in zip(fa, fb):
            ctx.formula('AGREE', 'trimming keeps exactly the tiles of full size along the trimmed axis', sa, pa, pb, node=ea.node,
                        construct=ea.text()[:80] + ' [predicate]')
            ctx.formula('AGREE', 'trimming is applied iff its flag is set', sa, ea.cond(), eb.cond(), node=ea.node,
                        construct=ea.text()[:80] + ' [guard]')
    T.SYMKIND.clear()
    rets = [e for e in I.events if e.kind == 'return' and e.owner == sa.short]
    ctx.require(rets, 'split_array no longer returns')
    for e in rets:
        va = e.data['value'].single_atom()
        if va is not None and va.kind == 'call' and va.args[0] == 'array' and not any(k == 'dtype' for k, _ in va.args[2]):
            guarded = any('shape' in pretty(c) for c in e.pc)
            ctx.ob('SHAPE', 'tiles are stacked into a regular ndarray only when their shapes are known to agree (ragged edge tiles '
                   'cannot be stacked)', sa, guarded, {'return': e.text(), 'path_condition': [pretty(c)[:120] for c in e.pc]}, node=e.node)
        elif va is not None and va.kind == 'call' and va.args[0] == 'array':
            # np.array(list_of_tiles, dtype=object) is NOT a container of the tiles: when the tiles agree on the leading axis
            # (ragged along frequency only) numpy still tries to build a regular (n, rows, ...) array and raises
            ctx.ob('SHAPE', 'ragged splits are returned as a container filled tile by tile (np.array(tiles, dtype=object) broadcasts '
                   'when the tiles share their first dimension)', sa, False, {'return': e.text()}, node=e.node)
        else:
            ctx.ob('SHAPE', 'ragged splits are returned as a container of individual tiles', sa, True, {'return': e.text()}, node=e.node)
    # consumers iterate over the generator once
    ctx.clause = 'D3'
    for nm in ('get_parameter_distributions', 'get_mean_distribution'):
        f2 = ctx.func('sample_from_obs.' + nm)
        r, I = ctx.run(f2, no_inline=(SU + 'split_waterfall_generator', 'waterfall_utils.get_data'))
        g = [e for e in I.events if e.kind == 'call' and e.data['name'] == SU + 'split_waterfall_generator']
        # every collected statistic is a list with exactly one item per piece the generator yields
        gret = g[0].data.get('ret') if g else None
        comps = [a for a in T.all_atoms(r.ret).values() if a.kind == 'comp'] if r.ret is not None else []
        per_piece = bool(comps) and gret is not None and all(
            len(a.args[2]) == 1 and a.args[2][0].single_atom() is not None and len(a.args[2][0].single_atom().args) == 1
            and a.args[2][0].single_atom().args[0].key == gret.key for a in comps)
        want_n = 3 if nm == 'get_parameter_distributions' else 1
        ok = len(g) == 1 and all(g[0].data['bound'].get(p, NONE).key == sym(p).key for p in ('waterfall_fn', 'fchans', 'tchans', 'f_shift')) \
            and per_piece and len(comps) == want_n
        forwarded = len(g) == 1 and all(g[0].data['bound'].get(p, NONE).key == sym(p).key for p in ('waterfall_fn', 'fchans', 'tchans', 'f_shift'))
        if forwarded and not comps:
            # the statistics are collected some other way than one list per statistic grown in the loop over the pieces (lists
            # of lists filled through aliases, ...): the one-entry-per-piece shape is not visible to this rule -- not decided
            ok = None
        ctx.ob('AGREE', f'{nm}: one entry per piece of the split (arguments forwarded)', f2, ok,
               {'generator_call': [e.text()[:100] for e in g], 'returned': pretty(r.ret)[:300] if r.ret is not None else None},
               node=f2.node, construct=f'{nm} loop')
    # every split reads the layout of the file as it is at the time of the call
    from .common import memo_obligation
    ctx.clause = 'D1'
    memo_obligation(ctx, ctx.func('split_utils.split_waterfall_generator'), 'each split reads the file layout afresh')


META = {
    'technique': 'static analysis: kind inference on the loop trip count (EXACTCOUNT), symbolic window formulas (FORMULA), '
                 'loop-body comparison of the 2-D tiling walk against a reference transcription (AGREE), guard on the stacking '
                 'return (SHAPE)',
    'level': 'Decides from the source that the number of sub-bands is floor((nchans - fchans)/shift) + 1 computed from '
             'integers (not from accumulated float frequencies), that window i spans fch1 + i*shift*foff .. + fchans*foff with'
             ' the requested leading integrations, that split_fil / the distribution helpers consume every piece once, that '
             'the array tiling walk advances by the shifts in row-major order, that tiles are stacked into a regular ndarray '
             'only when their shapes agree and ragged tiles are returned in a container filled tile by tile (np.array(tiles, '
             'dtype=object) is rejected). A tiling walk whose statements are grouped differently from the reference walk is '
             "reported UNDECIDED for that comparison. blimpy's frequency -> channel selection is not decided.",
    'note': 'Header values nchans (Int) and fch1/foff (Real) are typed by key; blimpy.Waterfall is opaque.',
}
