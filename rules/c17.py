"""C17 Derived frames (slice, de-drift, integrate) keep data and axis registration (DESIGN §4.C17)."""
import ast
from vstatic import terms as T
from vstatic.terms import sym, Term, Atom, lift, pretty, TRUE, FALSE, NONE
from .common import agree_ref, selfattr

REF_SLICE = '''
def get_slice(fr, l, r):
    s_data = fr.data[:, l:r]
    if fr.ascending:
        fch1 = fr.fs[l]
    else:
        fch1 = fr.fs[r - 1]
    s_fr = fr.from_data(fr.df, fr.dt, fch1, fr.ascending, s_data, metadata=fr.metadata, waterfall=fr.check_waterfall(),
                        seed=fr.rng, t_start=fr.t_start, source_name=fr.source_name)
    return s_fr
'''
REF_DEDRIFT = '''
def dedrift(fr, drift_rate=None):
    if drift_rate is None:
        if 'drift_rate' in fr.metadata:
            drift_rate = fr.metadata['drift_rate']
        else:
            raise KeyError('Please specify a drift rate to account for')
    max_offset = int(np.round(abs(drift_rate) * fr.tchans * fr.dt / fr.df))
    if max_offset >= fr.fchans:
        raise ValueError('too high')
    tr_data = np.zeros((fr.data.shape[0], fr.data.shape[1] - max_offset))
    for i in range(fr.tchans):
        offset = int(np.round(abs(drift_rate) * i * fr.dt / fr.df))
        if drift_rate >= 0:
            start_idx = 0 + offset
            end_idx = start_idx + tr_data.shape[1]
        else:
            end_idx = fr.data.shape[1] - offset
            start_idx = end_idx - tr_data.shape[1]
        tr_data[i] = fr.data[i, start_idx:end_idx]
    if fr.ascending:
        if drift_rate >= 0:
            fch1 = fr.fs[0]
        else:
            fch1 = fr.fs[max_offset]
    else:
        if drift_rate >= 0:
            fch1 = fr.fs[::-1][max_offset]
        else:
            fch1 = fr.fs[::-1][0]
    dd_fr = fr.from_data(fr.df, fr.dt, fch1, fr.ascending, tr_data, metadata=fr.metadata, waterfall=fr.check_waterfall(),
                         seed=fr.rng, t_start=fr.t_start, source_name=fr.source_name)
    return dd_fr
'''
REF_INTEGRATE = '''
def integrate(fr, axis='t', mode='mean', normalize=False, as_frame=False):
    data = utils.array(fr)
    if axis in ['f', 1]:
        axis = 1
    else:
        axis = 0
    if mode[0] == 's':
        data = np.sum(data, axis=axis, keepdims=True)
    else:
        data = np.mean(data, axis=axis, keepdims=True)
    if normalize:
        c_data = sigma_clip(data)
        data = (data - np.mean(c_data)) / np.std(c_data)
    if as_frame:
        if axis in ['f', 1]:
            new_fr = TimeSeries(df=fr.df * fr.fchans, dt=fr.dt, fch1=fr.fmid, ascending=fr.ascending, data=data, seed=fr.rng,
                                t_start=fr.t_start, source_name=fr.source_name)
        else:
            new_fr = Spectrum(df=fr.df, dt=fr.dt * fr.tchans, fch1=fr.fch1, ascending=fr.ascending, data=data, seed=fr.rng,
                              t_start=fr.t_start, source_name=fr.source_name)
        return new_fr
    else:
        return data.flatten()
'''
REF_FROM_DATA = '''
def from_data(cls, df, dt, fch1, ascending, data, metadata={}, waterfall=None, seed=None, **kwargs):
    tchans, fchans = data.shape
    frame = cls(fchans=fchans, tchans=tchans, df=df, dt=dt, fch1=fch1, ascending=ascending, data=data, seed=seed, **kwargs)
    frame.add_metadata(metadata)
    try:
        del waterfall.container.h5
    except AttributeError:
        pass
    frame.waterfall = copy.deepcopy(waterfall)
    return frame
'''
NI = ('frame.Frame.from_data', 'frame.Frame.check_waterfall', 'frame.Frame.__init__', 'utils.array',
      'spectrum.Spectrum.__init__', 'timeseries.TimeSeries.__init__')


def run(ctx):
    TP = {'fr': 'frame.Frame'}
    T.INTEGER.update({'l', 'r'})
    # ---- D1 slice
    ctx.clause = 'D1'
    fi = ctx.func('slice.get_slice')
    agree_ref(ctx, fi, REF_SLICE, 'get_slice: columns l..r-1, fch1 = first/last kept frequency per orientation, parent attributes '
              'handed on', what=('return', 'calls'), typed_params=TP, no_inline=NI)
    # explicit formula for the registration (independent of the reference's use of fr.fs)
    r, I = ctx.run(fi, typed_params=TP, no_inline=NI)
    c = [e for e in I.events if e.kind == 'call' and e.data.get('name') == 'frame.Frame.from_data']
    ctx.require(c, 'get_slice no longer builds the slice with from_data')
    b = c[0].data['bound']
    # (numpy index semantics on both sides: a negative bound counts from the end, as it does for the data columns)
    ctx.formula('FORMULA', 'slice fch1 == frequency of the first kept column: fs[l] (ascending) / fs[r-1] (descending)', fi,
                b.get('fch1', NONE),
                ctx.spec(fi, 'ITE(fr.ascending, fr.fs[l], fr.fs[r - 1])', typed_params=TP), node=c[0].node,
                construct='from_data(fch1=...) [slice]')
    ctx.formula('FORMULA', 'slice data == data[:, l:r]', fi, b.get('data', NONE), ctx.spec(fi, 'fr.data[:, l:r]', typed_params=TP),
                node=c[0].node, construct='from_data(data=...) [slice]')

    # ---- D2 de-drift
    ctx.clause = 'D2'
    fi = ctx.func('dedrift.dedrift')
    T.NOTNONE.add('drift_rate')
    # (the row shifts can be written as a loop of row stores, as in the reference, or as one vectorised gather: when the
    #  statements are organised differently the store-by-store comparison is not decisive -- the formulas below still are)
    from . import common as _common
    _common.RESTRUCTURED_UNDECIDED[0] = 'fewer'
    try:
        agree_ref(ctx, fi, REF_DEDRIFT, 'dedrift: row i shifted by round(|d| i dt/df), trimmed to the common band, fch1 per orientation '
                  'and drift sign, too-steep rates rejected', what=('return', 'calls', 'raises', 'substores', 'loopstores'),
                  typed_params=TP, no_inline=NI)
    finally:
        _common.RESTRUCTURED_UNDECIDED[0] = False
    T.NOTNONE.discard('drift_rate')
    agree_ref(ctx, fi, REF_DEDRIFT, 'dedrift(drift_rate=None): rate taken from metadata, else rejected', what=('raises',),
              typed_params=TP, no_inline=NI, args={'drift_rate': NONE})
    T.NOTNONE.add('drift_rate')
    r, I = ctx.run(fi, typed_params=TP, no_inline=NI)
    c = [e for e in I.events if e.kind == 'call' and e.data.get('name') == 'frame.Frame.from_data']
    ctx.require(c, 'dedrift no longer builds its result with from_data')
    mo = 'int(np.round(abs(drift_rate) * fr.tchans * fr.dt / fr.df))'
    # (compared where the result is actually built: not for rates the function has already rejected)
    reached = c[0].cond()
    nothing = lift('<not reached>')
    ctx.formula('FORMULA', 'de-drifted fch1 == frequency of the first/last kept column', fi,
                T.mk_ite(reached, c[0].data['bound'].get('fch1', NONE), nothing),
                T.mk_ite(reached, ctx.spec(fi, f'ITE(fr.ascending, ITE(drift_rate >= 0, fr.fmin, fr.fmin + {mo} * fr.df), '
                                               f'ITE(drift_rate >= 0, fr.fmax - {mo} * fr.df, fr.fmax))', typed_params=TP), nothing),
                node=c[0].node, construct='from_data(fch1=...) [dedrift]')

    # ---- D3 integrate
    ctx.clause = 'D3'
    fi = ctx.func('integrate.integrate')
    for ax in ('t', 'f', 0, 1):
        for mode in ('mean', 'sum'):
            for asf in (TRUE, FALSE):
                agree_ref(ctx, fi, REF_INTEGRATE, f'integrate[axis={ax!r}, mode={mode}, as_frame={asf.key == TRUE.key}]',
                          what=('return', 'calls'), typed_params=TP, no_inline=NI,
                          args={'axis': lift(ax), 'mode': lift(mode), 'as_frame': asf})
    for nm, ax in (('spectrum', 0), ('timeseries', 1)):
        f2 = ctx.func('integrate.' + nm)
        r, I = ctx.run(f2, typed_params=TP, no_inline=('integrate.integrate',))
        c = [e for e in I.events if e.kind == 'call' and e.data.get('name') == 'integrate.integrate']
        ok = len(c) == 1 and c[0].data['bound'].get('axis', NONE).const() == ax and c[0].data['bound'].get('as_frame', NONE).key == TRUE.key
        ctx.ob('AGREE', f'{nm}() == integrate(axis={ax}, as_frame=True) with mode/normalize forwarded', f2, ok,
               {'call': [e.text() for e in c]}, node=f2.node, construct=f'{nm} -> integrate')
        if ok:
            for p in ('mode', 'normalize', 'fr'):
                ctx.formula('AGREE', f'{nm}() forwards {p}', f2, c[0].data['bound'].get(p, NONE), sym(p), node=c[0].node,
                            construct=f'integrate({p}=...)')
    for cls, fixed in (('spectrum.Spectrum', ('tchans', 1)), ('timeseries.TimeSeries', ('fchans', 1))):
        f2 = ctx.func(cls + '.__init__')
        r, I = ctx.run(f2, no_inline=('frame.Frame.__init__',))
        c = [e for e in I.events if e.kind == 'call' and e.data.get('name') == 'frame.Frame.__init__']
        ctx.require(c, f'{cls}.__init__ no longer calls Frame.__init__')
        b = c[0].data['bound']
        ok = b.get(fixed[0], NONE).const() == fixed[1] and c[0].data.get('dstar') is not None or \
            (b.get(fixed[0], NONE).const() == fixed[1] and 'kwargs' in b)
        ctx.ob('PROPAGATE', f'{cls.split(".")[-1]} fixes {fixed[0]}=1 and forwards df, dt, fch1, ascending, data, seed and extra '
               f'keywords (t_start, source_name) to Frame', f2, ok and all(
                   b.get(p, NONE).key == sym(p).key for p in ('df', 'dt', 'fch1', 'ascending', 'data', 'seed')),
               {'bound': {k: pretty(v)[:40] for k, v in b.items()}}, node=c[0].node)

    # ---- D4 construction from data
    ctx.clause = 'D4'
    fd = ctx.func('frame.Frame.from_data')
    agree_ref(ctx, fd, REF_FROM_DATA, 'from_data: (tchans, fchans) from the data shape, extra keywords reach the constructor, '
              'a deep copy of the Waterfall is attached', what=('return', 'calls', 'attrstores', 'deletes'),
              no_inline=('frame.Frame.__init__', 'frame.Frame.add_metadata'))
    init = ctx.func('frame.Frame.__init__')
    T.NOTNONE.update({'DATA'})
    r, I = ctx.run(init, args={'fchans': NONE, 'tchans': NONE, 'data': sym('DATA'), 'waterfall': NONE,
                               'kwargs': Term.of(Atom('dict', (lift('t_start'), sym('TS')), (lift('source_name'), sym('SN'))))},
                   no_inline=('frame.Frame._update_noise_frame_stats', 'frame.Frame.get_params'), expand=False)
    dv = selfattr(r, 'data')
    # (terms do not distinguish a copy from its source -- copy(x) has the value of x -- so freshness is read off the
    #  expression that is stored: a call of an allocating function applied to the caller's array)
    FRESH = {'copy', 'deepcopy'}
    src = [e for e in I.events if e.kind == 'store' and e.data.get('target') == 'attr' and e.data.get('name') == 'data'
           and e.data['base'].key == sym('self').key]
    fresh = bool(src)
    for e in src:
        v = getattr(e.node, 'value', None)
        ok1 = isinstance(v, ast.Call) and (
            (isinstance(v.func, ast.Attribute) and v.func.attr in FRESH) or (isinstance(v.func, ast.Name) and v.func.id in FRESH))
        # np.array copies by default; asarray / ascontiguousarray / copy=False may return the input itself
        ok2 = isinstance(v, ast.Call) and isinstance(v.func, ast.Attribute) and v.func.attr == 'array' and \
            not any(k.arg == 'copy' and isinstance(k.value, ast.Constant) and k.value.value is False for k in v.keywords)
        fresh = fresh and (ok1 or ok2)
    ctx.ob('PROPAGATE', 'the data buffer of a frame built from data is always a fresh allocation (np.copy / np.array), never a '
           'possible view of the caller\'s array (asarray, ascontiguousarray, reshape, the array itself)', init, fresh,
           {'stored': pretty(dv)[:120] if dv is not None else None}, node=init.node, construct='self.data [freshness]')
    ctx.formula('PROPAGATE', 'the constructor takes t_start from its keyword', init, selfattr(r, 't_start') or NONE, sym('TS'),
                node=init.node, construct='self.t_start [keyword]')
    ctx.formula('PROPAGATE', 'the constructor takes source_name from its keyword', init, selfattr(r, 'source_name') or NONE, sym('SN'),
                node=init.node, construct='self.source_name [keyword]')


META = {
    'technique': 'static analysis: symbolic value analysis of the derivation helpers against reference definitions and explicit '
                 'registration formulas (FORMULA/AGREE incl. loop body, rejecting paths), argument propagation into the '
                 'constructors (PROPAGATE)',
    'level': 'Decides from the source that a slice takes columns l..r-1 and the frequency of its first/last column as fch1 '
             '(numpy index semantics, negative bounds included), that de-drifting shifts row i by round(|d| i dt/df) towards '
             'the start of the drift, trims to the common band, rejects rates leaving no channels and registers fch1 per '
             "orientation and drift sign, that integration sums/averages the right axis and wraps it with the parent's "
             "resolutions, and that every derived frame receives the parent's orientation, resolutions, start time, source "
             'name, generator and a copy of the data. A de-drift that performs fewer row stores than the reference loop (a vectorised gather) is left undecided rather than reported; "within one channel" for drifting signals is not decided.',
    'note': 'Real arithmetic; fr is typed as a Frame so fs/fmin/fmax expand to the grid formulas checked under C05.',
}
