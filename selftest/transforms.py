"""Whole-package, behaviour-preserving source transformations used as benign self-test variants (thorough tier): each is
applied to every module of a scratch copy of setigen; every check must stay silent on the result.  They are the everyday
spellings a maintenance commit changes -- annotations, conditional expressions, early returns, f-strings, keyword order,
temporaries -- and were each confirmed against the pinned test suite (55 passed) when they were added."""
import ast
import copy
import keyword
import os
import string


def _ends_in_jump(body):
    return bool(body) and isinstance(body[-1], (ast.Return, ast.Raise, ast.Continue, ast.Break))


def _names(node, ctx):
    return {x.id for x in ast.walk(node) if isinstance(x, ast.Name) and isinstance(x.ctx, ctx)}


class _StmtLists(ast.NodeTransformer):
    def rewrite(self, body, owner):
        return body

    def generic_visit(self, node):
        super().generic_visit(node)
        for field, old in ast.iter_fields(node):
            if isinstance(old, list) and old and isinstance(old[0], ast.stmt):
                setattr(node, field, self.rewrite(old, node))
        return node


class AnnotateSignatures(ast.NodeTransformer):
    """def f(x, y=1):  ->  def f(x: object, y: object = 1) -> object:"""
    def visit_FunctionDef(self, n):
        self.generic_visit(n)
        for a in n.args.posonlyargs + n.args.args + n.args.kwonlyargs:
            if a.arg not in ('self', 'cls') and a.annotation is None:
                a.annotation = ast.Name('object', ast.Load())
        if n.returns is None and n.name != '__init__':
            n.returns = ast.Name('object', ast.Load())
        return n


class AnnotatedAssignments(ast.NodeTransformer):
    """x = v (a local of a function)  ->  x: object = v"""
    def __init__(self):
        self.depth = 0

    def visit_FunctionDef(self, n):
        self.depth += 1
        self.generic_visit(n)
        self.depth -= 1
        return n

    def visit_Assign(self, n):
        if self.depth > 0 and len(n.targets) == 1 and isinstance(n.targets[0], ast.Name):
            return ast.AnnAssign(target=n.targets[0], annotation=ast.Name('object', ast.Load()), value=n.value, simple=1)
        return n


class NumpyUnaliased(ast.NodeTransformer):
    """import numpy as np; np.f(...)  ->  import numpy; numpy.f(...)"""
    def visit_Import(self, n):
        for a in n.names:
            if a.name == 'numpy' and a.asname == 'np':
                a.asname = None
        return n

    def visit_Name(self, n):
        if n.id == 'np':
            n.id = 'numpy'
        return n


class NegateConditionalExpressions(ast.NodeTransformer):
    """a if c else b  ->  b if not c else a"""
    def visit_IfExp(self, n):
        self.generic_visit(n)
        return ast.IfExp(test=ast.UnaryOp(ast.Not(), n.test), body=n.orelse, orelse=n.body)


class ReturnThroughTemporary(_StmtLists):
    """return <expression>  ->  result_ = <expression>; return result_"""
    def rewrite(self, body, owner):
        out = []
        for st in body:
            if isinstance(st, ast.Return) and st.value is not None and not isinstance(st.value, (ast.Name, ast.Constant)):
                out.append(ast.Assign(targets=[ast.Name('result_', ast.Store())], value=st.value))
                out.append(ast.Return(ast.Name('result_', ast.Load())))
            else:
                out.append(st)
        return out


class FormatToFString(ast.NodeTransformer):
    """'..{}..{:.2f}'.format(a, b)  ->  f'..{a}..{b:.2f}'  (plain positional fields only)"""
    def visit_Call(self, n):
        self.generic_visit(n)
        if isinstance(n.func, ast.Attribute) and n.func.attr == 'format' and isinstance(n.func.value, ast.Constant) and \
                isinstance(n.func.value.value, str) and not n.keywords and not any(isinstance(a, ast.Starred) for a in n.args):
            try:
                parts = list(string.Formatter().parse(n.func.value.value))
            except Exception:
                return n
            vals, i = [], 0
            for lit, field, spec, conv in parts:
                if lit:
                    vals.append(ast.Constant(lit))
                if field is None:
                    continue
                if field != '' or conv or (spec and '{' in spec) or i >= len(n.args):
                    return n
                vals.append(ast.FormattedValue(value=n.args[i], conversion=-1,
                                               format_spec=ast.JoinedStr([ast.Constant(spec)]) if spec else None))
                i += 1
            if i != len(n.args):
                return n
            return ast.JoinedStr(vals)
        return n


class StripDocstrings(ast.NodeTransformer):
    """every function / class docstring removed"""
    def visit_FunctionDef(self, n):
        self.generic_visit(n)
        if n.body and isinstance(n.body[0], ast.Expr) and isinstance(n.body[0].value, ast.Constant) and \
                isinstance(n.body[0].value.value, str):
            n.body = n.body[1:] or [ast.Pass()]
        return n
    visit_ClassDef = visit_FunctionDef


class NotIs(ast.NodeTransformer):
    """a is not b  ->  not (a is b);  a not in b  ->  not (a in b)"""
    def visit_Compare(self, n):
        self.generic_visit(n)
        if len(n.ops) == 1 and isinstance(n.ops[0], ast.IsNot):
            return ast.UnaryOp(ast.Not(), ast.Compare(n.left, [ast.Is()], n.comparators))
        if len(n.ops) == 1 and isinstance(n.ops[0], ast.NotIn):
            return ast.UnaryOp(ast.Not(), ast.Compare(n.left, [ast.In()], n.comparators))
        return n


class LambdaToDef(_StmtLists):
    """f = lambda a: e  ->  def f(a): return e"""
    def rewrite(self, body, owner):
        out = []
        for st in body:
            if isinstance(st, ast.Assign) and len(st.targets) == 1 and isinstance(st.targets[0], ast.Name) and \
                    isinstance(st.value, ast.Lambda) and not isinstance(owner, ast.ClassDef):
                out.append(ast.FunctionDef(name=st.targets[0].id, args=st.value.args, body=[ast.Return(st.value.body)],
                                           decorator_list=[], returns=None, type_comment=None, type_params=[]))
            else:
                out.append(st)
        return out


class AssignIfToConditionalExpression(_StmtLists):
    """if c: x = a else: x = b  ->  x = a if c else b   (and the same for a pair of returns)"""
    def rewrite(self, body, owner):
        out = []
        for st in body:
            if isinstance(st, ast.If) and len(st.body) == 1 and len(st.orelse) == 1 and all(
                    isinstance(x, ast.Assign) and len(x.targets) == 1 and isinstance(x.targets[0], ast.Name)
                    for x in st.body + st.orelse) and st.body[0].targets[0].id == st.orelse[0].targets[0].id:
                out.append(ast.Assign(st.body[0].targets, ast.IfExp(st.test, st.body[0].value, st.orelse[0].value)))
            elif isinstance(st, ast.If) and len(st.body) == 1 and len(st.orelse) == 1 and all(
                    isinstance(x, ast.Return) and x.value is not None for x in st.body + st.orelse):
                out.append(ast.Return(ast.IfExp(st.test, st.body[0].value, st.orelse[0].value)))
            else:
                out.append(st)
        return out


class ElseAfterReturn(_StmtLists):
    """if c: ...; return   REST   ->  if c: ...; return  else: REST"""
    def rewrite(self, body, owner):
        for i, st in enumerate(body):
            if isinstance(st, ast.If) and not st.orelse and _ends_in_jump(st.body) and i + 1 < len(body) and \
                    not isinstance(owner, ast.ClassDef):
                st.orelse = self.rewrite(body[i + 1:], owner)
                return body[:i + 1]
        return body


class FlattenElseAfterReturn(_StmtLists):
    """if c: ...; return  else: REST   ->  if c: ...; return   REST"""
    def rewrite(self, body, owner):
        out = []
        for st in body:
            if isinstance(st, ast.If) and st.orelse and _ends_in_jump(st.body):
                rest = st.orelse
                st.orelse = []
                out.append(st)
                out.extend(rest)
            else:
                out.append(st)
        return out


class ReverseKeywords(ast.NodeTransformer):
    """f(a=1, b=2)  ->  f(b=2, a=1)"""
    def visit_Call(self, n):
        self.generic_visit(n)
        if len(n.keywords) > 1 and all(k.arg for k in n.keywords):
            n.keywords = n.keywords[::-1]
        return n


class DictCalls(ast.NodeTransformer):
    """{'a': 1, 'b': 2}  ->  dict(a=1, b=2)   (identifier keys only)"""
    def visit_Dict(self, n):
        self.generic_visit(n)
        if n.keys and all(isinstance(k, ast.Constant) and isinstance(k.value, str) and k.value.isidentifier()
                          and not keyword.iskeyword(k.value) for k in n.keys):
            return ast.Call(ast.Name('dict', ast.Load()), [], [ast.keyword(k.value, v) for k, v in zip(n.keys, n.values)])
        return n


class TupleListArguments(ast.NodeTransformer):
    """np.concatenate([a, b])  ->  np.concatenate((a, b)) and the reverse for shape tuples handed as lists"""
    def visit_Call(self, n):
        self.generic_visit(n)
        f = ast.unparse(n.func)
        last = f.split('.')[-1]
        if f.startswith(('np.', 'xp.')) and last in ('concatenate', 'vstack', 'hstack', 'stack', 'zeros', 'ones', 'reshape',
                                                      'empty', 'full', 'tile'):
            n.args = [ast.Tuple(a.elts, ast.Load()) if isinstance(a, ast.List) and a.elts else
                      (ast.List(a.elts, ast.Load()) if isinstance(a, ast.Tuple) and last in ('concatenate', 'vstack', 'hstack', 'stack')
                       else a) for a in n.args]
        return n


class SquareAsProduct(ast.NodeTransformer):
    """x ** 2  ->  x * x   (names and attribute chains)"""
    def visit_BinOp(self, n):
        self.generic_visit(n)
        if isinstance(n.op, ast.Pow) and isinstance(n.right, ast.Constant) and n.right.value == 2 and \
                isinstance(n.left, (ast.Name, ast.Attribute)):
            return ast.BinOp(n.left, ast.Mult(), copy.deepcopy(n.left))
        return n


class MergeConstantAssignments(_StmtLists):
    """a = 1; b = 2  ->  a, b = 1, 2   (independent call-free assignments)"""
    def rewrite(self, body, owner):
        if isinstance(owner, ast.ClassDef):
            return body

        def simple(s):
            return isinstance(s, ast.Assign) and len(s.targets) == 1 and isinstance(s.targets[0], ast.Name) and not any(
                isinstance(x, (ast.Call, ast.Subscript, ast.Attribute, ast.Lambda, ast.ListComp)) for x in ast.walk(s.value))
        out = []
        for st in body:
            if out and simple(st) and simple(out[-1]) and st.targets[0].id not in _names(out[-1], ast.Load) and \
                    out[-1].targets[0].id not in _names(st.value, ast.Load) and st.targets[0].id != out[-1].targets[0].id:
                p = out.pop()
                out.append(ast.Assign([ast.Tuple([p.targets[0], st.targets[0]], ast.Store())],
                                      ast.Tuple([p.value, st.value], ast.Load())))
            else:
                out.append(st)
        return out


class SplitTupleAssignments(_StmtLists):
    """a, b = x, y  ->  a = x; b = y   (when y does not read a)"""
    def rewrite(self, body, owner):
        out = []
        for st in body:
            if isinstance(st, ast.Assign) and len(st.targets) == 1 and isinstance(st.targets[0], ast.Tuple) and \
                    isinstance(st.value, ast.Tuple) and len(st.targets[0].elts) == len(st.value.elts) and \
                    all(isinstance(t, ast.Name) for t in st.targets[0].elts) and \
                    not any(isinstance(v, ast.Starred) for v in st.value.elts):
                tn = [t.id for t in st.targets[0].elts]
                if not any(x in _names(v, ast.Load) for i, v in enumerate(st.value.elts) for x in tn[:i]):
                    for t, v in zip(st.targets[0].elts, st.value.elts):
                        out.append(ast.Assign([t], v))
                    continue
            out.append(st)
        return out


ALL = {
    'annotate_signatures': AnnotateSignatures, 'annotated_assignments': AnnotatedAssignments, 'numpy_unaliased': NumpyUnaliased,
    'negate_conditional_expressions': NegateConditionalExpressions, 'return_through_temporary': ReturnThroughTemporary,
    'format_to_fstring': FormatToFString, 'strip_docstrings': StripDocstrings, 'not_is': NotIs, 'lambda_to_def': LambdaToDef,
    'assign_if_to_conditional_expression': AssignIfToConditionalExpression, 'else_after_return': ElseAfterReturn,
    'flatten_else_after_return': FlattenElseAfterReturn, 'reverse_keywords': ReverseKeywords, 'dict_calls': DictCalls,
    'tuple_list_arguments': TupleListArguments, 'square_as_product': SquareAsProduct,
    'merge_constant_assignments': MergeConstantAssignments, 'split_tuple_assignments': SplitTupleAssignments,
}


def apply(root, name):
    """apply transformation `name` to every module under root/setigen; returns None (or a reason why it could not be)"""
    cls = ALL[name]
    n_changed = 0
    for dp, _, files in os.walk(os.path.join(root, 'setigen')):
        for f in files:
            if not f.endswith('.py'):
                continue
            p = os.path.join(dp, f)
            src = open(p).read()
            tree = ast.parse(src)
            before = ast.dump(tree)
            tree = cls().visit(tree)
            ast.fix_missing_locations(tree)
            if ast.dump(tree) != before:
                n_changed += 1
            out = ast.unparse(tree) + '\n'
            try:
                ast.parse(out)
            except SyntaxError as e:
                return f'transform {name} produced unparsable code for {f}: {e}'
            open(p, 'w').write(out)
    return None if n_changed else f'transform {name} changed nothing'
