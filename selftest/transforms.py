"""Whole-package, behaviour-preserving source transformations used as benign self-test variants (thorough tier): each is
applied to every module of a scratch copy of setigen; every check must stay silent on the result.  They are the everyday
spellings a maintenance commit changes -- annotations, conditional expressions, early returns, f-strings, keyword order,
temporaries -- and were each confirmed against the pinned test suite (55 passed) when they were added."""
import ast
import copy
import keyword
import os
import string


def _ends_in_jump(body):
    return bool(body) and isinstance(body[-1], (ast.Return, ast.Raise, ast.Continue, ast.Break))


def _names(node, ctx):
    return {x.id for x in ast.walk(node) if isinstance(x, ast.Name) and isinstance(x.ctx, ctx)}


class _StmtLists(ast.NodeTransformer):
    def rewrite(self, body, owner):
        return body

    def generic_visit(self, node):
        super().generic_visit(node)
        for field, old in ast.iter_fields(node):
            if isinstance(old, list) and old and isinstance(old[0], ast.stmt):
                setattr(node, field, self.rewrite(old, node))
        return node


class AnnotateSignatures(ast.NodeTransformer):
    """def f(x, y=1):  ->  def f(x: object, y: object = 1) -> object:"""
    def visit_FunctionDef(self, n):
        self.generic_visit(n)
        for a in n.args.posonlyargs + n.args.args + n.args.kwonlyargs:
            if a.arg not in ('self', 'cls') and a.annotation is None:
                a.annotation = ast.Name('object', ast.Load())
        if n.returns is None and n.name != '__init__':
            n.returns = ast.Name('object', ast.Load())
        return n


class AnnotatedAssignments(ast.NodeTransformer):
    """x = v (a local of a function)  ->  x: object = v"""
    def __init__(self):
        self.depth = 0

    def visit_FunctionDef(self, n):
        self.depth += 1
        self.generic_visit(n)
        self.depth -= 1
        return n

    def visit_Assign(self, n):
        if self.depth > 0 and len(n.targets) == 1 and isinstance(n.targets[0], ast.Name):
            return ast.AnnAssign(target=n.targets[0], annotation=ast.Name('object', ast.Load()), value=n.value, simple=1)
        return n


class NumpyUnaliased(ast.NodeTransformer):
    """import numpy as np; np.f(...)  ->  import numpy; numpy.f(...)"""
    def visit_Import(self, n):
        for a in n.names:
            if a.name == 'numpy' and a.asname == 'np':
                a.asname = None
        return n

    def visit_Name(self, n):
        if n.id == 'np':
            n.id = 'numpy'
        return n


class NegateConditionalExpressions(ast.NodeTransformer):
    """a if c else b  ->  b if not c else a"""
    def visit_IfExp(self, n):
        self.generic_visit(n)
        return ast.IfExp(test=ast.UnaryOp(ast.Not(), n.test), body=n.orelse, orelse=n.body)


class ReturnThroughTemporary(_StmtLists):
    """return <expression>  ->  result_ = <expression>; return result_"""
    def rewrite(self, body, owner):
        out = []
        for st in body:
            if isinstance(st, ast.Return) and st.value is not None and not isinstance(st.value, (ast.Name, ast.Constant)):
                out.append(ast.Assign(targets=[ast.Name('result_', ast.Store())], value=st.value))
                out.append(ast.Return(ast.Name('result_', ast.Load())))
            else:
                out.append(st)
        return out


class FormatToFString(ast.NodeTransformer):
    """'..{}..{:.2f}'.format(a, b)  ->  f'..{a}..{b:.2f}'  (plain positional fields only)"""
    def visit_Call(self, n):
        self.generic_visit(n)
        if isinstance(n.func, ast.Attribute) and n.func.attr == 'format' and isinstance(n.func.value, ast.Constant) and \
                isinstance(n.func.value.value, str) and not n.keywords and not any(isinstance(a, ast.Starred) for a in n.args):
            try:
                parts = list(string.Formatter().parse(n.func.value.value))
            except Exception:
                return n
            vals, i = [], 0
            for lit, field, spec, conv in parts:
                if lit:
                    vals.append(ast.Constant(lit))
                if field is None:
                    continue
                if field != '' or conv or (spec and '{' in spec) or i >= len(n.args):
                    return n
                vals.append(ast.FormattedValue(value=n.args[i], conversion=-1,
                                               format_spec=ast.JoinedStr([ast.Constant(spec)]) if spec else None))
                i += 1
            if i != len(n.args):
                return n
            return ast.JoinedStr(vals)
        return n


class StripDocstrings(ast.NodeTransformer):
    """every function / class docstring removed"""
    def visit_FunctionDef(self, n):
        self.generic_visit(n)
        if n.body and isinstance(n.body[0], ast.Expr) and isinstance(n.body[0].value, ast.Constant) and \
                isinstance(n.body[0].value.value, str):
            n.body = n.body[1:] or [ast.Pass()]
        return n
    visit_ClassDef = visit_FunctionDef


class NotIs(ast.NodeTransformer):
    """a is not b  ->  not (a is b);  a not in b  ->  not (a in b)"""
    def visit_Compare(self, n):
        self.generic_visit(n)
        if len(n.ops) == 1 and isinstance(n.ops[0], ast.IsNot):
            return ast.UnaryOp(ast.Not(), ast.Compare(n.left, [ast.Is()], n.comparators))
        if len(n.ops) == 1 and isinstance(n.ops[0], ast.NotIn):
            return ast.UnaryOp(ast.Not(), ast.Compare(n.left, [ast.In()], n.comparators))
        return n


class LambdaToDef(_StmtLists):
    """f = lambda a: e  ->  def f(a): return e"""
    def rewrite(self, body, owner):
        out = []
        for st in body:
            if isinstance(st, ast.Assign) and len(st.targets) == 1 and isinstance(st.targets[0], ast.Name) and \
                    isinstance(st.value, ast.Lambda) and not isinstance(owner, ast.ClassDef):
                out.append(ast.FunctionDef(name=st.targets[0].id, args=st.value.args, body=[ast.Return(st.value.body)],
                                           decorator_list=[], returns=None, type_comment=None, type_params=[]))
            else:
                out.append(st)
        return out


class AssignIfToConditionalExpression(_StmtLists):
    """if c: x = a else: x = b  ->  x = a if c else b   (and the same for a pair of returns)"""
    def rewrite(self, body, owner):
        out = []
        for st in body:
            if isinstance(st, ast.If) and len(st.body) == 1 and len(st.orelse) == 1 and all(
                    isinstance(x, ast.Assign) and len(x.targets) == 1 and isinstance(x.targets[0], ast.Name)
                    for x in st.body + st.orelse) and st.body[0].targets[0].id == st.orelse[0].targets[0].id:
                out.append(ast.Assign(st.body[0].targets, ast.IfExp(st.test, st.body[0].value, st.orelse[0].value)))
            elif isinstance(st, ast.If) and len(st.body) == 1 and len(st.orelse) == 1 and all(
                    isinstance(x, ast.Return) and x.value is not None for x in st.body + st.orelse):
                out.append(ast.Return(ast.IfExp(st.test, st.body[0].value, st.orelse[0].value)))
            else:
                out.append(st)
        return out


class ElseAfterReturn(_StmtLists):
    """if c: ...; return   REST   ->  if c: ...; return  else: REST"""
    def rewrite(self, body, owner):
        for i, st in enumerate(body):
            if isinstance(st, ast.If) and not st.orelse and _ends_in_jump(st.body) and i + 1 < len(body) and \
                    not isinstance(owner, ast.ClassDef):
                st.orelse = self.rewrite(body[i + 1:], owner)
                return body[:i + 1]
        return body


class FlattenElseAfterReturn(_StmtLists):
    """if c: ...; return  else: REST   ->  if c: ...; return   REST"""
    def rewrite(self, body, owner):
        out = []
        for st in body:
            if isinstance(st, ast.If) and st.orelse and _ends_in_jump(st.body):
                rest = st.orelse
                st.orelse = []
                out.append(st)
                out.extend(rest)
            else:
                out.append(st)
        return out


class ReverseKeywords(ast.NodeTransformer):
    """f(a=1, b=2)  ->  f(b=2, a=1)"""
    def visit_Call(self, n):
        self.generic_visit(n)
        if len(n.keywords) > 1 and all(k.arg for k in n.keywords):
            n.keywords = n.keywords[::-1]
        return n


class DictCalls(ast.NodeTransformer):
    """{'a': 1, 'b': 2}  ->  dict(a=1, b=2)   (identifier keys only)"""
    def visit_Dict(self, n):
        self.generic_visit(n)
        if n.keys and all(isinstance(k, ast.Constant) and isinstance(k.value, str) and k.value.isidentifier()
                          and not keyword.iskeyword(k.value) for k in n.keys):
            return ast.Call(ast.Name('dict', ast.Load()), [], [ast.keyword(k.value, v) for k, v in zip(n.keys, n.values)])
        return n


class TupleListArguments(ast.NodeTransformer):
    """np.concatenate([a, b])  ->  np.concatenate((a, b)) and the reverse for shape tuples handed as lists"""
    def visit_Call(self, n):
        self.generic_visit(n)
        f = ast.unparse(n.func)
        last = f.split('.')[-1]
        if f.startswith(('np.', 'xp.')) and last in ('concatenate', 'vstack', 'hstack', 'stack', 'zeros', 'ones', 'reshape',
                                                      'empty', 'full', 'tile'):
            n.args = [ast.Tuple(a.elts, ast.Load()) if isinstance(a, ast.List) and a.elts else
                      (ast.List(a.elts, ast.Load()) if isinstance(a, ast.Tuple) and last in ('concatenate', 'vstack', 'hstack', 'stack')
                       else a) for a in n.args]
        return n


class SquareAsProduct(ast.NodeTransformer):
    """x ** 2  ->  x * x   (names and attribute chains)"""
    def visit_BinOp(self, n):
        self.generic_visit(n)
        if isinstance(n.op, ast.Pow) and isinstance(n.right, ast.Constant) and n.right.value == 2 and \
                isinstance(n.left, (ast.Name, ast.Attribute)):
            return ast.BinOp(n.left, ast.Mult(), copy.deepcopy(n.left))
        return n


class MergeConstantAssignments(_StmtLists):
    """a = 1; b = 2  ->  a, b = 1, 2   (independent call-free assignments)"""
    def rewrite(self, body, owner):
        if isinstance(owner, ast.ClassDef):
            return body

        def simple(s):
            return isinstance(s, ast.Assign) and len(s.targets) == 1 and isinstance(s.targets[0], ast.Name) and not any(
                isinstance(x, (ast.Call, ast.Subscript, ast.Attribute, ast.Lambda, ast.ListComp)) for x in ast.walk(s.value))
        out = []
        for st in body:
            if out and simple(st) and simple(out[-1]) and st.targets[0].id not in _names(out[-1], ast.Load) and \
                    out[-1].targets[0].id not in _names(st.value, ast.Load) and st.targets[0].id != out[-1].targets[0].id:
                p = out.pop()
                out.append(ast.Assign([ast.Tuple([p.targets[0], st.targets[0]], ast.Store())],
                                      ast.Tuple([p.value, st.value], ast.Load())))
            else:
                out.append(st)
        return out


class SplitTupleAssignments(_StmtLists):
    """a, b = x, y  ->  a = x; b = y   (when y does not read a)"""
    def rewrite(self, body, owner):
        out = []
        for st in body:
            if isinstance(st, ast.Assign) and len(st.targets) == 1 and isinstance(st.targets[0], ast.Tuple) and \
                    isinstance(st.value, ast.Tuple) and len(st.targets[0].elts) == len(st.value.elts) and \
                    all(isinstance(t, ast.Name) for t in st.targets[0].elts) and \
                    not any(isinstance(v, ast.Starred) for v in st.value.elts):
                tn = [t.id for t in st.targets[0].elts]
                if not any(x in _names(v, ast.Load) for i, v in enumerate(st.value.elts) for x in tn[:i]):
                    for t, v in zip(st.targets[0].elts, st.value.elts):
                        out.append(ast.Assign([t], v))
                    continue
            out.append(st)
        return out



# ---- heavier whole-package transforms (round 5, second batch): statement order, conditional expressions for
# assign-then-override, early `continue`, named constants, numpy functions as array methods, automatic extract-method

def _simple_pure_assign(s):
    return isinstance(s,ast.Assign) and len(s.targets)==1 and isinstance(s.targets[0],ast.Name) and not any(isinstance(x,(ast.Call,ast.Lambda,ast.ListComp,ast.NamedExpr,ast.Yield,ast.Await,ast.GeneratorExp,ast.DictComp,ast.SetComp)) for x in ast.walk(s.value))
class SwapIndependent(_StmtLists):
    """a = E1; b = E2 (call-free, independent)  ->  b = E2; a = E1"""
    def rewrite(self,body,owner):
        if isinstance(owner,ast.ClassDef): return body
        out=list(body); i=0
        while i+1<len(out):
            a,b=out[i],out[i+1]
            if _simple_pure_assign(a) and _simple_pure_assign(b) and a.targets[0].id!=b.targets[0].id and a.targets[0].id not in _names(b.value,ast.Load) and b.targets[0].id not in _names(a.value,ast.Load):
                out[i],out[i+1]=b,a; i+=2
            else: i+=1
        return out
class OverrideToIfExp(_StmtLists):
    """x = a; if c: x = b   ->   x = b if c else a   (a, c call-free, c not reading x)"""
    def rewrite(self,body,owner):
        out=[]; i=0
        while i<len(body):
            st=body[i]
            if i+1<len(body) and _simple_pure_assign(st) and isinstance(body[i+1],ast.If) and not body[i+1].orelse and len(body[i+1].body)==1:
                inner=body[i+1].body[0]; x=st.targets[0].id
                if isinstance(inner,ast.Assign) and len(inner.targets)==1 and isinstance(inner.targets[0],ast.Name) and inner.targets[0].id==x and x not in _names(body[i+1].test,ast.Load) and not any(isinstance(n,(ast.Call,ast.NamedExpr)) for n in ast.walk(body[i+1].test)):
                    # b may read x (x = x + 1): substitute a for x in b
                    class Sub(ast.NodeTransformer):
                        def visit_Name(self,n):
                            return copy.deepcopy(st.value) if (n.id==x and isinstance(n.ctx,ast.Load)) else n
                    bval=Sub().visit(copy.deepcopy(inner.value))
                    out.append(ast.Assign([ast.Name(x,ast.Store())], ast.IfExp(body[i+1].test,bval,st.value))); i+=2; continue
            if i+1<len(body) and _simple_pure_assign(st) and isinstance(body[i+1],ast.If) and not body[i+1].orelse and len(body[i+1].body)==1:
                inner=body[i+1].body[0]; x=st.targets[0].id
                if isinstance(inner,ast.AugAssign) and isinstance(inner.target,ast.Name) and inner.target.id==x and x not in _names(body[i+1].test,ast.Load) and not any(isinstance(n,(ast.Call,ast.NamedExpr)) for n in ast.walk(body[i+1].test)) and isinstance(st.value,(ast.Constant,ast.Attribute,ast.Name)):
                    out.append(ast.Assign([ast.Name(x,ast.Store())], ast.IfExp(body[i+1].test,ast.BinOp(copy.deepcopy(st.value),inner.op,inner.value),st.value))); i+=2; continue
            out.append(st); i+=1
        return out
class EarlyContinue(ast.NodeTransformer):
    """for ..: if c: BODY   ->   for ..: if not c: continue; BODY"""
    def visit_For(self,n):
        self.generic_visit(n)
        if len(n.body)==1 and isinstance(n.body[0],ast.If) and not n.body[0].orelse and not n.orelse:
            i=n.body[0]
            n.body=[ast.If(ast.UnaryOp(ast.Not(),i.test),[ast.Continue()],[])]+i.body
        return n
class NamedConstants(ast.NodeTransformer):
    """integer literals 80, 512, 16 in function bodies -> module constants"""
    VALUES={80:'_CARD_BYTES',512:'_SECTOR_BYTES',16:'_SIXTEEN',8:'_EIGHT'}
    def __init__(self): self.used=set(); self.depth=0
    def visit_FunctionDef(self,n):
        self.depth+=1; 
        n.body=[self.visit(s) for s in n.body]   # not defaults/decorators
        self.depth-=1; return n
    def visit_JoinedStr(self,n): return n
    def visit_Constant(self,n):
        if self.depth>0 and type(n.value) is int and n.value in self.VALUES:
            self.used.add(n.value); return ast.Name(self.VALUES[n.value],ast.Load())
        return n
    def visit_Module(self,n):
        self.generic_visit(n)
        if self.used:
            k=0
            while k<len(n.body) and (isinstance(n.body[k],(ast.Import,ast.ImportFrom)) or (isinstance(n.body[k],ast.Expr) and isinstance(n.body[k].value,ast.Constant)) or isinstance(n.body[k],(ast.If,ast.Try))): k+=1
            for v in sorted(self.used): n.body.insert(k, ast.Assign([ast.Name(self.VALUES[v],ast.Store())],ast.Constant(v)))
        return n
class NumpyMethods(ast.NodeTransformer):
    """np.mean(x, ...) -> x.mean(...) for sum/mean/std/max/min/reshape/copy where x is a Name/Attribute/Subscript"""
    def visit_Call(self,n):
        self.generic_visit(n)
        f=n.func
        if isinstance(f,ast.Attribute) and isinstance(f.value,ast.Name) and f.value.id in ('np','xp') and f.attr in ('mean','std','sum','max','min','reshape','copy') and n.args and isinstance(n.args[0],(ast.Name,ast.Attribute,ast.Subscript)) and not isinstance(n.args[0],ast.Starred):
            return ast.Call(ast.Attribute(n.args[0],f.attr,ast.Load()),n.args[1:],n.keywords)
        return n
class ExtractMethod(ast.NodeTransformer):
    """the middle third of the top-level statements of every function with >= 6 statements becomes a module-level helper
    (reads -> parameters, names assigned and used later -> returned tuple); blocks with return/yield/break/continue/global/nonlocal,
    nested defs or del are skipped"""
    def __init__(self): self.new=[]; self.k=0; self.modnames=set()
    def visit_Module(self,n):
        self.modnames={x.id for x in ast.walk(n) if isinstance(x,ast.Name)}|{a.asname or a.name.split('.')[0] for s in ast.walk(n) if isinstance(s,(ast.Import,ast.ImportFrom)) for a in s.names}
        self.generic_visit(n)
        n.body.extend(self.new); return n
    def visit_ClassDef(self,n):
        self.generic_visit(n); return n
    def visit_FunctionDef(self,n):
        body=n.body
        start=1 if (body and isinstance(body[0],ast.Expr) and isinstance(body[0].value,ast.Constant)) else 0
        stmts=body[start:]
        if len(stmts)<6: return n
        a=len(stmts)//3; b=2*len(stmts)//3
        block=stmts[a:b]
        bad=(ast.Return,ast.Yield,ast.YieldFrom,ast.Break,ast.Continue,ast.Global,ast.Nonlocal,ast.FunctionDef,ast.ClassDef,ast.Delete,ast.Lambda,ast.Try,ast.With,ast.NamedExpr)
        if any(isinstance(x,bad) for s in block for x in ast.walk(s)): return n
        if any(isinstance(x,(ast.Nonlocal,ast.Global,ast.Yield,ast.YieldFrom)) for x in ast.walk(n)): return n
        # names local to the function
        params=[x.arg for x in n.args.posonlyargs+n.args.args+n.args.kwonlyargs]+([n.args.vararg.arg] if n.args.vararg else [])+([n.args.kwarg.arg] if n.args.kwarg else [])
        assigned_in_func={x.id for x in ast.walk(n) if isinstance(x,ast.Name) and isinstance(x.ctx,ast.Store)}|set(params)
        before={x.id for s in stmts[:a] for x in ast.walk(s) if isinstance(x,ast.Name) and isinstance(x.ctx,ast.Store)}|set(params)
        comp_locals={x.id for s in block for c in ast.walk(s) if isinstance(c,(ast.ListComp,ast.SetComp,ast.DictComp,ast.GeneratorExp)) for g in c.generators for x in ast.walk(g.target) if isinstance(x,ast.Name)}
        reads=[]; 
        for s in block:
            for x in ast.walk(s):
                if isinstance(x,ast.Name) and isinstance(x.ctx,ast.Load) and x.id in assigned_in_func and x.id not in reads and x.id not in comp_locals: reads.append(x.id)
        writes=[]
        for s in block:
            for x in ast.walk(s):
                if isinstance(x,ast.Name) and isinstance(x.ctx,ast.Store) and x.id not in writes and x.id not in comp_locals: writes.append(x.id)
        # reads of names first assigned inside the block before being read are fine to pass only if defined before; require defined before or written in block
        definite=set(params)
        for s_ in stmts[:a]:
            if isinstance(s_,ast.Assign):
                for t_ in s_.targets:
                    for x in ast.walk(t_):
                        if isinstance(x,ast.Name) and isinstance(x.ctx,ast.Store): definite.add(x.id)
        first={}
        for s_ in block:
            for x in sorted([y for y in ast.walk(s_) if isinstance(y,ast.Name)], key=lambda y:(y.lineno,y.col_offset)):
                if x.id in assigned_in_func and x.id not in comp_locals:
                    # the value of an assignment is evaluated before its target is bound
                    first.setdefault(x.id, 'L' if isinstance(x.ctx,ast.Load) else 'S')
        # (x = f(x): the target precedes the value textually; treat any name that is loaded anywhere in the statement that first stores it as a load)
        for s_ in block:
            if isinstance(s_,(ast.Assign,ast.AugAssign)):
                tg={y.id for t_ in (s_.targets if isinstance(s_,ast.Assign) else [s_.target]) for y in ast.walk(t_) if isinstance(y,ast.Name)}
                ld={y.id for y in ast.walk(s_.value) if isinstance(y,ast.Name)}
                for nm in tg&ld:
                    if first.get(nm)=='S' and not any(nm in {y.id for y in ast.walk(q) if isinstance(y,ast.Name)} for q in block[:block.index(s_)]): first[nm]='L'
                if isinstance(s_,ast.AugAssign) and isinstance(s_.target,ast.Name): 
                    if not any(s_.target.id in {y.id for y in ast.walk(q) if isinstance(y,ast.Name)} for q in block[:block.index(s_)]): first[s_.target.id]='L'
        ins=[r for r in reads if first.get(r)=='L']
        if any(r not in definite for r in ins): return n
        before=definite
        # a name read in the block, not defined before, but written in block: must be written before read -> accept (approximation)
        after_reads={x.id for s in stmts[b:] for x in ast.walk(s) if isinstance(x,ast.Name) and isinstance(x.ctx,ast.Load)}
        outs=[w for w in writes if w in after_reads]
        # conditional writes of names that existed before must be passed in as well
        definite_in_block=set()
        for s_ in block:
            if isinstance(s_,ast.Assign):
                for t_ in s_.targets:
                    for x in ast.walk(t_):
                        if isinstance(x,ast.Name) and isinstance(x.ctx,ast.Store): definite_in_block.add(x.id)
        if any(w not in definite_in_block and w not in definite for w in outs): return n
        maybe_before={x.id for s_ in stmts[:a] for x in ast.walk(s_) if isinstance(x,ast.Name) and isinstance(x.ctx,ast.Store)}|set(params)
        for w in outs:
            if w in maybe_before and w not in ins:
                if w not in definite: return n
                ins.append(w)
        self.k+=1
        hname=f'_extracted_{n.name.strip("_")}_{self.k}'
        helper=ast.FunctionDef(name=hname,args=ast.arguments(posonlyargs=[],args=[ast.arg(i) for i in ins],kwonlyargs=[],kw_defaults=[],defaults=[],vararg=None,kwarg=None),
            body=copy.deepcopy(block)+[ast.Return(ast.Tuple([ast.Name(o,ast.Load()) for o in outs],ast.Load()))],decorator_list=[],returns=None,type_comment=None,type_params=[])
        call=ast.Call(ast.Name(hname,ast.Load()),[ast.Name(i,ast.Load()) for i in ins],[])
        if outs:
            st=ast.Assign([ast.Tuple([ast.Name(o,ast.Store()) for o in outs],ast.Store())],call)
        else:
            st=ast.Expr(call)
        n.body=body[:start]+stmts[:a]+[st]+stmts[b:]
        self.new.append(helper)
        return n

ALL = {
    'annotate_signatures': AnnotateSignatures, 'annotated_assignments': AnnotatedAssignments, 'numpy_unaliased': NumpyUnaliased,
    'negate_conditional_expressions': NegateConditionalExpressions, 'return_through_temporary': ReturnThroughTemporary,
    'format_to_fstring': FormatToFString, 'strip_docstrings': StripDocstrings, 'not_is': NotIs, 'lambda_to_def': LambdaToDef,
    'assign_if_to_conditional_expression': AssignIfToConditionalExpression, 'else_after_return': ElseAfterReturn,
    'flatten_else_after_return': FlattenElseAfterReturn, 'reverse_keywords': ReverseKeywords, 'dict_calls': DictCalls,
    'tuple_list_arguments': TupleListArguments, 'square_as_product': SquareAsProduct,
    'merge_constant_assignments': MergeConstantAssignments, 'split_tuple_assignments': SplitTupleAssignments,
    'swap_independent_assignments': SwapIndependent, 'override_to_conditional_expression': OverrideToIfExp,
    'early_continue': EarlyContinue, 'named_constants': NamedConstants, 'numpy_methods': NumpyMethods,
    'extract_method': ExtractMethod,
}


def apply(root, name):
    """apply transformation `name` to every module under root/setigen; returns None (or a reason why it could not be)"""
    cls = ALL[name]
    n_changed = 0
    for dp, _, files in os.walk(os.path.join(root, 'setigen')):
        for f in files:
            if not f.endswith('.py'):
                continue
            p = os.path.join(dp, f)
            src = open(p).read()
            tree = ast.parse(src)
            before = ast.dump(tree)
            tree = cls().visit(tree)
            ast.fix_missing_locations(tree)
            if ast.dump(tree) != before:
                n_changed += 1
            out = ast.unparse(tree) + '\n'
            try:
                ast.parse(out)
            except SyntaxError as e:
                return f'transform {name} produced unparsable code for {f}: {e}'
            open(p, 'w').write(out)
    return None if n_changed else f'transform {name} changed nothing'


class ConditionalRebind(ast.NodeTransformer):
    """if c: p = b   (p a parameter of the function, statement at the top level of its body)  ->  p = b if c else p"""
    def visit_FunctionDef(self, n):
        self.generic_visit(n)
        params = {a.arg for a in n.args.posonlyargs + n.args.args + n.args.kwonlyargs}
        out = []
        for st in n.body:
            if isinstance(st, ast.If) and not st.orelse and len(st.body) == 1 and isinstance(st.body[0], ast.Assign) and \
                    len(st.body[0].targets) == 1 and isinstance(st.body[0].targets[0], ast.Name) and \
                    st.body[0].targets[0].id in params:
                x = st.body[0].targets[0].id
                out.append(ast.Assign([ast.Name(x, ast.Store())], ast.IfExp(st.test, st.body[0].value, ast.Name(x, ast.Load()))))
            else:
                out.append(st)
        n.body = out
        return n


ALL['conditional_rebind'] = ConditionalRebind


_PURE_HEADS = {'len', 'int', 'float', 'min', 'max', 'abs', 'round', 'tuple', 'list', 'str', 'bool', 'isinstance', 'range'}


def _pure_expr(e):
    """no calls other than builtins / numpy functions, no walrus / await / yield / lambda"""
    for x in ast.walk(e):
        if isinstance(x, (ast.NamedExpr, ast.Await, ast.Yield, ast.YieldFrom, ast.Lambda)):
            return False
        if isinstance(x, ast.Call):
            f = x.func
            if isinstance(f, ast.Name) and f.id in _PURE_HEADS:
                continue
            if isinstance(f, ast.Attribute) and isinstance(f.value, ast.Name) and f.value.id in ('np', 'xp', 'math'):
                if f.attr in ('copy', 'array', 'zeros', 'empty', 'ones', 'full', 'zeros_like'):
                    return False        # (a fresh array: inlining could change aliasing)
                continue
            return False
    return True


class InlineTemporaries(_StmtLists):
    """t = E; <statement reading t once>   ->   <statement with E in place of t>
    (E pure, t a plain local read nowhere else in the function, the next statement a simple one)"""
    def __init__(self):
        self.loads = {}

    def visit_FunctionDef(self, n):
        old = self.loads
        self.loads = {}
        for x in ast.walk(n):
            if isinstance(x, ast.Name) and isinstance(x.ctx, ast.Load):
                self.loads[x.id] = self.loads.get(x.id, 0) + 1
        stores = {}
        for x in ast.walk(n):
            if isinstance(x, ast.Name) and isinstance(x.ctx, ast.Store):
                stores[x.id] = stores.get(x.id, 0) + 1
        self.stores = stores
        self.generic_visit(n)
        self.loads = old
        return n

    def rewrite(self, body, owner):
        if isinstance(owner, (ast.ClassDef, ast.Module)):
            return body
        out = []
        i = 0
        while i < len(body):
            st = body[i]
            nxt = body[i + 1] if i + 1 < len(body) else None
            if isinstance(st, ast.Assign) and len(st.targets) == 1 and isinstance(st.targets[0], ast.Name) and nxt is not None \
                    and isinstance(nxt, (ast.Assign, ast.Return, ast.Expr, ast.AugAssign)) and _pure_expr(st.value):
                t = st.targets[0].id
                uses = [x for x in ast.walk(nxt) if isinstance(x, ast.Name) and x.id == t and isinstance(x.ctx, ast.Load)]
                nested = any(isinstance(c, (ast.ListComp, ast.SetComp, ast.DictComp, ast.GeneratorExp, ast.Lambda, ast.IfExp, ast.BoolOp))
                             and any(y is uses[0] for y in ast.walk(c)) for c in ast.walk(nxt)) if uses else True
                reads_of_value = _names(st.value, ast.Load)
                stored_in_next = _names(nxt, ast.Store)
                if len(uses) == 1 and not nested and self.loads.get(t, 0) == 1 and getattr(self, 'stores', {}).get(t, 0) == 1 and \
                        not (reads_of_value & stored_in_next) and t not in stored_in_next:
                    class Sub(ast.NodeTransformer):
                        def visit_Name(s_, x):
                            return copy.deepcopy(st.value) if (x.id == t and isinstance(x.ctx, ast.Load)) else x
                    out.append(Sub().visit(nxt))
                    i += 2
                    continue
            out.append(st)
            i += 1
        return out


class AppendLoopToComprehension(_StmtLists):
    """L = []; for x in it: L.append(e)   ->   L = [e for x in it]"""
    def rewrite(self, body, owner):
        out = []
        i = 0
        while i < len(body):
            st = body[i]
            nxt = body[i + 1] if i + 1 < len(body) else None
            if isinstance(st, ast.Assign) and len(st.targets) == 1 and isinstance(st.targets[0], ast.Name) and \
                    isinstance(st.value, ast.List) and not st.value.elts and isinstance(nxt, ast.For) and not nxt.orelse and \
                    len(nxt.body) == 1 and isinstance(nxt.body[0], ast.Expr) and isinstance(nxt.body[0].value, ast.Call):
                c = nxt.body[0].value
                L = st.targets[0].id
                if isinstance(c.func, ast.Attribute) and c.func.attr == 'append' and isinstance(c.func.value, ast.Name) and \
                        c.func.value.id == L and len(c.args) == 1 and not c.keywords and L not in _names(c.args[0], ast.Load) and \
                        L not in _names(nxt.iter, ast.Load):
                    out.append(ast.Assign([ast.Name(L, ast.Store())],
                                          ast.ListComp(c.args[0], [ast.comprehension(nxt.target, nxt.iter, [], 0)])))
                    i += 2
                    continue
            out.append(st)
            i += 1
        return out


ALL['inline_temporaries'] = InlineTemporaries
ALL['append_loop_to_comprehension'] = AppendLoopToComprehension


def _private_names(root):
    """private function / method names of the package that the test suite does not mention"""
    priv = set()
    for dp, _, files in os.walk(os.path.join(root, 'setigen')):
        for f in files:
            if f.endswith('.py'):
                for n in ast.walk(ast.parse(open(os.path.join(dp, f)).read())):
                    if isinstance(n, ast.FunctionDef) and n.name.startswith('_') and not n.name.startswith('__'):
                        priv.add(n.name)
    return priv


class RenamePrivateFunctions(ast.NodeTransformer):
    """every private function / method `_name` becomes `_name_impl`, definition and references"""
    PRIV = set()

    def visit_FunctionDef(self, n):
        self.generic_visit(n)
        if n.name in self.PRIV:
            n.name += '_impl'
        return n

    def visit_Attribute(self, n):
        self.generic_visit(n)
        if n.attr in self.PRIV:
            n.attr += '_impl'
        return n

    def visit_Name(self, n):
        if n.id in self.PRIV:
            n.id += '_impl'
        return n


ALL['rename_private_functions'] = RenamePrivateFunctions
_apply_plain = apply


def apply(root, name):          # noqa: F811  (the renaming transform needs a package-wide pre-pass)
    if name == 'rename_private_functions':
        RenamePrivateFunctions.PRIV = _private_names(root)
    return _apply_plain(root, name)
