"""Self-validation: re-run a property's rules on scratch copies of setigen/*.py with one
construct broken (must be reported) or benignly rewritten (must stay silent).
The verdict about /repo never comes from here; a failing corpus means the CHECKER is broken (exit 2)."""
import ast
import os
import shutil
import sys
import tempfile
import importlib
import multiprocessing as mp

HERE = os.path.dirname(os.path.dirname(os.path.abspath(__file__)))
REPO = os.environ.get('VSTATIC_REPO', '/repo')


def apply_edit(root, v):
    """Apply variant v to the scratch tree.  Returns None or a reason why it is stale."""
    if v.get('patch'):
        import subprocess
        p = subprocess.run(['patch', '-p1', '-s', '-f', '--no-backup-if-mismatch', '-d', root, '-i', v['patch']],
                           capture_output=True, text=True)
        return None if p.returncode == 0 else 'seeded patch no longer applies: ' + (p.stdout + p.stderr).strip()[:120]
    path = os.path.join(root, 'setigen', v['file'])
    if not os.path.exists(path):
        return 'file missing'
    src = open(path).read()
    tree = ast.parse(src)
    target = None
    if v.get('func'):
        parts = v['func'].split('.')
        body = tree.body
        node = None
        for p in parts:
            node = next((n for n in body if isinstance(n, (ast.FunctionDef, ast.ClassDef)) and n.name == p), None)
            if node is None:
                return f'function {v["func"]} missing'
            body = node.body
        target = node
    lines = src.split('\n')
    if target is not None:
        lo = min([target.lineno] + [d.lineno for d in target.decorator_list]) - 1
        hi = target.end_lineno
        seg = '\n'.join(lines[lo:hi])
        indent = len(lines[target.lineno - 1]) - len(lines[target.lineno - 1].lstrip())
        normal = ast.unparse(target)
    else:
        lo, hi, indent = 0, len(lines), 0
        normal = ast.unparse(tree)
    edits = v['edits'] if 'edits' in v else [(v['old'], v['new'])]
    for old, new in edits:
        if normal.count(old) < 1:
            return f'pattern not found: {old!r}'
        if v.get('nth') is not None:
            parts = normal.split(old)
            if len(parts) - 1 <= v['nth']:
                return f'occurrence {v["nth"]} of {old!r} not found'
            normal = old.join(parts[:v['nth'] + 1]) + new + old.join(parts[v['nth'] + 1:])
            continue
        if normal.count(old) > 1 and not v.get('all'):
            return f'pattern ambiguous ({normal.count(old)}x): {old!r}'
        normal = normal.replace(old, new)
    try:
        ast.parse(normal)
    except SyntaxError as e:
        return f'edit does not parse: {e}'
    new_seg = '\n'.join((' ' * indent + l) if l else l for l in normal.split('\n'))
    out = lines[:lo] + new_seg.split('\n') + lines[hi:]
    with open(path, 'w') as f:
        f.write('\n'.join(out))
    return None


def run_variant(v):
    sys.path.insert(0, HERE)
    tmp = tempfile.mkdtemp(prefix='vstatic_selftest_')
    try:
        dst = os.path.join(tmp, 'setigen')
        shutil.copytree(os.path.join(REPO, 'setigen'), dst,
                        ignore=lambda d, names: [n for n in names if not (n.endswith('.py') or os.path.isdir(os.path.join(d, n)))])
        stale = apply_edit(tmp, v)
        if stale:
            return (v, 'STALE', stale, [])
        from vstatic.rule import Context, load_known, match_known
        from vstatic.model import AnalysisError
        try:
            ctx = Context(v['prop'], tier='quick', repo=tmp)
            mod = importlib.import_module('rules.' + v['prop'].lower())
            mod.run(ctx)
        except AnalysisError as e:
            return (v, 'ANALYSIS-ERROR', str(e), [])
        except Exception as e:  # noqa
            import traceback
            return (v, 'CRASH', traceback.format_exc()[-600:], [])
        known = load_known()
        viol = [o for o in ctx.obligations if o.verdict == 'VIOLATED' and match_known(o, known) is None]
        return (v, 'VIOLATION' if viol else 'SILENT', '', [(o.rule, o.site, o.name, o.construct) for o in viol])
    finally:
        shutil.rmtree(tmp, ignore_errors=True)


def seeded_variants():
    """confirmed seeded changes (/verif/seeded/<id>/patch.diff) whose meta.json says which checks report them"""
    import json
    out = []
    sd = os.path.join(HERE, 'seeded')
    if not os.path.isdir(sd):
        return out
    for d in sorted(os.listdir(sd)):
        mp = os.path.join(sd, d, 'meta.json')
        pp = os.path.join(sd, d, 'patch.diff')
        if not (os.path.exists(mp) and os.path.exists(pp)):
            continue
        meta = json.load(open(mp))
        for pid in meta.get('checks_reporting_violation', []):
            if meta.get('kind', 'break') == 'break':
                out.append({'prop': pid, 'id': f'seeded-{d}', 'kind': 'break', 'patch': pp})
        for pid in meta.get('checks_silent_required', []):
            out.append({'prop': pid, 'id': f'seeded-{d}', 'kind': 'benign', 'patch': pp})
    return out


def run_selftest(prop=None, seed=0, verbose=False, ids=None):
    from selftest.corpus import VARIANTS
    allv = list(VARIANTS) + seeded_variants()
    vs = [v for v in allv if (prop is None or v['prop'] == prop) and (ids is None or v['id'] in ids)]
    if not vs:
        print(f'[{prop}] selftest: no variants registered')
        return 0
    with mp.Pool(min(16, len(vs))) as pool:
        results = pool.map(run_variant, vs)
    bad = 0
    nb = nok = stale = 0
    for v, status, msg, viol in results:
        kind = v['kind']
        if status == 'STALE':
            stale += 1
            print(f'NOTE: selftest variant {v["prop"]}/{v["id"]} is stale ({msg})')
            continue
        if kind == 'break':
            nb += 1
            ok = status == 'VIOLATION' or (status == 'ANALYSIS-ERROR' and v.get('accept_error'))
            if ok and v.get('expect_func') and status == 'VIOLATION':
                ok = any(v['expect_func'] in site for _, site, _, _ in viol)
        else:
            nok += 1
            ok = status == 'SILENT'
        if verbose or not ok:
            print(f'  selftest {v["prop"]}/{v["id"]} [{kind}] -> {status} {msg}')
            for x in viol[:4]:
                print(f'      {x}')
        if not ok:
            bad += 1
    print(f'[{prop or "all"}] selftest: {nb} breaking variants, {nok} benign variants, {stale} stale, {bad} mis-judged')
    if bad:
        print(f'ANALYSIS-ERROR property={prop} (selftest): the checker mis-judges {bad} variant(s) of its own corpus')
        return 2
    return 0


if __name__ == '__main__':
    import argparse
    ap = argparse.ArgumentParser()
    ap.add_argument('prop', nargs='?')
    ap.add_argument('-v', action='store_true')
    ap.add_argument('--id', action='append')
    a = ap.parse_args()
    sys.path.insert(0, HERE)
    sys.exit(run_selftest(a.prop.upper() if a.prop else None, verbose=a.v, ids=a.id))
