"""Self-validation: re-run a property's rules on scratch copies of setigen/*.py with one
construct broken (must be reported) or benignly rewritten (must stay silent).
The verdict about /repo never comes from here; a failing corpus means the CHECKER is broken (exit 2)."""
import ast
import os
import shutil
import sys
import tempfile
import importlib
import multiprocessing as mp

HERE = os.path.dirname(os.path.dirname(os.path.abspath(__file__)))
REPO = os.environ.get('VSTATIC_REPO', '/repo')


def apply_edit(root, v):
    """Apply variant v to the scratch tree.  Returns None or a reason why it is stale."""
    if v.get('patch'):
        import subprocess
        p = subprocess.run(['patch', '-p1', '-s', '-f', '--no-backup-if-mismatch', '-d', root, '-i', v['patch']],
                           capture_output=True, text=True)
        return None if p.returncode == 0 else 'seeded patch no longer applies: ' + (p.stdout + p.stderr).strip()[:120]
    if v.get('transform'):
        from . import transforms
        if v['transform'] in transforms.ALL:
            return transforms.apply(root, v['transform'])
    if v.get('transform') == 'rename_locals':
        return rename_locals_tree(root, v.get('suffix', '_rn'))
    if v.get('transform') == 'swap_branches':
        return swap_branches_tree(root)
    if v.get('transform') == 'explain_temps':
        return explain_temps_tree(root)
    if v.get('transform') == 'flip_comparisons':
        return flip_comparisons_tree(root)
    if v.get('transform') == 'keywordize_calls':
        return keywordize_calls_tree(root)
    if v.get('transform') == 'numpy_functions':
        return numpy_functions_tree(root)
    path = os.path.join(root, 'setigen', v['file'])
    if not os.path.exists(path):
        return 'file missing'
    src = open(path).read()
    tree = ast.parse(src)
    target = None
    if v.get('func'):
        parts = v['func'].split('.')
        body = tree.body
        node = None
        for p in parts:
            node = next((n for n in body if isinstance(n, (ast.FunctionDef, ast.ClassDef)) and n.name == p), None)
            if node is None:
                return f'function {v["func"]} missing'
            body = node.body
        target = node
    lines = src.split('\n')
    if target is not None:
        lo = min([target.lineno] + [d.lineno for d in target.decorator_list]) - 1
        hi = target.end_lineno
        seg = '\n'.join(lines[lo:hi])
        indent = len(lines[target.lineno - 1]) - len(lines[target.lineno - 1].lstrip())
        normal = ast.unparse(target)
    else:
        lo, hi, indent = 0, len(lines), 0
        normal = ast.unparse(tree)
    edits = v['edits'] if 'edits' in v else [(v['old'], v['new'])]
    for old, new in edits:
        if normal.count(old) < 1:
            return f'pattern not found: {old!r}'
        if v.get('nth') is not None:
            parts = normal.split(old)
            if len(parts) - 1 <= v['nth']:
                return f'occurrence {v["nth"]} of {old!r} not found'
            normal = old.join(parts[:v['nth'] + 1]) + new + old.join(parts[v['nth'] + 1:])
            continue
        if normal.count(old) > 1 and not v.get('all'):
            return f'pattern ambiguous ({normal.count(old)}x): {old!r}'
        normal = normal.replace(old, new)
    try:
        ast.parse(normal)
    except SyntaxError as e:
        return f'edit does not parse: {e}'
    new_seg = '\n'.join((' ' * indent + l) if l else l for l in normal.split('\n'))
    out = lines[:lo] + new_seg.split('\n') + lines[hi:]
    with open(path, 'w') as f:
        f.write('\n'.join(out))
    return None


def rename_locals_tree(root, suffix):
    """behaviour-preserving transform: every local variable of every function gets a new name (parameters,
    attributes, globals and keyword names are untouched)"""
    import builtins

    def rename_function(fn):
        params = set()
        for n in ast.walk(fn):
            if isinstance(n, (ast.FunctionDef, ast.AsyncFunctionDef, ast.Lambda)):
                a = n.args
                for x in a.posonlyargs + a.args + a.kwonlyargs:
                    params.add(x.arg)
                if a.vararg:
                    params.add(a.vararg.arg)
                if a.kwarg:
                    params.add(a.kwarg.arg)
        declared = set()
        for n in ast.walk(fn):
            if isinstance(n, (ast.Global, ast.Nonlocal)):
                declared.update(n.names)
        nested = {n.name for n in ast.walk(fn) if isinstance(n, (ast.FunctionDef, ast.ClassDef)) and n is not fn}
        stored = set()
        for n in ast.walk(fn):
            if isinstance(n, ast.Name) and isinstance(n.ctx, (ast.Store, ast.Del)):
                stored.add(n.id)
            if isinstance(n, ast.ExceptHandler) and n.name:
                stored.add(n.name)
        targets = {x for x in stored if x not in params and x not in declared and x not in nested
                   and not hasattr(builtins, x) and x != '_'}
        for n in ast.walk(fn):
            if isinstance(n, ast.Name) and n.id in targets:
                n.id = n.id + suffix
            if isinstance(n, ast.ExceptHandler) and n.name in targets:
                n.name = n.name + suffix
    for dp, dns, fns in os.walk(os.path.join(root, 'setigen')):
        for f in fns:
            if not f.endswith('.py'):
                continue
            p = os.path.join(dp, f)
            tree = ast.parse(open(p).read())
            for node in tree.body:
                if isinstance(node, (ast.FunctionDef, ast.AsyncFunctionDef)):
                    rename_function(node)
                elif isinstance(node, ast.ClassDef):
                    for sub in node.body:
                        if isinstance(sub, (ast.FunctionDef, ast.AsyncFunctionDef)):
                            rename_function(sub)
            with open(p, 'w') as fh:
                fh.write(ast.unparse(tree) + '\n')
    return None


def _each_function(root):
    for dp, dns, fns in os.walk(os.path.join(root, 'setigen')):
        for f in sorted(fns):
            if f.endswith('.py'):
                p = os.path.join(dp, f)
                tree = ast.parse(open(p).read())
                yield p, tree


def swap_branches_tree(root):
    """behaviour-preserving transform: `if c: A else: B`  ->  `if not c: B else: A` (plain if/else without elif)"""
    class Tr(ast.NodeTransformer):
        def visit_If(self, node):
            self.generic_visit(node)
            if node.orelse and not (len(node.orelse) == 1 and isinstance(node.orelse[0], ast.If)):
                node.test = ast.UnaryOp(op=ast.Not(), operand=node.test)
                node.body, node.orelse = node.orelse, node.body
            return node
    for p, tree in _each_function(root):
        tree = ast.fix_missing_locations(Tr().visit(tree))
        with open(p, 'w') as fh:
            fh.write(ast.unparse(tree) + '\n')
    return None


def explain_temps_tree(root):
    """behaviour-preserving transform: `x = L op R` (L itself a binary operation) -> `_tmpK = L; x = _tmpK op R`
    (evaluation order kept; only plain single-target name assignments outside comprehensions/lambdas)"""
    counter = [0]

    class Tr(ast.NodeTransformer):
        def visit_Lambda(self, node):
            return node

        def _block(self, stmts):
            out = []
            for st in stmts:
                st = self.visit(st)
                if isinstance(st, ast.Assign) and len(st.targets) == 1 and isinstance(st.targets[0], ast.Name) \
                        and isinstance(st.value, ast.BinOp) and isinstance(st.value.left, ast.BinOp) \
                        and not any(isinstance(n, (ast.NamedExpr, ast.Yield, ast.Await)) for n in ast.walk(st.value)):
                    counter[0] += 1
                    tmp = f'_tmp{counter[0]}'
                    out.append(ast.Assign(targets=[ast.Name(id=tmp, ctx=ast.Store())], value=st.value.left, lineno=st.lineno))
                    st.value.left = ast.Name(id=tmp, ctx=ast.Load())
                out.append(st)
            return out

        def generic_visit(self, node):
            for field in ('body', 'orelse', 'finalbody'):
                v = getattr(node, field, None)
                if isinstance(v, list) and v and isinstance(v[0], ast.stmt):
                    setattr(node, field, self._block(v))
            for h in getattr(node, 'handlers', []) or []:
                h.body = self._block(h.body)
            return node
    for p, tree in _each_function(root):
        tree = ast.fix_missing_locations(Tr().visit(tree))
        with open(p, 'w') as fh:
            fh.write(ast.unparse(tree) + '\n')
    return None


def flip_comparisons_tree(root):
    """behaviour-preserving transform: `a < b` -> `b > a`, `a == b` -> `b == a` ... (single-operator comparisons of
    side-effect-free operands: names, attributes, constants, subscripts and arithmetic on them)"""
    FLIP = {ast.Lt: ast.Gt, ast.Gt: ast.Lt, ast.LtE: ast.GtE, ast.GtE: ast.LtE, ast.Eq: ast.Eq, ast.NotEq: ast.NotEq}

    def pure(e):
        return all(isinstance(n, (ast.Name, ast.Attribute, ast.Constant, ast.Subscript, ast.BinOp, ast.UnaryOp, ast.operator,
                                  ast.unaryop, ast.expr_context, ast.Slice, ast.Tuple)) for n in ast.walk(e))

    class Tr(ast.NodeTransformer):
        def visit_Compare(self, node):
            self.generic_visit(node)
            if len(node.ops) == 1 and type(node.ops[0]) in FLIP and pure(node.left) and pure(node.comparators[0]):
                return ast.Compare(left=node.comparators[0], ops=[FLIP[type(node.ops[0])]()], comparators=[node.left])
            return node
    for p, tree in _each_function(root):
        tree = ast.fix_missing_locations(Tr().visit(tree))
        with open(p, 'w') as fh:
            fh.write(ast.unparse(tree) + '\n')
    return None


def keywordize_calls_tree(root):
    """behaviour-preserving transform: positional arguments of calls that resolve to package functions are passed by
    keyword (formal names from the resolved callee; calls with *args/**kwargs, and callees with *args, are left alone)"""
    sys.path.insert(0, HERE)
    from vstatic.model import Program
    from vstatic.argbind import resolve_callee
    prog = Program(root)
    edits = {}
    for fi in prog.functions.values():
        if isinstance(fi.node, ast.Lambda):
            continue
        for n in ast.walk(fi.node):
            if not isinstance(n, ast.Call) or not n.args or any(isinstance(a, ast.Starred) for a in n.args) \
                    or any(k.arg is None for k in n.keywords):
                continue
            if prog.enclosing_function(fi.module, n) is not fi:
                continue
            rc = resolve_callee(prog, fi, n)
            if rc is None:
                continue
            callee, skip = rc
            a = callee.node.args
            if a.vararg or a.posonlyargs:
                continue
            formals = [x.arg for x in a.args][1 if skip else 0:]
            if len(n.args) > len(formals) or any(k.arg in formals[:len(n.args)] for k in n.keywords):
                continue
            edits.setdefault(fi.module.path, []).append((n.lineno, n.col_offset, formals[:len(n.args)]))
    for path, lst in edits.items():
        tree = ast.parse(open(path).read())
        want = {(l, c): names for l, c, names in lst}
        for n in ast.walk(tree):
            if isinstance(n, ast.Call) and (n.lineno, n.col_offset) in want and len(n.args) == len(want[(n.lineno, n.col_offset)]):
                names = want[(n.lineno, n.col_offset)]
                n.keywords = [ast.keyword(arg=nm, value=v) for nm, v in zip(names, n.args)] + n.keywords
                n.args = []
        with open(path, 'w') as fh:
            fh.write(ast.unparse(ast.fix_missing_locations(tree)) + '\n')
    return None


def numpy_functions_tree(root):
    """behaviour-preserving transform: array methods become numpy functions, `a.sum(axis=0)` -> `np.sum(a, axis=0)`
    (sum/mean/std/var/min/max/cumsum/clip/round/reshape; receiver must not be the numpy module itself)"""
    METHODS = {'sum', 'mean', 'std', 'var', 'cumsum', 'clip', 'reshape'}

    for p, tree in _each_function(root):
        alias = None
        for n in tree.body:
            for sub in ast.walk(n) if isinstance(n, (ast.If, ast.Try)) else [n]:
                if isinstance(sub, ast.Import):
                    for a in sub.names:
                        if a.name in ('numpy', 'cupy') and a.asname in ('np', 'xp'):
                            alias = alias or a.asname
        if alias is None:
            continue
        mods = {'np', 'xp', 'numpy', 'u', 'self'}

        class Tr(ast.NodeTransformer):
            def visit_Call(self, node):
                self.generic_visit(node)
                f = node.func
                if isinstance(f, ast.Attribute) and f.attr in METHODS and not (isinstance(f.value, ast.Name) and f.value.id in mods) \
                        and not isinstance(f.value, ast.Attribute) or (
                        isinstance(f, ast.Attribute) and f.attr in METHODS and isinstance(f.value, ast.Attribute)
                        and f.value.attr in ('data', 'v', 'ts', 'fs')):
                    if f.attr == 'reshape' and len(node.args) != 1:
                        node.args = [ast.Tuple(elts=list(node.args), ctx=ast.Load())] if node.args else node.args
                    return ast.Call(func=ast.Attribute(value=ast.Name(id=alias, ctx=ast.Load()), attr=f.attr, ctx=ast.Load()),
                                    args=[f.value] + list(node.args), keywords=node.keywords)
                return node
        tree = ast.fix_missing_locations(Tr().visit(tree))
        with open(p, 'w') as fh:
            fh.write(ast.unparse(tree) + '\n')
    return None


def run_variant(v):
    sys.path.insert(0, HERE)
    tmp = tempfile.mkdtemp(prefix='vstatic_selftest_')
    try:
        dst = os.path.join(tmp, 'setigen')
        shutil.copytree(os.path.join(REPO, 'setigen'), dst,
                        ignore=lambda d, names: [n for n in names if not (n.endswith('.py') or os.path.isdir(os.path.join(d, n)))])
        stale = apply_edit(tmp, v)
        if stale:
            return (v, 'STALE', stale, [])
        from vstatic.rule import Context, load_known, match_known
        from vstatic.model import AnalysisError
        ctx = None
        try:
            ctx = Context(v['prop'], tier='quick', repo=tmp)
            mod = importlib.import_module('rules.' + v['prop'].lower())
            mod.run(ctx)
        except AnalysisError as e:
            # same policy as ./check: violations established before an anchor vanished stand
            known = load_known()
            if ctx is None or not any(o.verdict == 'VIOLATED' and match_known(o, known) is None for o in ctx.obligations):
                return (v, 'ANALYSIS-ERROR', str(e), [])
        except Exception as e:  # noqa
            import traceback
            return (v, 'CRASH', traceback.format_exc()[-600:], [])
        known = load_known()
        viol = [o for o in ctx.obligations if o.verdict == 'VIOLATED' and match_known(o, known) is None]
        return (v, 'VIOLATION' if viol else 'SILENT', '', [(o.rule, o.site, o.name, o.construct) for o in viol])
    finally:
        shutil.rmtree(tmp, ignore_errors=True)


def seeded_variants():
    """confirmed seeded changes (/verif/seeded/<id>/patch.diff) whose meta.json says which checks report them"""
    import json
    out = []
    sd = os.path.join(HERE, 'seeded')
    if not os.path.isdir(sd):
        return out
    for d in sorted(os.listdir(sd)):
        mp = os.path.join(sd, d, 'meta.json')
        pp = os.path.join(sd, d, 'patch.diff')
        if not (os.path.exists(mp) and os.path.exists(pp)):
            continue
        meta = json.load(open(mp))
        for pid in meta.get('checks_reporting_violation', []):
            if meta.get('kind', 'break') == 'break':
                out.append({'prop': pid, 'id': f'seeded-{d}', 'kind': 'break', 'patch': pp})
        for pid in meta.get('checks_silent_required', []):
            out.append({'prop': pid, 'id': f'seeded-{d}', 'kind': 'benign', 'patch': pp})
    return out


def run_selftest(prop=None, seed=0, verbose=False, ids=None):
    from selftest.corpus import VARIANTS
    allv = list(VARIANTS) + seeded_variants()
    vs = [v for v in allv if (prop is None or v['prop'] == prop) and (ids is None or v['id'] in ids)]
    if not vs:
        print(f'[{prop}] selftest: no variants registered')
        return 0
    with mp.Pool(min(16, len(vs))) as pool:
        results = pool.map(run_variant, vs)
    bad = 0
    nb = nok = stale = 0
    for v, status, msg, viol in results:
        kind = v['kind']
        if status == 'STALE':
            stale += 1
            print(f'NOTE: selftest variant {v["prop"]}/{v["id"]} is stale ({msg})')
            continue
        if kind == 'break':
            nb += 1
            ok = status == 'VIOLATION' or (status == 'ANALYSIS-ERROR' and v.get('accept_error'))
            if ok and v.get('expect_func') and status == 'VIOLATION':
                ok = any(v['expect_func'] in site for _, site, _, _ in viol)
        else:
            nok += 1
            ok = status == 'SILENT'
        if verbose or not ok:
            print(f'  selftest {v["prop"]}/{v["id"]} [{kind}] -> {status} {msg}')
            for x in viol[:4]:
                print(f'      {x}')
        if not ok:
            bad += 1
    print(f'[{prop or "all"}] selftest: {nb} breaking variants, {nok} benign variants, {stale} stale, {bad} mis-judged')
    if bad:
        print(f'ANALYSIS-ERROR property={prop} (selftest): the checker mis-judges {bad} variant(s) of its own corpus')
        return 2
    return 0


if __name__ == '__main__':
    import argparse
    ap = argparse.ArgumentParser()
    ap.add_argument('prop', nargs='?')
    ap.add_argument('-v', action='store_true')
    ap.add_argument('--id', action='append')
    a = ap.parse_args()
    sys.path.insert(0, HERE)
    sys.exit(run_selftest(a.prop.upper() if a.prop else None, verbose=a.v, ids=a.id))
