"""Self-validation corpus: edits are applied to the ast.unparse() normal form of the named
function on a scratch copy (formatting independent).  kind: break | benign."""
VARIANTS = []


def V(prop, id, file, func, old, new, kind='break', **kw):
    VARIANTS.append(dict(prop=prop, id=id, file=file, func=func, old=old, new=new, kind=kind, **kw))


# ------------------------------------------------------------------ C05
V('C05', 'floor-index', 'frame.py', 'Frame.get_index', 'np.round(', 'np.floor(')
V('C05', 'fmax-index', 'frame.py', 'Frame.get_index', 'self.fmin', 'self.fmax')
V('C05', 'endpoint-fs', 'frame.py', 'Frame._update_fs', 'endpoint=False', 'endpoint=True', all=True)
V('C05', 'no-reverse', 'frame.py', 'Frame._update_fs', 'self.fs = self.fs[::-1]', 'pass')
V('C05', 'ts-endpoint', 'frame.py', 'Frame._update_ts', 'endpoint=False', 'endpoint=True')
V('C05', 'shape-swapped', 'frame.py', 'Frame.__init__', 'self.shape = (self.tchans, self.fchans)', 'self.shape = (self.fchans, self.tchans)', nth=0)
V('C05', 'unit-drift-mul', 'frame.py', 'Frame.__init__', 'self.unit_drift_rate = self.df / self.dt', 'self.unit_drift_rate = self.df * self.dt')
V('C05', 'fmid-wrong', 'frame.py', 'Frame.fmid', '(self.fmin + self.fmax) / 2', '(self.fmin + self.fmax) / 2 + self.df / 2')
V('C05', 'tstop-off', 'frame.py', 'Frame.t_stop', 'self.tchans * self.dt', '(self.tchans - 1) * self.dt')
V('C05', 'driftrate-tchans', 'frame.py', 'Frame.get_drift_rate', 'self.tchans * self.dt', '(self.tchans - 1) * self.dt')
V('C05', 'getfreq-fmax', 'frame.py', 'Frame.get_frequency', 'self.fmin + self.df * index', 'self.fmin + self.df * (index + 1)')
V('C05', 'pfb-df', 'frame.py', 'params_from_backend', 'dt = int_factor / df', 'dt = int_factor * df')
V('C05', 'getvalue-drop-unit', 'unit_utils.py', 'get_value', 'return value.to(unit).value', 'return value.value')
V('C05', 'tsext-2dt', 'frame.py', 'Frame.ts_ext', 'self.ts[-1] + self.dt', 'self.ts[-1] + 2 * self.dt')
V('C05', 'b-around', 'frame.py', 'Frame.get_index', 'np.round(', 'np.around(', kind='benign')
V('C05', 'b-commute', 'frame.py', 'Frame.get_frequency', 'self.fmin + self.df * index', 'index * self.df + self.fmin', kind='benign')
V('C05', 'b-fmid-half', 'frame.py', 'Frame.fmid', '(self.fmin + self.fmax) / 2', '0.5 * (self.fmax + self.fmin)', kind='benign')
V('C05', 'b-fs-refactor', 'frame.py', 'Frame._update_fs',
  'self.fs = np.linspace(self.fmax, self.fmax - self.fchans * self.df, self.fchans, endpoint=False)\n        self.fmin = self.fs[-1]\n        self.fs = self.fs[::-1]',
  'self.fmin = self.fmax - (self.fchans - 1) * self.df\n        self.fs = self.fmin + np.arange(self.fchans) * self.df', kind='benign')
V('C05', 'b-invert-if', 'frame.py', 'Frame._update_fs', 'if self.ascending:', 'if not not self.ascending:', kind='benign')

# ------------------------------------------------------------------ C20
BK = 'voltage/backend.py'
V('C20', 'float-total', BK, 'RawVoltageBackend.record', 'self.num_blocks * self.samples_per_block * self.num_branches', 'int(self.obs_length / self.tbin) * self.num_branches')
V('C20', 'bps-no-div8', BK, 'RawVoltageBackend.__init__', 'self.bytes_per_sample = 2 * self.num_pols * self.num_bits // 8', 'self.bytes_per_sample = 2 * self.num_pols * self.num_bits // 4')
V('C20', 'spb-no-antennas', BK, 'RawVoltageBackend.__init__', 'self.block_size // (self.num_antennas * self.num_chans * self.bytes_per_sample)', 'self.block_size // (self.num_chans * self.bytes_per_sample)')
V('C20', 'tbin-inverted', BK, 'RawVoltageBackend.__init__', 'self.tbin = self.num_branches / self.sample_rate', 'self.tbin = self.sample_rate / self.num_branches')
V('C20', 'obslen-minus1', BK, 'RawVoltageBackend.record', 'self.obs_length = self.num_blocks * self.time_per_block', 'self.obs_length = (self.num_blocks - 1) * self.time_per_block')
V('C20', 'helper-diverges', BK, 'get_total_obs_num_samples', 'bytes_per_sample = 2 * num_pols * num_bits / 8', 'bytes_per_sample = num_pols * num_bits / 8')
V('C20', 'blocksize-helper', BK, 'get_block_size', 'T = tchans_per_block * fftlength * int_factor', 'T = tchans_per_block * fftlength')
V('C20', 'numblocks-no-pols', BK, 'RawVoltageBackend.get_num_blocks', ' * self.bytes_per_sample / self.block_size', ' * self.num_bytes / self.block_size')
V('C20', 'pktstop-blocks', BK, 'RawVoltageBackend._header_populate_configuration', 'self.num_blocks * self.samples_per_block', 'self.num_blocks * self.samples_per_block - 1')
V('C20', 'scanlen-tpb', BK, 'RawVoltageBackend._header_populate_configuration', "header_dict['SCANLEN'] = self.obs_length", "header_dict['SCANLEN'] = self.time_per_block")
V('C20', 'unitdrift-no-int', 'voltage/level_utils.py', 'get_unit_drift_rate', 'raw_voltage_backend.tbin * fftlength * int_factor', 'raw_voltage_backend.tbin * fftlength')
V('C20', 'mode-swap', BK, 'RawVoltageBackend.record', 'self.num_blocks = self.get_num_blocks(obs_length)', 'self.num_blocks = self.get_num_blocks(obs_length) + 1')
V('C20', 'drop-assert', BK, 'RawVoltageBackend.__init__', 'assert self.block_size % int(self.num_antennas * self.num_chans * self.num_taps * self.bytes_per_sample) == 0', 'pass')
V('C20', 'b-commute', BK, 'RawVoltageBackend.record', 'self.num_blocks * self.samples_per_block * self.num_branches', 'self.num_branches * self.samples_per_block * self.num_blocks', kind='benign')
V('C20', 'b-tbin-temp', BK, 'RawVoltageBackend.__init__', 'self.tbin = self.num_branches / self.sample_rate', 'nbr = self.num_branches\n    self.tbin = nbr * (1 / self.sample_rate)', kind='benign')
V('C20', 'b-numblocks-tpb', BK, 'RawVoltageBackend.get_num_blocks', 'return int(obs_length * abs(self.chan_bw) * self.num_antennas * self.num_chans * self.bytes_per_sample / self.block_size)', 'return int(obs_length / (self.tbin * self.block_size / (self.num_antennas * self.num_chans * self.bytes_per_sample)))', kind='benign')

# ------------------------------------------------------------------ C04
RUF = 'voltage/raw_utils.py'
V('C04', 'pad-512-minus', BK, 'RawVoltageBackend._make_header', 'bytearray(-80 * header_lines % 512)', 'bytearray(512 - 80 * header_lines % 512)')
V('C04', 'pad-unconditional', BK, 'RawVoltageBackend._make_header', 'if directio:\n        f.write(bytearray(', 'if True:\n        f.write(bytearray(')
V('C04', 'helper-ignores-directio', RUF, 'get_header_size', "if int(header_dict.get('DIRECTIO', 0)) != 0:", 'if True:')
V('C04', 'helper-polarity', RUF, 'get_header_size', "if int(header_dict.get('DIRECTIO', 0)) != 0:", "if int(header_dict.get('DIRECTIO', 0)) == 0:")
V('C04', 'helper-floor', RUF, 'get_header_size', 'np.ceil(header_size / 512)', 'np.floor(header_size / 512)')
V('C04', 'helper-no-end', RUF, 'get_header_size', '80 * (len(header_dict) + 1)', '80 * len(header_dict)')
V('C04', 'blocks-inline-pad', RUF, 'get_blocks_in_file', 'get_header_size(header) + ', "int(512 * np.ceil(80 * (len(header) + 1) / 512)) + ")
V('C04', 'fromdata-pad', BK, 'RawVoltageBackend.from_data', 'backend.header_size = 80 * (len(backend.input_header_dict) + 1)', 'backend.header_size = 80 * len(backend.input_header_dict)')
V('C04', 'pktidx-plus1', BK, 'RawVoltageBackend._make_header', "header_dict['PKTIDX'] += self.samples_per_block", "header_dict['PKTIDX'] += 1")
V('C04', 'pktidx-conditional', BK, 'RawVoltageBackend._make_header', "header_dict['PKTIDX'] += self.samples_per_block", "if directio:\n        header_dict['PKTIDX'] += self.samples_per_block")
V('C04', 'populate-first', BK, 'RawVoltageBackend.record',
  "if load_template:\n        header_dict = self._header_add_from_template(header_dict)\n    if self.input_header_dict is not None:\n        header_dict = self._header_add_from_input_header(header_dict)\n    header_dict = self._header_populate_configuration(header_dict)",
  "header_dict = self._header_populate_configuration(header_dict)\n    if load_template:\n        header_dict = self._header_add_from_template(header_dict)\n    if self.input_header_dict is not None:\n        header_dict = self._header_add_from_input_header(header_dict)")
V('C04', 'template-overrides', BK, 'RawVoltageBackend._header_add_from_template', "if key != 'END' and key not in header_dict:", "if key != 'END':")
V('C04', 'input-overrides', BK, 'RawVoltageBackend._header_add_from_input_header', 'if key not in header_dict:', 'if True:')
V('C04', 'nants-conditional', BK, 'RawVoltageBackend._header_populate_configuration', "header_dict['NANTS'] = self.num_antennas", "if self.is_antenna_array:\n        header_dict['NANTS'] = self.num_antennas")
V('C04', 'nbits-if-absent', BK, 'RawVoltageBackend._header_populate_configuration', "header_dict['NBITS'] = self.num_bits", "if 'NBITS' not in header_dict:\n        header_dict['NBITS'] = self.num_bits")
V('C04', 'obsfreq-half', BK, 'RawVoltageBackend._header_populate_configuration', '(self.num_chans - 1) / 2', 'self.num_chans / 2')
V('C04', 'obsbw-no-sign', BK, 'RawVoltageBackend._header_populate_configuration', "header_dict['OBSBW'] = self.chan_bw * self.num_chans * 1e-06", "header_dict['OBSBW'] = abs(self.chan_bw) * self.num_chans * 1e-06")
V('C04', 'obsnchan-no-ants', BK, 'RawVoltageBackend._header_populate_configuration', "header_dict['OBSNCHAN'] = self.num_chans * self.num_antennas", "header_dict['OBSNCHAN'] = self.num_chans")
V('C04', 'end-first', BK, 'RawVoltageBackend._make_header', "header_lines = 0\n    for key", "header_lines = 0\n    f.write(f\"{'END':<80}\".encode())\n    for key")
V('C04', 'numfiles-floor', BK, 'RawVoltageBackend.record', 'xp.ceil(self.num_blocks / self.blocks_per_file)', 'xp.floor(self.num_blocks / self.blocks_per_file)')
V('C04', 'lastfile-eq', BK, 'RawVoltageBackend.record', 'if i == num_files - 1 and self.num_blocks % self.blocks_per_file != 0:', 'if i == num_files and self.num_blocks % self.blocks_per_file != 0:')
V('C04', 'filename-j', BK, 'RawVoltageBackend.record', "save_fn = f'{output_file_stem}.{i:04}.raw'", "save_fn = f'{output_file_stem}.{i + 1:04}.raw'")
V('C04', 'unsorted-glob', RUF, 'get_total_blocks', "sorted(glob.glob(f'{input_file_stem}.????.raw'))", "glob.glob(f'{input_file_stem}.????.raw')")
V('C04', 'card-truncate', RUF, 'format_header_line', "line = f'{line:<80}'", "line = f'{line:<80}'[:79]", accept_error=True)
V('C04', 'two-data-writes', BK, 'RawVoltageBackend.record', 'f.write(xp.array(v, dtype=xp.int8).tobytes())', 'f.write(xp.array(v, dtype=xp.int8).tobytes())\n                    f.write(xp.array(v, dtype=xp.int8).tobytes())')
V('C04', 'b-pad-equivalent', BK, 'RawVoltageBackend._make_header', 'bytearray(-80 * header_lines % 512)', 'bytearray((512 - 80 * header_lines % 512) % 512)', kind='benign')
V('C04', 'b-helper-rewrite', RUF, 'get_header_size', 'header_size = int(512 * np.ceil(header_size / 512))', 'header_size = header_size + -header_size % 512', kind='benign')
V('C04', 'b-sorted-inline', RUF, 'get_total_blocks', 'get_blocks_in_file(filenames[-1])', 'get_blocks_in_file(sorted(filenames)[-1])', kind='benign')
V('C04', 'b-obsfreq-rewrite', BK, 'RawVoltageBackend._header_populate_configuration',
  'center_freq = (self.start_chan + (self.num_chans - 1) / 2) * self.chan_bw\n    center_freq += self.fch1',
  'center_freq = self.fch1 + self.start_chan * self.chan_bw + 0.5 * (self.num_chans - 1) * self.chan_bw', kind='benign')

# ------------------------------------------------------------------ C07
DSF = 'voltage/data_stream.py'
WFF = 'voltage/waterfall.py'
V('C07', 'no-desc-flip', DSF, 'DataStream.add_constant_signal', 'if not self.ascending:\n            chirp_phase = -chirp_phase', 'pass')
V('C07', 'chirp-no-half', DSF, 'DataStream.add_constant_signal', '0.5 * drift_rate * ts ** 2', 'drift_rate * ts ** 2')
V('C07', 'chirp-abs-freq', DSF, 'DataStream.add_constant_signal', '(f_start - self.fch1) * ts', 'f_start * ts')
V('C07', 'chirp-sin', DSF, 'DataStream.add_constant_signal', 'xp.cos(chirp_phase + phase)', 'xp.sin(chirp_phase + phase)')
V('C07', 'chan-off-by-one', BK, 'RawVoltageBackend.collect_data_block', 'v[:, self.start_chan:self.start_chan + self.num_chans]', 'v[:, self.start_chan:self.start_chan + self.num_chans - 1]')
V('C07', 'chan-from-zero', BK, 'RawVoltageBackend.collect_data_block', 'v[:, self.start_chan:self.start_chan + self.num_chans]', 'v[:, 0:self.num_chans]')
V('C07', 'chanbw-no-sign', BK, 'RawVoltageBackend.__init__', 'if not self.ascending:\n        self.chan_bw = -self.chan_bw', 'pass')
V('C07', 'obsfreq-writer-half', BK, 'RawVoltageBackend._header_populate_configuration', '(self.num_chans - 1) / 2', 'self.num_chans / 2')
V('C07', 'obsfreq-reader-half', RUF, 'get_raw_params', '(num_chans - 1) / 2', 'num_chans / 2')
V('C07', 'reader-fch1-plus', RUF, 'get_raw_params', 'center_freq - (start_chan', 'center_freq + (start_chan')
V('C07', 'reader-asc-flip', RUF, 'get_raw_params', "raw_params['ascending'] = chan_bw > 0", "raw_params['ascending'] = chan_bw < 0")
V('C07', 'reader-nchan-no-ants', RUF, 'get_raw_params', "int(header['OBSNCHAN']) // num_antennas", "int(header['OBSNCHAN'])")
V('C07', 'swap-positional', WFF, 'get_waterfall_from_raw', 'fftlength=fftlength, int_factor=int_factor', 'int_factor, fftlength')
V('C07', 'swap-keywords', WFF, 'get_waterfall_from_raw', 'fftlength=fftlength, int_factor=int_factor', 'fftlength=int_factor, int_factor=fftlength')
V('C07', 'fftshift-time', WFF, 'get_pfb_waterfall', 'xp.fft.fftshift(XX, axes=2)', 'xp.fft.fftshift(XX, axes=1)')
V('C07', 'fft-axis', WFF, 'get_pfb_waterfall', 'xp.fft.fft(X_samples, fftlength, axis=2)', 'xp.fft.fft(X_samples, fftlength, axis=1)')
V('C07', 'concat-axis0', WFF, 'get_pfb_waterfall', 'xp.concatenate(XX_psd, axis=1)', 'xp.concatenate(XX_psd, axis=0)')
V('C07', 'no-fftshift', WFF, 'get_pfb_waterfall', 'XX = xp.fft.fftshift(XX, axes=2)', 'pass')
V('C07', 'sum-axis', WFF, 'get_pfb_waterfall', 'XX_psd.sum(axis=1)', 'XX_psd.sum(axis=0)')
V('C07', 'deinterleave-y', WFF, 'get_waterfall_from_raw', 'rawbuffer[:, 2::4] + rawbuffer[:, 3::4] * 1j', 'rawbuffer[:, 1::4] + rawbuffer[:, 3::4] * 1j')
V('C07', 'unitdrift-fft', 'voltage/level_utils.py', 'get_unit_drift_rate', 'df = raw_voltage_backend.chan_bw / fftlength', 'df = raw_voltage_backend.chan_bw / (fftlength * int_factor)')
V('C07', 'swap-pfb-args', 'voltage/polyphase_filterbank.py', 'PolyphaseFilterbank.channelize', 'pfb_frontend(x, self.window, self.num_taps, self.num_branches)', 'pfb_frontend(x, self.window, self.num_branches, self.num_taps)')
V('C07', 'b-chirp-refactor', DSF, 'DataStream.add_constant_signal', 'chirp_phase = 2 * xp.pi * ((f_start - self.fch1) * ts + 0.5 * drift_rate * ts ** 2)', 'df0 = f_start - self.fch1\n        chirp_phase = xp.pi * (2 * df0 * ts + drift_rate * ts * ts)', kind='benign')
V('C07', 'b-keywords-order', WFF, 'get_waterfall_from_raw', 'fftlength=fftlength, int_factor=int_factor', 'int_factor=int_factor, fftlength=fftlength', kind='benign')
V('C07', 'b-reader-rewrite', RUF, 'get_raw_params', 'center_freq - (start_chan + (num_chans - 1) / 2) * chan_bw', 'center_freq - start_chan * chan_bw - 0.5 * (num_chans - 1) * chan_bw', kind='benign')
V('C07', 'b-fft-method', WFF, 'get_pfb_waterfall', 'XX_psd.sum(axis=1)', 'xp.sum(XX_psd, axis=1)', kind='benign')

# ------------------------------------------------------------------ C08
PFF = 'voltage/polyphase_filterbank.py'
V('C08', 'half-plus-one', PFF, 'PolyphaseFilterbank.channelize', '[:, 0:self.num_branches // 2]', '[:, 0:self.num_branches // 2 + 1]')
V('C08', 'norm-B', PFF, 'PolyphaseFilterbank.channelize', '/ self.num_branches ** 0.5', '/ self.num_branches')
V('C08', 'fft-axis0', PFF, 'PolyphaseFilterbank.channelize', 'axis=1', 'axis=0')
V('C08', 'cache-after-frontend', PFF, 'PolyphaseFilterbank.channelize',
  "        self.cache = x[-self.num_taps * self.num_branches:]\n    x = pfb_frontend(x, self.window, self.num_taps, self.num_branches)",
  "    x0 = x\n    x = pfb_frontend(x, self.window, self.num_taps, self.num_branches)\n    if cache:\n        self.cache = x[-self.num_taps * self.num_branches:]")
V('C08', 'cache-off-by-one', PFF, 'PolyphaseFilterbank.channelize', 'x[-self.num_taps * self.num_branches:]', 'x[-self.num_taps * self.num_branches + 1:]')
V('C08', 'cache-always', PFF, 'PolyphaseFilterbank.channelize', 'if cache:\n        if self.cache is not None:', 'if True:\n        if self.cache is not None:')
V('C08', 'cache-prepend-order', PFF, 'PolyphaseFilterbank.channelize', 'xp.concatenate([self.cache, x])', 'xp.concatenate([x, self.cache])')
V('C08', 'frontend-abs', PFF, 'pfb_frontend', 'x_weighted = x_p[t:t + num_taps, :] * h_p', 'x_weighted = xp.abs(x_p[t:t + num_taps, :]) * h_p')
V('C08', 'frontend-window-len', PFF, 'pfb_frontend', 'x_p[t:t + num_taps, :]', 'x_p[t:t + num_taps - 1, :]')
V('C08', 'frontend-sum-axis', PFF, 'pfb_frontend', 'xp.sum(x_weighted, axis=0)', 'xp.sum(x_weighted, axis=1)')
V('C08', 'frontend-rows', PFF, 'pfb_frontend', 'for t in range(0, (W - 1) * num_taps):', 'for t in range(0, (W - 1) * num_taps - 1):')
V('C08', 'frontend-float-buffer', PFF, 'pfb_frontend', ', dtype=xp.result_type(x_p, h_p))', ')')
V('C08', 'frontend-fixed-dtype', PFF, 'pfb_frontend', 'dtype=xp.result_type(x_p, h_p)', 'dtype=float')
V('C08', 'window-no-scale', PFF, 'get_pfb_window', 'window *= num_taps * num_branches', 'window *= num_taps')
V('C08', 'window-cutoff', PFF, 'get_pfb_window', 'cutoff=1.0 / num_branches', 'cutoff=2.0 / num_branches')
V('C08', 'foreign-cache-writer', PFF, 'PolyphaseFilterbank.estimate_channelized_stds', 'rng = xp.random.default_rng(seed)', 'rng = xp.random.default_rng(seed)\n    self.cache = None')
V('C08', 'class-level-cache', PFF, 'PolyphaseFilterbank', 'def _reset_cache(self):', 'shared = []\n\n    def _reset_cache(self):')
V('C08', 'b-frontend-rename', PFF, 'pfb_frontend', 'x_weighted = x_p[t:t + num_taps, :] * h_p\n        x_summed[t, :] = xp.sum(x_weighted, axis=0)', 'xw = h_p * x_p[t:num_taps + t, :]\n        x_summed[t, :] = xw.sum(axis=0)', kind='benign')
V('C08', 'b-W-floordiv', PFF, 'pfb_frontend', 'W = int(len(x) / num_taps / num_branches)', 'W = int(len(x) / (num_branches * num_taps))', kind='benign')
V('C08', 'b-norm-sqrt', PFF, 'PolyphaseFilterbank.channelize', '/ self.num_branches ** 0.5', '/ xp.sqrt(self.num_branches)', kind='benign')
V('C08', 'b-dtype-other', PFF, 'pfb_frontend', 'dtype=xp.result_type(x_p, h_p)', 'dtype=(x_p[0, 0] * h_p[0, 0]).dtype', kind='benign')

# ------------------------------------------------------------------ C09
QF = 'voltage/quantization.py'
V('C09', 'clip-upper', QF, 'quantize_real', '2 ** (num_bits - 1) - 1)', '2 ** (num_bits - 1))')
V('C09', 'clip-lower', QF, 'quantize_real', '-2 ** (num_bits - 1)', '-2 ** (num_bits - 1) + 1')
V('C09', 'clip-before-scale', QF, 'quantize_real', 'xp.around(factor * (x - data_mean) + target_mean)', 'xp.around(factor * (xp.clip(x, -128, 127) - data_mean) + target_mean)')
V('C09', 'floor-not-round', QF, 'quantize_real', 'xp.around(', 'xp.floor(')
V('C09', 'no-zero-guard', QF, 'quantize_real', 'if data_std == 0:\n        factor = 0\n    else:\n        factor = target_std / data_std', 'factor = target_std / data_std')
V('C09', 'mean-after-scale', QF, 'quantize_real', 'factor * (x - data_mean) + target_mean', 'factor * x - data_mean + target_mean')
V('C09', 'reset-ge', QF, 'RealQuantizer.quantize', 'if self.stats_calc_indices == self.stats_calc_period:', 'if self.stats_calc_indices >= self.stats_calc_period:')
V('C09', 'refresh-every-call', QF, 'RealQuantizer.quantize', 'if self.stats_calc_indices == 0:', 'if True:')
V('C09', 'counter-plus2', QF, 'RealQuantizer.quantize', 'self.stats_calc_indices += 1', 'self.stats_calc_indices += 2')
V('C09', 'custom-replaces-mean', QF, 'RealQuantizer.quantize', 'data_mean=self.stats_cache[0]', 'data_mean=0 if custom_std is not None else self.stats_cache[0]')
V('C09', 'real-imag-swapped', QF, 'ComplexQuantizer.quantize', 'self.quantizer_r.quantize(xp.real(voltages)', 'self.quantizer_r.quantize(xp.imag(voltages)')
V('C09', 'custom-std-same', QF, 'ComplexQuantizer.quantize', 'custom_std=custom_stds[1]', 'custom_std=custom_stds[0]')
V('C09', 'shared-quantizer', QF, 'ComplexQuantizer.__init__', 'self.quantizer_i = RealQuantizer(target_mean=target_mean, target_fwhm=target_fwhm, num_bits=num_bits, stats_calc_period=stats_calc_period, stats_calc_num_samples=stats_calc_num_samples)', 'self.quantizer_i = self.quantizer_r')
V('C09', 'imag-fixed-bits', QF, 'ComplexQuantizer.__init__', 'num_bits=num_bits', 'num_bits=8', nth=1)
V('C09', 'estimate-suffix', 'voltage/data_stream.py', 'estimate_stats', 'xp.mean(voltages[:calc_len])', 'xp.mean(voltages[-calc_len:])')
V('C09', 'estimate-all', 'voltage/data_stream.py', 'estimate_stats', 'xp.std(voltages[:calc_len])', 'xp.std(voltages)')
V('C09', 'reset-one', QF, 'ComplexQuantizer._reset_cache', 'self.quantizer_i._reset_cache()', 'pass')
V('C09', 'foreign-counter', QF, 'RealQuantizer._set_target_stats', 'self.target_mean = target_mean', 'self.target_mean = target_mean\n    self.stats_calc_indices = 0')
V('C09', 'complex-func-swap', QF, 'quantize_complex', 'q_c = q_r + q_i * 1j', 'q_c = q_i + q_r * 1j')
V('C09', 'b-factor-ifexp', QF, 'quantize_real', 'if data_std == 0:\n        factor = 0\n    else:\n        factor = target_std / data_std', 'factor = 0 if data_std == 0 else target_std / data_std', kind='benign')
V('C09', 'b-counter-mod', QF, 'RealQuantizer.quantize', 'self.stats_calc_indices += 1\n    if self.stats_calc_indices == self.stats_calc_period:\n        self.stats_calc_indices = 0', 'nxt = self.stats_calc_indices + 1\n    self.stats_calc_indices = 0 if nxt == self.stats_calc_period else nxt', kind='benign')
V('C09', 'b-round-syn', QF, 'quantize_real', 'xp.around(', 'xp.round(', kind='benign')
V('C09', 'b-estimate-min', 'voltage/data_stream.py', 'estimate_stats', 'xp.amin(xp.array([stats_calc_num_samples, len(voltages)]))', 'min(len(voltages), stats_calc_num_samples)', kind='benign')
