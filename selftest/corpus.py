"""Self-validation corpus: edits are applied to the ast.unparse() normal form of the named
function on a scratch copy (formatting independent).  kind: break | benign."""
VARIANTS = []


def V(prop, id, file, func, old, new, kind='break', **kw):
    VARIANTS.append(dict(prop=prop, id=id, file=file, func=func, old=old, new=new, kind=kind, **kw))


# ------------------------------------------------------------------ C05
V('C05', 'floor-index', 'frame.py', 'Frame.get_index', 'np.round(', 'np.floor(')
V('C05', 'fmax-index', 'frame.py', 'Frame.get_index', 'self.fmin', 'self.fmax')
V('C05', 'endpoint-fs', 'frame.py', 'Frame._update_fs', 'endpoint=False', 'endpoint=True', all=True)
V('C05', 'no-reverse', 'frame.py', 'Frame._update_fs', 'self.fs = self.fs[::-1]', 'pass')
V('C05', 'ts-endpoint', 'frame.py', 'Frame._update_ts', 'endpoint=False', 'endpoint=True')
V('C05', 'shape-swapped', 'frame.py', 'Frame.__init__', 'self.shape = (self.tchans, self.fchans)', 'self.shape = (self.fchans, self.tchans)', nth=0)
V('C05', 'unit-drift-mul', 'frame.py', 'Frame.__init__', 'self.unit_drift_rate = self.df / self.dt', 'self.unit_drift_rate = self.df * self.dt')
V('C05', 'fmid-wrong', 'frame.py', 'Frame.fmid', '(self.fmin + self.fmax) / 2', '(self.fmin + self.fmax) / 2 + self.df / 2')
V('C05', 'tstop-off', 'frame.py', 'Frame.t_stop', 'self.tchans * self.dt', '(self.tchans - 1) * self.dt')
V('C05', 'driftrate-tchans', 'frame.py', 'Frame.get_drift_rate', 'self.tchans * self.dt', '(self.tchans - 1) * self.dt')
V('C05', 'getfreq-fmax', 'frame.py', 'Frame.get_frequency', 'self.fmin + self.df * index', 'self.fmin + self.df * (index + 1)')
V('C05', 'pfb-df', 'frame.py', 'params_from_backend', 'dt = int_factor / df', 'dt = int_factor * df')
V('C05', 'getvalue-drop-unit', 'unit_utils.py', 'get_value', 'return value.to(unit).value', 'return value.value')
V('C05', 'tsext-2dt', 'frame.py', 'Frame.ts_ext', 'self.ts[-1] + self.dt', 'self.ts[-1] + 2 * self.dt')
V('C05', 'b-around', 'frame.py', 'Frame.get_index', 'np.round(', 'np.around(', kind='benign')
V('C05', 'b-commute', 'frame.py', 'Frame.get_frequency', 'self.fmin + self.df * index', 'index * self.df + self.fmin', kind='benign')
V('C05', 'b-fmid-half', 'frame.py', 'Frame.fmid', '(self.fmin + self.fmax) / 2', '0.5 * (self.fmax + self.fmin)', kind='benign')
V('C05', 'b-fs-refactor', 'frame.py', 'Frame._update_fs',
  'self.fs = np.linspace(self.fmax, self.fmax - self.fchans * self.df, self.fchans, endpoint=False)\n        self.fmin = self.fs[-1]\n        self.fs = self.fs[::-1]',
  'self.fmin = self.fmax - (self.fchans - 1) * self.df\n        self.fs = self.fmin + np.arange(self.fchans) * self.df', kind='benign')
V('C05', 'b-invert-if', 'frame.py', 'Frame._update_fs', 'if self.ascending:', 'if not not self.ascending:', kind='benign')

# ------------------------------------------------------------------ C20
BK = 'voltage/backend.py'
V('C20', 'float-total', BK, 'RawVoltageBackend.record', 'self.num_blocks * self.samples_per_block * self.num_branches', 'int(self.obs_length / self.tbin) * self.num_branches')
V('C20', 'bps-no-div8', BK, 'RawVoltageBackend.__init__', 'self.bytes_per_sample = 2 * self.num_pols * self.num_bits // 8', 'self.bytes_per_sample = 2 * self.num_pols * self.num_bits // 4')
V('C20', 'spb-no-antennas', BK, 'RawVoltageBackend.__init__', 'self.block_size // (self.num_antennas * self.num_chans * self.bytes_per_sample)', 'self.block_size // (self.num_chans * self.bytes_per_sample)')
V('C20', 'tbin-inverted', BK, 'RawVoltageBackend.__init__', 'self.tbin = self.num_branches / self.sample_rate', 'self.tbin = self.sample_rate / self.num_branches')
V('C20', 'obslen-minus1', BK, 'RawVoltageBackend.record', 'self.obs_length = self.num_blocks * self.time_per_block', 'self.obs_length = (self.num_blocks - 1) * self.time_per_block')
V('C20', 'helper-diverges', BK, 'get_total_obs_num_samples', 'bytes_per_sample = 2 * num_pols * num_bits / 8', 'bytes_per_sample = num_pols * num_bits / 8')
V('C20', 'blocksize-helper', BK, 'get_block_size', 'T = tchans_per_block * fftlength * int_factor', 'T = tchans_per_block * fftlength')
V('C20', 'numblocks-no-pols', BK, 'RawVoltageBackend.get_num_blocks', ' * self.bytes_per_sample / self.block_size', ' * self.num_bytes / self.block_size')
V('C20', 'pktstop-blocks', BK, 'RawVoltageBackend._header_populate_configuration', 'self.num_blocks * self.samples_per_block', 'self.num_blocks * self.samples_per_block - 1')
V('C20', 'scanlen-tpb', BK, 'RawVoltageBackend._header_populate_configuration', "header_dict['SCANLEN'] = self.obs_length", "header_dict['SCANLEN'] = self.time_per_block")
V('C20', 'unitdrift-no-int', 'voltage/level_utils.py', 'get_unit_drift_rate', 'raw_voltage_backend.tbin * fftlength * int_factor', 'raw_voltage_backend.tbin * fftlength')
V('C20', 'mode-swap', BK, 'RawVoltageBackend.record', 'self.num_blocks = self.get_num_blocks(obs_length)', 'self.num_blocks = self.get_num_blocks(obs_length) + 1')
V('C20', 'drop-assert', BK, 'RawVoltageBackend.__init__', 'assert self.block_size % int(self.num_antennas * self.num_chans * self.num_taps * self.bytes_per_sample) == 0', 'pass')
V('C20', 'b-commute', BK, 'RawVoltageBackend.record', 'self.num_blocks * self.samples_per_block * self.num_branches', 'self.num_branches * self.samples_per_block * self.num_blocks', kind='benign')
V('C20', 'b-tbin-temp', BK, 'RawVoltageBackend.__init__', 'self.tbin = self.num_branches / self.sample_rate', 'nbr = self.num_branches\n    self.tbin = nbr * (1 / self.sample_rate)', kind='benign')
V('C20', 'b-numblocks-tpb', BK, 'RawVoltageBackend.get_num_blocks', 'return int(obs_length * abs(self.chan_bw) * self.num_antennas * self.num_chans * self.bytes_per_sample / self.block_size)', 'return int(obs_length / (self.tbin * self.block_size / (self.num_antennas * self.num_chans * self.bytes_per_sample)))', kind='benign')
