#!/venv/bin/python
"""Print a python file with long docstrings elided (reading aid, not part of any check)."""
import ast,sys
for path in sys.argv[1:]:
    src=open(path).read()
    tree=ast.parse(src)
    lines=src.split('\n')
    skip=set()
    for n in ast.walk(tree):
        if isinstance(n,(ast.FunctionDef,ast.ClassDef,ast.Module)):
            if n.body and isinstance(n.body[0],ast.Expr) and isinstance(n.body[0].value,ast.Constant) and isinstance(n.body[0].value.value,str):
                d=n.body[0]
                if d.end_lineno-d.lineno>2:
                    for i in range(d.lineno+1,d.end_lineno): skip.add(i)
    print('#####',path)
    for i,l in enumerate(lines,1):
        if i not in skip and l.strip(): print(i,l)
