"""tools/edit_meta.py FILE KEY 'old' 'new' : replace text inside a META[KEY] string literal of a rule file (re-wrapped)"""
import ast, sys, textwrap
path, key, old, new = sys.argv[1:5]
src = open(path).read()
tree = ast.parse(src)
node = None
for st in tree.body:
    if isinstance(st, ast.Assign) and any(isinstance(t, ast.Name) and t.id == 'META' for t in st.targets):
        for k, v in zip(st.value.keys, st.value.values):
            if isinstance(k, ast.Constant) and k.value == key:
                node = v
assert node is not None, path
val = ast.literal_eval(node)
if old == '$':
    val = val.rstrip() + ' ' + new
else:
    assert old in val, (path, old[:50])
    val = val.replace(old, new, 1)
lines = src.split('\n')
indent = ' ' * (node.col_offset)
chunks = textwrap.wrap(val, 112, break_long_words=False, drop_whitespace=False)
lit = ('\n' + indent).join(repr(c) for c in chunks)
start = sum(len(l) + 1 for l in lines[:node.lineno - 1]) + node.col_offset
end = sum(len(l) + 1 for l in lines[:node.end_lineno - 1]) + node.end_col_offset
src = src[:start] + lit + src[end:]
ast.parse(src)
open(path, 'w').write(src)
print('edited', path, key)
