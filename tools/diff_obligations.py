"""tools/diff_obligations.py OTHER_REPO [Cxx ...]: obligations (rule, clause, verdict) on /repo vs another tree.
For a behaviour-preserving variant the multisets must agree: an obligation that silently vanishes is a hole."""
import sys, os, importlib, collections
sys.path.insert(0, os.path.dirname(os.path.dirname(os.path.abspath(__file__))))
from vstatic.rule import Context
from vstatic.model import AnalysisError
from vstatic import terms as T


def obs(prop, repo):
    for s in (T.SYMKIND, T.NOTNONE, T.INTEGER, T.POSITIVE):
        s.clear()
    ctx = Context(prop, tier='quick', repo=repo)
    try:
        importlib.import_module('rules.' + prop.lower()).run(ctx)
    except AnalysisError as e:
        return None, str(e)
    return collections.Counter((o.rule, o.clause, o.verdict) for o in ctx.obligations), None


other = sys.argv[1]
props = sys.argv[2:] or [f'C{i:02d}' for i in range(1, 21)]
for p in props:
    a, ea = obs(p, '/repo')
    b, eb = obs(p, other)
    if ea or eb:
        print(p, 'ERROR', ea, eb)
        continue
    d = {k: (a[k], b[k]) for k in set(a) | set(b) if a[k] != b[k]}
    print(p, 'same' if not d else d)
