"""tools/gen_baseline_bodies.py: write vstatic/baseline_bodies.json -- the normalised body text of every PRIVATE baseline
function of /repo at the time the rules were last confirmed (used only to recognise a renamed private function, see
vstatic/model.py::_restore_renamed; bookkeeping helper, never run by a check)."""
import ast, json, os, sys
HERE = os.path.dirname(os.path.dirname(os.path.abspath(__file__)))
sys.path.insert(0, HERE)
from vstatic.model import toplevel_functions, body_text
out = {}
for dp, dns, fns in os.walk('/repo/setigen'):
    for fn in sorted(fns):
        if fn.endswith('.py'):
            rel = os.path.relpath(os.path.join(dp, fn), '/repo/setigen')[:-3].replace(os.sep, '.')
            if rel.endswith('__init__'):
                rel = rel[:-9].rstrip('.')
            tree = ast.parse(open(os.path.join(dp, fn)).read())
            for short, node in toplevel_functions(tree, rel):
                if node.name.startswith('_') and not node.name.startswith('__'):
                    out[short] = body_text(node)
json.dump(out, open(os.path.join(HERE, 'vstatic', 'baseline_bodies.json'), 'w'), indent=0, sort_keys=True)
print(len(out), 'private baseline functions')
