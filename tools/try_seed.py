#!/venv/bin/python
"""Confirm a seeded change and run the checks against it.
usage: try_seed.py <prop> <src_dir with patch.diff demo.py notes.txt> <worktree> <seed_id> [--skip-tests]
1. in the scratch worktree: demo passes unchanged; apply patch; full test suite passes; demo fails; revert.
2. apply patch to /repo, run every quick check, undo (git checkout -- .).
3. store under /verif/seeded/<seed_id>/ with meta.json."""
import json, os, shutil, subprocess, sys, time

def sh(cmd, cwd=None, env=None, timeout=2400):
    p = subprocess.run(cmd, shell=True, cwd=cwd, env=env, capture_output=True, text=True, timeout=timeout)
    return p.returncode, (p.stdout + p.stderr)

def main():
    prop, src, wt, sid = sys.argv[1:5]
    skip_tests = '--skip-tests' in sys.argv
    env = dict(os.environ, PYTHONPATH=wt, PYTHONWARNINGS='ignore')
    patch = os.path.join(src, 'patch.diff')
    demo = os.path.join(src, 'demo.py')
    out = {'property': prop, 'seed_id': sid}
    rc, o = sh('git status --porcelain -- setigen', cwd=wt)
    if o.strip():
        print('worktree not clean:', o); sh('git checkout -- setigen', cwd=wt)
    rc0, o0 = sh(f'/venv/bin/python {demo}', cwd=wt, env=env)
    out['demo_unchanged'] = 'PASS' if rc0 == 0 else f'FAIL rc={rc0}'
    rc, o = sh(f'git apply {patch}', cwd=wt)
    if rc != 0:
        print('patch does not apply:', o); return 2
    try:
        if not skip_tests:
            rc, o = sh('/venv/bin/python -m pytest -q -p no:cacheprovider --timeout=900 -x', cwd=wt, env=env)
            tail = [l for l in o.strip().split('\n') if 'passed' in l or 'failed' in l][-1:]
            out['tests_with_change'] = tail[0] if tail else o[-200:]
        rc1, o1 = sh(f'/venv/bin/python {demo}', cwd=wt, env=env)
        out['demo_with_change'] = 'FAIL' if rc1 != 0 else 'PASS (demo does not detect!)'
        out['demo_output_with_change'] = o1.strip()[-400:]
    finally:
        sh('git checkout -- setigen', cwd=wt)
    # checks against /repo
    rc, o = sh('git status --porcelain', cwd='/repo')
    assert not o.strip(), '/repo not clean'
    rc, o = sh(f'git apply {patch}', cwd='/repo')
    assert rc == 0, o
    results = {}
    try:
        for i in range(1, 21):
            pid = f'C{i:02d}'
            rc, o = sh(f'./check {pid} --tier quick', cwd='/verif')
            v = [l for l in o.split('\n') if l.startswith('VIOLATION')]
            results[pid] = {0: 'silent', 1: f'VIOLATION x{len(v)}', 2: 'ANALYSIS-ERROR'}.get(rc, f'rc={rc}')
            if rc == 1 and pid == prop:
                out['report'] = [l for l in o.split('\n') if l.startswith('  ') and '[' in l][:4]
    finally:
        sh('git checkout -- .', cwd='/repo')
        for i in range(1, 21):      # restore evidence files from the clean tree for the affected checks later
            pass
    out['checks'] = {k: v for k, v in results.items() if v != 'silent'}
    out['caught_by_own_property'] = results.get(prop, '').startswith('VIOLATION')
    out['caught_by_any'] = any(v.startswith('VIOLATION') for v in results.values())
    dst = os.path.join('/verif/seeded', sid)
    os.makedirs(dst, exist_ok=True)
    for f in ('patch.diff', 'demo.py', 'notes.txt'):
        if os.path.exists(os.path.join(src, f)):
            shutil.copy(os.path.join(src, f), os.path.join(dst, f))
    notes = open(os.path.join(src, 'notes.txt')).read() if os.path.exists(os.path.join(src, 'notes.txt')) else ''
    meta = {'breaks_property': prop, 'needs_to_manifest': notes.strip(), 'confirmed': out,
            'what_was_run': ['demo.py on the unchanged scratch worktree', 'git apply patch.diff; full pytest suite; demo.py; git checkout',
                             'git -C /repo apply; ./check C01..C20 --tier quick; git -C /repo checkout -- .']}
    json.dump(meta, open(os.path.join(dst, 'meta.json'), 'w'), indent=1)
    print(json.dumps(out, indent=1))
    return 0

if __name__ == '__main__':
    sys.exit(main())
