"""tools/record_fix.py PROP RULE COMMIT FUNCTION CONSTRUCT WHAT... : append a `fixed` entry to known_findings.json and
the commit to fix_commits.txt (bookkeeping helper; never run by a check)."""
import json, sys
prop, rule, commit, func, construct = sys.argv[1:6]
what = ' '.join(sys.argv[6:])
p = '/verif/known_findings.json'
d = json.load(open(p))
d['findings'].append({"status": "fixed", "property": prop, "rule": rule, "commit": commit, "function": func,
                      "construct": construct, "what": what, "line": f"fixed: property={prop} {commit} {what}"})
json.dump(d, open(p, 'w'), indent=1)
lines = open('/verif/fix_commits.txt').read()
if commit not in lines:
    open('/verif/fix_commits.txt', 'a').write(f"{commit} {what[:90]} ({prop})\n")
print('recorded', prop, commit)
