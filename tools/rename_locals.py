"""tools/rename_locals.py DEST [suffix] : scratch copy of /repo/setigen with every LOCAL variable of every function
renamed (parameters, attributes, globals and keyword names untouched).  A behaviour-preserving edit: all checks must
stay silent on it (robustness of the rules against local names)."""
import ast, os, shutil, sys, builtins

REPO = os.environ.get('VSTATIC_REPO', '/repo')


def rename_function(fn, suffix):
    params = set()
    for n in ast.walk(fn):
        if isinstance(n, (ast.FunctionDef, ast.AsyncFunctionDef, ast.Lambda)):
            a = n.args
            for x in a.posonlyargs + a.args + a.kwonlyargs:
                params.add(x.arg)
            if a.vararg:
                params.add(a.vararg.arg)
            if a.kwarg:
                params.add(a.kwarg.arg)
    declared = set()
    for n in ast.walk(fn):
        if isinstance(n, (ast.Global, ast.Nonlocal)):
            declared.update(n.names)
    nested_names = {n.name for n in ast.walk(fn) if isinstance(n, (ast.FunctionDef, ast.ClassDef)) and n is not fn}
    stored = set()
    for n in ast.walk(fn):
        if isinstance(n, ast.Name) and isinstance(n.ctx, (ast.Store, ast.Del)):
            stored.add(n.id)
        if isinstance(n, ast.ExceptHandler) and n.name:
            stored.add(n.name)
    targets = {x for x in stored if x not in params and x not in declared and x not in nested_names
               and not hasattr(builtins, x) and x != '_'}
    for n in ast.walk(fn):
        if isinstance(n, ast.Name) and n.id in targets:
            n.id = n.id + suffix
        if isinstance(n, ast.ExceptHandler) and n.name in targets:
            n.name = n.name + suffix
    return len(targets)


def main():
    dest = sys.argv[1]
    suffix = sys.argv[2] if len(sys.argv) > 2 else '_rn'
    shutil.rmtree(dest, ignore_errors=True)
    shutil.copytree(os.path.join(REPO, 'setigen'), os.path.join(dest, 'setigen'),
                    ignore=shutil.ignore_patterns('__pycache__'))
    total = 0
    for dp, dns, fns in os.walk(os.path.join(dest, 'setigen')):
        for f in fns:
            if not f.endswith('.py'):
                continue
            p = os.path.join(dp, f)
            tree = ast.parse(open(p).read())
            for node in tree.body:
                if isinstance(node, (ast.FunctionDef, ast.AsyncFunctionDef)):
                    total += rename_function(node, suffix)
                elif isinstance(node, ast.ClassDef):
                    for sub in node.body:
                        if isinstance(sub, (ast.FunctionDef, ast.AsyncFunctionDef)):
                            total += rename_function(sub, suffix)
            open(p, 'w').write(ast.unparse(tree) + '\n')
    print(f'renamed {total} locals')


main()
