"""user-supplied TELESCOP/OBSERVER/SRC_NAME equal to the input recording's are not preserved when recording onto input data"""
import os, sys, tempfile, numpy as np
import setigen as stg
from setigen.voltage import raw_utils
def backend_parts():
    ant = stg.voltage.Antenna(sample_rate=3e9, fch1=6e9, ascending=True, num_pols=2, seed=1)
    ant.x.add_noise(0, 1); ant.y.add_noise(0, 1)
    dig = stg.voltage.RealQuantizer(target_fwhm=32, num_bits=8)
    fb = stg.voltage.PolyphaseFilterbank(num_taps=4, num_branches=16)
    rq = stg.voltage.ComplexQuantizer(target_fwhm=32, num_bits=8)
    return ant, dig, fb, rq
d = tempfile.mkdtemp()
ant, dig, fb, rq = backend_parts()
b = stg.voltage.RawVoltageBackend(ant, digitizer=dig, filterbank=fb, requantizer=rq, start_chan=0, num_chans=4, block_size=4*2*2*16, blocks_per_file=2, num_subblocks=1)
user = {'TELESCOP': 'GBT', 'OBSERVER': 'me', 'SRC_NAME': 'Voyager'}
b.record(output_file_stem=os.path.join(d, 'in'), num_blocks=1, length_mode='num_blocks', header_dict=dict(user), load_template=False, verbose=False)
ant, dig, fb, rq = backend_parts()
b2 = stg.voltage.RawVoltageBackend.from_data(os.path.join(d, 'in'), ant, digitizer=dig, filterbank=fb, start_chan=0, num_subblocks=1)
b2.record(output_file_stem=os.path.join(d, 'out'), num_blocks=1, length_mode='num_blocks', header_dict=dict(user), load_template=False, verbose=False)
h = raw_utils.read_header(os.path.join(d, 'out.0000.raw'))
got = {k: h[k].strip().strip("'").strip() for k in user}
print(got)
ok = got == user
# and inherited (not user-supplied) values are still tagged
ant, dig, fb, rq = backend_parts()
b3 = stg.voltage.RawVoltageBackend.from_data(os.path.join(d, 'in'), ant, digitizer=dig, filterbank=fb, start_chan=0, num_subblocks=1)
b3.record(output_file_stem=os.path.join(d, 'out2'), num_blocks=1, length_mode='num_blocks', load_template=False, verbose=False)
h2 = raw_utils.read_header(os.path.join(d, 'out2.0000.raw'))
got2 = {k: h2[k].strip().strip("'").strip() for k in user}
print(got2)
ok = ok and got2 == {k: v + '_SETIGEN' for k, v in user.items()}
print('PASS' if ok else 'FAIL'); sys.exit(0 if ok else 1)
