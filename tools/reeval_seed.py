"""tools/reeval_seed.py SEED_ID...: apply a stored seed to a scratch copy of /repo/setigen, run the 20 quick checks on the copy and
rewrite the seed's meta.json fields checks_reporting_violation / checks_silent_required / caught_by_own_property (bookkeeping
helper; never run by a check)."""
import json, os, shutil, subprocess, sys, tempfile
ALL = [f'C{i:02d}' for i in range(1, 21)]
for sid in sys.argv[1:]:
    d = f'/verif/seeded/{sid}'
    tmp = tempfile.mkdtemp(prefix='reeval_')
    try:
        shutil.copytree('/repo/setigen', tmp + '/setigen')
        r = subprocess.run(['patch', '-p1', '-s', '-f', '--no-backup-if-mismatch', '-d', tmp, '-i', d + '/patch.diff'], capture_output=True)
        if r.returncode != 0:
            print(sid, 'PATCH FAILS'); continue
        viol, err = [], []
        for p in ALL:
            rc = subprocess.run(['/verif/check', p, '--repo', tmp], capture_output=True).returncode
            if rc == 1:
                viol.append(p)
            elif rc == 2:
                err.append(p)
        m = json.load(open(d + '/meta.json'))
        m['checks_reporting_violation'] = viol
        if m.get('kind', 'break') == 'benign':
            m['checks_silent_required'] = [p for p in ALL if p not in viol and p not in err]
            if not viol and not err:
                m.pop('residual_false_alarm', None)
        else:
            m['caught_by_own_property'] = m.get('breaks_property') in viol
        if err:
            m['checks_analysis_error'] = err
        else:
            m.pop('checks_analysis_error', None)
        json.dump(m, open(d + '/meta.json', 'w'), indent=1)
        print(sid, 'violations:', viol, 'errors:', err)
    finally:
        shutil.rmtree(tmp, ignore_errors=True)
