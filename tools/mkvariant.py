"""tools/mkvariant.py PROP ID DEST : materialise one corpus variant as a scratch tree (debugging aid)"""
import os, shutil, sys
HERE = os.path.dirname(os.path.dirname(os.path.abspath(__file__)))
sys.path.insert(0, HERE)
from selftest.runner import apply_edit, seeded_variants, REPO
from selftest.corpus import VARIANTS
prop, vid, dest = sys.argv[1:4]
v = next(x for x in list(VARIANTS) + seeded_variants() if x['prop'] == prop and x['id'] == vid)
shutil.rmtree(dest, ignore_errors=True)
shutil.copytree(os.path.join(REPO, 'setigen'), os.path.join(dest, 'setigen'))
print(apply_edit(dest, v))
