#!/venv/bin/python
"""Generate /verif/MANIFEST.json from the META tables of rules/cNN.py."""
import json, os, sys, importlib
HERE = os.path.dirname(os.path.dirname(os.path.abspath(__file__)))
sys.path.insert(0, HERE)
props = [json.loads(l) for l in open(os.path.join(HERE, 'properties.jsonl'))]
checks, na = [], []
for p in props:
    pid = p['id']
    try:
        mod = importlib.import_module('rules.' + pid.lower())
        meta = getattr(mod, 'META')
    except Exception as e:
        na.append({'property_id': pid, 'reason': 'static check not built yet in this session (see DESIGN.md §4 for the planned structural clauses)'})
        continue
    if meta.get('not_applicable'):
        na.append({'property_id': pid, 'reason': meta['not_applicable']})
        continue
    checks.append({
        'property_id': pid,
        'quick_cmd': f'./check {pid} --tier quick',
        'thorough_cmd': f'./check {pid} --tier thorough',
        'evidence_file': f'evidence/{pid}.json',
        'replay_cmd_template': f'./check {pid} --explain {{path}}',
        'engine': 'vstatic',
        'level_claimed': {'category': 'other', 'text': meta['level'], 'design_ref': f'DESIGN.md §4.{pid}'},
        'level_note': meta['note'],
        'technique': meta['technique'],
    })
man = {
    'version': 1,
    'setup_cmd': '/venv/bin/python -m compileall -q vstatic rules selftest && ./check C05 --tier quick >/dev/null',
    'hooks': {'guard': 'SETIGEN_VERIF', 'enable': 'none needed: the checks parse /repo/setigen/**/*.py from the working tree; no instrumentation exists',
              'baseline_off_cmd': 'cd /repo && /venv/bin/python -m pytest -ra -q -p no:cacheprovider --timeout=900 --continue-on-collection-errors',
              'source_commits': [], 'add_only': True},
    'engines': [{'name': 'vstatic', 'path': 'vstatic/', 'serves_properties': [c['property_id'] for c in checks],
                 'kind_free_text': 'repository-specific static analyser (stdlib ast): symbolic value analysis over exact rational normal forms, event traces with path conditions, effect/alias summaries, call resolution; nothing from setigen is imported or executed'}],
    'checks': checks,
    'not_applicable': na,
    'notes': 'All checks are static analysis of /repo/setigen source (family: static analysis). Each check decides named structural clauses (necessary conditions) of its property; the behavioural remainder is listed as not decided in DESIGN.md §4 and is not claimed.',
}
fix = os.path.join(HERE, 'fix_commits.txt')
if os.path.exists(fix):
    man['hooks']['source_commits'] = [l.split()[0] for l in open(fix) if l.strip()]
json.dump(man, open(os.path.join(HERE, 'MANIFEST.json'), 'w'), indent=1)
print(len(checks), 'checks,', len(na), 'not applicable')
