"""tools/mktransform.py NAME DEST : scratch tree with a whole-package behaviour-preserving transform applied"""
import os, shutil, sys
HERE = os.path.dirname(os.path.dirname(os.path.abspath(__file__)))
sys.path.insert(0, HERE)
from selftest.runner import apply_edit, REPO
name, dest = sys.argv[1:3]
shutil.rmtree(dest, ignore_errors=True)
shutil.copytree(os.path.join(REPO, 'setigen'), os.path.join(dest, 'setigen'), ignore=shutil.ignore_patterns('__pycache__'))
print(apply_edit(dest, {'transform': name}))
