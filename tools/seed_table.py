"""tools/seed_table.py ROUND: print the two markdown tables of DESIGN §8 for one round of stored seeds (breaking changes;
refactorings that alarmed on first contact) from seeded/r<ROUND>-*/meta.json (bookkeeping helper; never run by a check)."""
import glob, json, os, sys

rnd = sys.argv[1]
rows_b, rows_r = [], []
n_ref = n_ref_first = n_ref_now = 0
for d in sorted(glob.glob(f'/verif/seeded/r{rnd}-*')):
    sid = os.path.basename(d)
    m = json.load(open(d + '/meta.json'))
    notes = open(d + '/notes.txt').read() if os.path.exists(d + '/notes.txt') else ''
    first_line = next((l.strip() for l in notes.splitlines() if l.strip()), '').replace('|', '/')
    fp = m.get('first_pass_result')
    now = list(m.get('checks_reporting_violation', [])) + [e if e.endswith('(ERR)') else e + '(ERR)' for e in m.get('checks_analysis_error', [])]
    def show(x):
        return ' '.join(x) if x else 'silent'
    if m.get('kind', 'break') == 'break':
        rows_b.append(f"| {sid} | {first_line[:120]} | {show(fp) if fp is not None else '?'} | {show(now)} | "
                      f"{'yes' if m.get('caught_by_own_property') else 'NO'} |")
    else:
        n_ref += 1
        if fp:
            n_ref_first += 1
        if now:
            n_ref_now += 1
        if fp or now:
            rows_r.append(f"| {sid} | {first_line[:140]} | {show(fp) if fp is not None else '?'} | {show(now)} |")
print('| seed | change (first line of the agent\'s note) | first | now | own property |\n|---|---|---|---|---|')
print('\n'.join(rows_b))
print()
print(f'<!-- refactorings: {n_ref} stored, {n_ref_first} alarmed at first contact, {n_ref_now} alarm now -->')
print('| refactoring | change | first contact | now |\n|---|---|---|---|')
print('\n'.join(rows_r))
