"""E4 symbolic value analysis: abstract interpretation of function bodies into Terms,
with an event trace (stores / calls / returns / raises) carrying path conditions,
loop context and try context.  No setigen code is executed: statements are walked
syntactically and values are symbolic terms.
"""
import ast
from fractions import Fraction as F

from . import terms as T
from .terms import Term, Atom, lift, sym, NONE, TRUE, FALSE
from .model import FuncInfo, ClassInfo, ModuleInfo, AnalysisError, stmt_text

UNITS = {'Hz': 1, 'kHz': 10**3, 'MHz': 10**6, 'GHz': 10**9, 's': 1, 'ms': F(1, 1000),
         'pixel': 1, 'pix': 1, 'us': F(1, 10**6), 'min': 60, 'hour': 3600}

POSNAMES = {'df', 'dt', 'sample_rate', 'num_branches', 'num_taps', 'fchans', 'tchans',
            'num_chans', 'num_pols', 'num_antennas', 'num_bits', 'block_size', 'tbin',
            'fftlength', 'int_factor', 'samples_per_block', 'bytes_per_sample',
            'blocks_per_file', 't_subsamples', 'f_subsamples', 'time_per_block',
            'unit_drift_rate', 'chi2_df', 'tchans_per_block'}
INTNAMES = {'num_branches', 'num_taps', 'fchans', 'tchans', 'num_chans', 'num_pols',
            'num_antennas', 'num_bits', 'block_size', 'fftlength', 'int_factor',
            'samples_per_block', 'bytes_per_sample', 'blocks_per_file', 't_subsamples',
            'f_subsamples', 'start_chan', 'num_blocks', 'num_subblocks', 'tchans_per_block',
            'smearing_subsamples', 'max_delay', 'input_num_blocks'}


def _install_sign_hooks():
    old_pos = T._atom_pos

    def atom_pos(a):
        if a.kind == 'attr' and a.args[1] in POSNAMES:
            return True
        if a.kind == 'sym' and a.args[0] in T.POSITIVE:
            return True
        return old_pos(a)
    T._atom_pos = atom_pos
    old_int = T.is_integer

    def is_integer(t):
        if T.EXACT_RATIOS and old_int(t):
            return True
        for m, c in t.p.items():
            if c.denominator != 1:
                return False
            for a, e in m:
                if e.denominator != 1 or e < 0:
                    return False
                if a.kind == 'attr' and a.args[1] in INTNAMES:
                    continue
                if a.kind == 'sym' and a.args[0] in T.INTEGER:
                    continue
                if a.kind in ('idx',):
                    continue
                if a.kind == 'call' and a.args[0] in ('round', 'floor', 'ceil', 'trunc', 'len', 'floordiv', 'mod'):
                    continue
                if a.kind == 'call' and a.args[0] in ('min', 'max') and all(is_integer(x) for x in a.args[1]):
                    continue
                if a.kind == 'ite' and is_integer(a.args[1]) and is_integer(a.args[2]):
                    continue
                if old_int(Term.of(a)):
                    continue        # (the domain facts of vstatic.terms: integer-valued calls and attributes)
                return False
        return True
    T.is_integer = is_integer


_install_sign_hooks()

NPSIG = {
    'linspace': ['start', 'stop', 'num', 'endpoint'],
    'mean': ['a', 'axis'], 'sum': ['a', 'axis'], 'std': ['a', 'axis'], 'median': ['a', 'axis'],
    'var': ['a', 'axis'], 'full': ['shape', 'fill_value', 'dtype'], 'zeros': ['shape', 'dtype'],
    'empty': ['shape', 'dtype'], 'ones': ['shape', 'dtype'], 'fft': ['a', 'n', 'axis'],
    'rfft': ['a', 'n', 'axis'], 'fftshift': ['x', 'axes'], 'clip': ['a', 'a_min', 'a_max'],
    'repeat': ['a', 'repeats', 'axis'], 'concatenate': ['arrays', 'axis'],
    'append': ['arr', 'values', 'axis'], 'diff': ['a', 'n', 'axis'], 'array': ['object', 'dtype'],
    'astype': ['a', 'dtype'], 'frombuffer': ['buffer', 'dtype'], 'expand_dims': ['a', 'axis'],
    'where': ['condition', 'x', 'y'], 'tile': ['A', 'reps'], 'sort': ['a', 'axis'],
    'flip': ['m', 'axis'], 'firwin': ['numtaps', 'cutoff', 'width', 'window', 'pass_zero', 'scale'],
    'normal': ['rng', 'loc', 'scale', 'size'], 'chisquare': ['rng', 'df', 'size'],
    'standard_normal': ['rng', 'size'], 'uniform': ['rng', 'low', 'high', 'size'],
    'integers': ['rng', 'low', 'high', 'size'], 'choice': ['rng', 'a', 'size'],
    'sigma_clip': ['data', 'sigma'], 'default_rng': ['seed'], 'cumsum': ['a', 'axis'],
    'round': ['a', 'decimals'],
}
NUMPY_METHODS = {'reshape', 'astype', 'sum', 'mean', 'std', 'flatten', 'copy', 'tobytes', 'min',
                 'max', 'round', 'clip', 'transpose', 'ravel', 'var', 'cumsum', 'conj', 'fill',
                 'tolist', 'item', 'squeeze', 'dot'}
RNG_METHODS = {'normal', 'chisquare', 'standard_normal', 'uniform', 'integers', 'choice', 'random',
               'shuffle', 'permutation'}
MUTATING_METHODS = {'append', 'extend', 'insert', 'update', 'pop', 'remove', 'clear', 'sort',
                    'reverse', 'setdefault', 'popitem', 'fill', 'add', 'discard', 'resize'}
EXT_FUNCS_PURE = {'numpy', 'scipy', 'math', 'copy', 'astropy', 'pathlib', 'glob', 'os', 'time'}


class Event:
    __slots__ = ('kind', 'node', 'func', 'stack', 'pc', 'loops', 'tryctx', 'data', 'seq')

    def __init__(self, kind, node, func, stack, pc, loops, tryctx, data, seq):
        self.kind, self.node, self.func, self.stack = kind, node, func, stack
        self.pc, self.loops, self.tryctx, self.data, self.seq = pc, loops, tryctx, data, seq

    @property
    def line(self):
        return getattr(self.node, 'lineno', 0)

    def cond(self):
        return T.mk_and(self.pc)

    @property
    def owner(self):
        """short name of the function this event belongs to for the rules: the innermost function on the call chain that
        the rules know (baseline); events inside a later-extracted helper belong to the function it was extracted from"""
        from .baseline import BASELINE_FUNCS
        chain = [s for s, _ in self.stack] + ([self.func.short] if self.func is not None else [])
        for name in reversed(chain):
            base = name.split('#')[0]
            if base in BASELINE_FUNCS:
                return name
            if '<locals>' in name and name.split('.<locals>')[0].split('#')[0] in BASELINE_FUNCS:
                return name.split('.<locals>')[0]        # closures and lambdas belong to the function that defines them
        return chain[-1] if chain else None

    def text(self):
        return stmt_text(self.node)

    def __repr__(self):
        return f'<Ev {self.kind} {self.func.short if self.func else "?"}:{self.line} {self.data.get("name", "")}>'


class Closure:
    def __init__(self, fi, env, self_term, self_cls):
        self.fi, self.env, self.self_term, self.self_cls = fi, env, self_term, self_cls


class Frame_:
    def __init__(self, fi, env, self_term, self_cls, base_len, depth, stack):
        self.fi, self.env, self.self_term, self.self_cls = fi, env, self_term, self_cls
        self.base_len, self.depth, self.stack = base_len, depth, stack
        self.returns = []
        self.ret_heaps = []       # (condition relative to the frame, heap at that `return`)
        self.ret_envs = []        # (condition, local environment at that `return`)
        self.final_env = None     # environment at exit, merged over all exits (set by _run_frame)
        self.yields = []


class Result:
    def __init__(self, ret, env, heap, events, live, returns):
        self.ret, self.env, self.heap, self.events, self.live, self.returns = ret, env, heap, events, live, returns


_NOCONT = {}


def _without_continue(loop):
    """the same loop with structured `continue` statements expressed as if/else:
         if c: A; continue            if c: A
         REST                   ==    else: REST
    (a trailing `continue` is dropped).  Returns the loop itself when nothing changes or a `continue` remains in a
    position this rewrite does not cover."""
    if id(loop) in _NOCONT:
        return _NOCONT[id(loop)][1]

    def has_cont(stmts):
        return any(isinstance(n, ast.Continue) for s_ in stmts for n in _walk_same_loop(s_))

    def rewrite(stmts):
        out = []
        for i, st in enumerate(stmts):
            if isinstance(st, ast.Continue):
                return out                      # anything after it is dead
            if isinstance(st, ast.If) and has_cont([st]):
                body_c = bool(st.body) and isinstance(st.body[-1], ast.Continue)
                else_c = bool(st.orelse) and isinstance(st.orelse[-1], ast.Continue)
                rest = list(stmts[i + 1:])
                if body_c and not has_cont(st.body[:-1]) and not has_cont(st.orelse[:-1] if else_c else st.orelse):
                    body = rewrite(st.body[:-1]) or [ast.copy_location(ast.Pass(), st)]
                    orelse = rewrite((st.orelse[:-1] if else_c else list(st.orelse) + rest))
                    if else_c:
                        # both arms continue: REST is dead
                        pass
                    new = ast.copy_location(ast.If(test=st.test, body=body, orelse=orelse), st)
                    out.append(new)
                    return out
                if else_c and not has_cont(st.body) and not has_cont(st.orelse[:-1]):
                    body = rewrite(list(st.body) + rest)
                    orelse = rewrite(st.orelse[:-1]) or []
                    new = ast.copy_location(ast.If(test=st.test, body=body or [ast.copy_location(ast.Pass(), st)], orelse=orelse), st)
                    out.append(new)
                    return out
                raise ValueError('unstructured continue')
            if has_cont([st]) and not isinstance(st, (ast.For, ast.While)):
                raise ValueError('unstructured continue')
            out.append(st)
        return out
    res = loop
    try:
        if has_cont(loop.body):
            body = rewrite(list(loop.body)) or [ast.copy_location(ast.Pass(), loop)]
            if isinstance(loop, ast.For):
                res = ast.copy_location(ast.For(target=loop.target, iter=loop.iter, body=body, orelse=loop.orelse,
                                                type_comment=None), loop)
            else:
                res = ast.copy_location(ast.While(test=loop.test, body=body, orelse=loop.orelse), loop)
            ast.fix_missing_locations(res)
    except ValueError:
        res = loop
    _NOCONT[id(loop)] = (loop, res)
    _NOCONT[id(res)] = (res, res)
    return res


_ROT = {}


def _rotate_loop_and_a_half(st):
    """while True: S1; if c: break|return v; S2      ==      S1; while not c: S2; S1     [; return v]
    (S1 free of break/continue/return, the exit test the only break/return at the level of this loop, no `continue` in S2)"""
    if id(st) in _ROT:
        return _ROT[id(st)][1]
    out = None
    try:
        if not st.orelse and any(isinstance(n, ast.NamedExpr) for n in ast.walk(st.test)):
            out = _rotate_walrus_test(st)
        if isinstance(st.test, ast.Constant) and st.test.value is True and not st.orelse:
            def level(stmts):
                for s_ in stmts:
                    for n in _walk_same_loop(s_):
                        yield n
            ks = [i for i, b in enumerate(st.body) if isinstance(b, ast.If) and not b.orelse and len(b.body) == 1
                  and isinstance(b.body[0], (ast.Break, ast.Return))]
            if len(ks) >= 1:
                k = ks[0]
                s1, exit_if, s2 = st.body[:k], st.body[k], st.body[k + 1:]
                bad1 = any(isinstance(n, (ast.Break, ast.Continue, ast.Return)) for n in level(s1))
                bad2 = any(isinstance(n, (ast.Break, ast.Continue)) for n in level(s2))
                if s1 and not bad1 and not bad2:
                    test = ast.copy_location(ast.UnaryOp(op=ast.Not(), operand=exit_if.test), exit_if.test)
                    loop = ast.copy_location(ast.While(test=test, body=list(s2) + list(s1), orelse=[]), st)
                    ast.fix_missing_locations(loop)
                    post = [exit_if.body[0]] if isinstance(exit_if.body[0], ast.Return) else []
                    out = (list(s1), loop, post)
    except Exception:
        out = None
    _ROT[id(st)] = (st, out)
    return out


def _hoist_walrus(test):
    """(assignments, test') for a test whose assignment expressions are evaluated unconditionally and after nothing but
    names / constants / attribute reads: `END not in (chunk := f.read(80))`  ->  chunk = f.read(80); END not in chunk"""
    import copy
    found = []

    def ok(node, top=True):
        if isinstance(node, ast.NamedExpr):
            if not isinstance(node.target, ast.Name) or any(isinstance(x, ast.NamedExpr) for x in ast.walk(node.value)):
                return False
            found.append(node)
            return True
        if isinstance(node, (ast.Name, ast.Constant)):
            return True
        if isinstance(node, ast.Attribute):
            return ok(node.value)
        if isinstance(node, ast.UnaryOp):
            return ok(node.operand)
        if isinstance(node, ast.Compare):
            return ok(node.left) and all(ok(c) for c in node.comparators)
        if isinstance(node, ast.BoolOp):
            # only the first operand is evaluated unconditionally
            return ok(node.values[0]) and not any(isinstance(x, ast.NamedExpr) for v in node.values[1:] for x in ast.walk(v))
        # anything else (calls, subscripts, arithmetic) may not contain an assignment expression
        return not any(isinstance(x, ast.NamedExpr) for x in ast.walk(node))
    if not ok(test) or not found:
        return None

    class R(ast.NodeTransformer):
        def visit_NamedExpr(self, n):
            return ast.copy_location(ast.Name(id=n.target.id, ctx=ast.Load()), n)
    assigns = [ast.copy_location(ast.Assign(targets=[ast.Name(id=n.target.id, ctx=ast.Store())], value=n.value, type_comment=None), n)
               for n in found]
    new_test = R().visit(copy.deepcopy(test))
    for a_ in assigns:
        ast.fix_missing_locations(a_)
    ast.fix_missing_locations(new_test)
    return assigns, new_test


def _rotate_walrus_test(st):
    """while TEST(x := e): BODY      ==      x = e; while TEST(x): BODY; x = e"""
    h = _hoist_walrus(st.test)
    if h is None:
        return None
    assigns, test = h
    if any(isinstance(n, ast.Continue) for b in st.body for n in _walk_same_loop(b)):
        return None
    loop = ast.copy_location(ast.While(test=test, body=list(st.body) + list(assigns), orelse=[]), st)
    ast.fix_missing_locations(loop)
    return (list(assigns), loop, [])


def last_only_names(st, n):
    return ()


def _walk_same_loop(node):
    """nodes of a statement that belong to the same loop level (nested loops and functions are not entered)"""
    yield node
    if isinstance(node, (ast.For, ast.While, ast.FunctionDef, ast.Lambda, ast.ClassDef)):
        return
    for ch in ast.iter_child_nodes(node):
        if isinstance(ch, (ast.For, ast.While, ast.FunctionDef, ast.Lambda, ast.ClassDef)):
            continue
        yield from _walk_same_loop(ch)


class Interp:
    def __init__(self, prog, max_depth=4, types=None, no_inline=(), quantity_plain=True,
                 expansions=None, opaque_attrs=(), sticky_attrs=()):
        self.prog = prog
        self.max_depth = max_depth
        self.types = dict(types or {})          # term key -> ClassInfo
        self.no_inline = set(no_inline)         # short quals never inlined
        self._assign_trackers = []
        self.asserted_domains = {}
        self.deref_syms = set()
        self._with_hooks = {}
        self._with_fired = set()
        self._plain_loops = set()
        self.quantity_plain = quantity_plain
        self.expansions = expansions            # ClassExpansions or None
        self.opaque_attrs = set(opaque_attrs)
        self.events = []
        self.heap = {}
        self.pc = []
        self.loops = ()
        self.tryctx = ()
        self.closures = {}
        self.frames = []
        self._loop_id = 0
        self._seq = 0
        self._new_id = 0
        self.unresolved = []
        self.loop_shape = {}
        self.heap_base = {}       # key of a base object -> its term (to name the entry value of an attribute)
        self.loop_init = {}
        self.pending = []
        self.record = True
        if sticky_attrs:
            # stores to these self attributes keep the symbolic attribute as their value
            self.expansion_mode = (sym('self'), lambda v: False, set(sticky_attrs), set(), False)

    # ------------------------------------------------------------------ API
    def run(self, fi, args=None, self_term=None, self_cls=None):
        """Symbolically execute function `fi` with params bound to `args` (dict name->Term;
        missing params become symbols named after the parameter)."""
        args = dict(args or {})
        env = {}
        params = fi.all_params()
        if fi.cls is not None and not fi.is_staticmethod and params and fi.parent is None:
            first = params[0]
            if fi.is_classmethod:
                env[first] = args.pop(first, Term.of(Atom('class', fi.cls.qual)))
            else:
                self_term = self_term if self_term is not None else args.pop(first, sym(first))
                env[first] = self_term
                self_cls = self_cls or fi.cls
            params = params[1:]
        for p in params:
            env[p] = args.get(p, sym(p))
        a = fi.node.args
        if a.vararg:
            env[a.vararg.arg] = args.get(a.vararg.arg, sym('*' + a.vararg.arg))
        if a.kwarg:
            env[a.kwarg.arg] = args.get(a.kwarg.arg, sym('**' + a.kwarg.arg))
        if self_term is not None and self_cls is not None:
            self.types.setdefault(self_term.key, self_cls)
        fr = Frame_(fi, env, self_term, self_cls, len(self.pc), 0, ())
        ret, live = self._run_frame(fr)
        return Result(ret, fr.env, self.heap, self.events, live, fr.returns)

    def _run_frame(self, fr):
        self.frames.append(fr)
        try:
            body = fr.fi.node.body
            if isinstance(fr.fi.node, ast.Lambda):
                v = self.ev(body, fr)
                fr.returns.append((TRUE, v))
                live = FALSE
            else:
                live = self.exec_block(body, fr)
        finally:
            self.frames.pop()
        # the state the caller continues with is the state at WHICHEVER exit was taken: merge the heaps recorded at the
        # early returns with the fall-through heap (a helper that returns early leaves the attributes untouched on that path)
        if fr.ret_heaps:
            merged = self.heap if live.key != FALSE.key else None
            for c, h in reversed(fr.ret_heaps):
                merged = h if merged is None else self._merge(c, h, merged)
            self.heap = merged
        menv = dict(fr.env) if live.key != FALSE.key else None
        for c, e_ in reversed(fr.ret_envs):
            menv = dict(e_) if menv is None else self._merge(c, e_, menv)
        fr.final_env = menv if menv is not None else dict(fr.env)
        rets = list(fr.returns)
        if live.key != FALSE.key:
            rets.append((live, NONE))
        if not rets:
            return Term.of(Atom('noreturn')), live
        acc = rets[-1][1]
        for c, t in reversed(rets[:-1]):
            rest = acc
            at = c.single_atom()
            if at is not None and at.kind not in ('and',):
                rest = T.assume(acc, {c.key: False}) if at.kind != 'not' else T.assume(acc, {at.args[0].key: True})
            acc = T.mk_ite(c, t, rest)
        return acc, live

    # ------------------------------------------------------------------ events
    def emit(self, kind, node, fr, **data):
        if not self.record:
            return None
        self._seq += 1
        e = Event(kind, node, fr.fi, fr.stack, list(self.pc), self.loops, self.tryctx, data, self._seq)
        self.events.append(e)
        return e

    # ------------------------------------------------------------------ blocks
    def exec_block(self, stmts, fr):
        """Returns the condition (relative to block entry) under which control falls through."""
        live = TRUE
        n0 = len(self.pc)
        for st in stmts:
            l = self.exec_stmt(st, fr)
            if self.pending:
                l = T.mk_and([l] + self.pending)
                self.pending = []
            if l.key != TRUE.key:
                live = T.mk_and([live, l])
                self.pc.append(l)
            if live.key == FALSE.key:
                break
        del self.pc[n0:]
        return live

    def _branch(self, fr, extra_cond, stmts):
        env0, heap0 = fr.env, self.heap
        fr.env, self.heap = dict(env0), dict(heap0)
        n0 = len(self.pc)
        if extra_cond is not None and extra_cond.key != TRUE.key:
            self.pc.append(extra_cond)
        live = self.exec_block(stmts, fr)
        del self.pc[n0:]
        out = (fr.env, self.heap, live)
        fr.env, self.heap = env0, heap0
        return out

    def _merge(self, c, a, b):
        out = {}
        selfk = sym('self').key
        # an attribute of `self` that one branch does not assign keeps the value it had on entry -- except inside a
        # constructor, where it may not exist yet
        in_ctor = bool(self.frames) and self.frames[0].fi.name == '__init__'

        def missing(k):
            if not isinstance(k, str) and k[0] == selfk and not in_ctor:
                return T.mk_attr(sym('self'), k[1])
            if not isinstance(k, str) and k[0] != selfk and k[0] in self.heap_base:
                ba = self.heap_base[k[0]].single_atom()
                if ba is None or ba.kind != 'new':        # an object that existed before the call keeps its attribute
                    return T.mk_attr(self.heap_base[k[0]], k[1])
            return Term.of(Atom('undef', k if isinstance(k, str) else k[0] + '.' + k[1]))
        for k in set(a) | set(b):
            va = a.get(k)
            vb = b.get(k)
            if va is None:
                va = missing(k)
            if vb is None:
                vb = missing(k)
            out[k] = va if va.key == vb.key else T.mk_ite(c, va, vb)
        return out

    def exec_stmt(self, st, fr):
        m = getattr(self, 'st_' + type(st).__name__, None)
        if m is None:
            self.emit('unknown_stmt', st, fr)
            return TRUE
        return m(st, fr)

    # ---- simple statements
    def st_Expr(self, st, fr):
        if isinstance(st.value, ast.Constant):
            return TRUE
        if isinstance(st.value, (ast.Yield, ast.YieldFrom)):
            v = self.ev(st.value.value, fr) if st.value.value is not None else NONE
            fr.yields.append(v)
            hook = self._with_hooks.get(id(fr.fi.node))
            if hook is not None and isinstance(st.value, ast.Yield):
                # @contextmanager: the body of the `with` statement runs here, in the frame of the function that wrote it
                caller_fr, wst, item = hook
                self._with_fired.add(id(item))
                if item.optional_vars is not None:
                    self.assign(item.optional_vars, v, caller_fr, wst, quiet=True)
                self.frames.append(caller_fr)
                try:
                    return self._with_items(wst, caller_fr, wst.items.index(item) + 1)
                finally:
                    self.frames.pop()
            self.emit('yield', st, fr, value=v)
            return TRUE
        self.ev(st.value, fr)
        return TRUE

    def st_Pass(self, st, fr):
        return TRUE

    def st_Import(self, st, fr):
        return TRUE

    st_ImportFrom = st_Import
    st_Global = st_Import
    st_Nonlocal = st_Import

    def st_Assign(self, st, fr):
        v = self.ev(st.value, fr)
        for tgt in st.targets:
            self.assign(tgt, v, fr, st)
        return TRUE

    def st_AnnAssign(self, st, fr):
        if st.value is not None:
            self.assign(st.target, self.ev(st.value, fr), fr, st)
        return TRUE

    def st_AugAssign(self, st, fr):
        cur = self.ev(st.target, fr)
        rhs = self.ev(st.value, fr)
        v = self.binop(st.op, cur, rhs)
        self.assign(st.target, v, fr, st, aug=type(st.op).__name__, rhs=rhs, old=cur)
        return TRUE

    def st_Delete(self, st, fr):
        for tgt in st.targets:
            if isinstance(tgt, ast.Subscript):
                base = self.ev(tgt.value, fr)
                idx = self.ev_index(tgt.slice, fr)
                self.emit('delete', st, fr, target='sub', base=base, key=idx, base_node=tgt.value)
            elif isinstance(tgt, ast.Attribute):
                base = self.ev(tgt.value, fr)
                self.heap.pop((base.key, tgt.attr), None)
                self.emit('delete', st, fr, target='attr', base=base, key=tgt.attr, base_node=tgt.value)
            elif isinstance(tgt, ast.Name):
                fr.env.pop(tgt.id, None)
        return TRUE

    def st_Return(self, st, fr):
        v = self.ev(st.value, fr) if st.value is not None else NONE
        rel = T.mk_and(self.pc[fr.base_len:])
        fr.returns.append((rel, v))
        if not isinstance(fr.fi.node, ast.Lambda):
            fr.ret_heaps.append((rel, dict(self.heap)))
            fr.ret_envs.append((rel, dict(fr.env)))
        self.emit('return', st, fr, value=v)
        return FALSE

    def st_Raise(self, st, fr):
        exc = self.ev(st.exc, fr) if st.exc is not None else NONE
        self.emit('raise', st, fr, exc=exc)
        return FALSE

    def st_Assert(self, st, fr):
        c = self.ev(st.test, fr)
        self.emit('assert', st, fr, cond=c)
        t = st.test
        if isinstance(t, ast.Compare) and len(t.ops) == 1 and isinstance(t.ops[0], ast.In) and \
                isinstance(t.comparators[0], (ast.List, ast.Tuple, ast.Set)) and t.comparators[0].elts and all(
                    isinstance(e, ast.Constant) and isinstance(e.value, int) and not isinstance(e.value, bool)
                    for e in t.comparators[0].elts):
            # `assert n in [1, 2]`: past this point n is one of these (used to enumerate `range(n)`)
            self.asserted_domains[self.ev(t.left, fr).key] = sorted({e.value for e in t.comparators[0].elts})
        return TRUE

    def _range_domain(self, it):
        """(n, [d1 < d2 < ...]) when `it` is range(n) and n is known to be one of a few small constants (asserted on the path,
        or an attribute whose constructor asserts it)"""
        at = it.single_atom()
        if at is None or at.kind != 'call' or at.args[0] != 'range' or at.args[2] or len(at.args[1]) != 1:
            return None
        n = at.args[1][0]
        dom = self.asserted_domains.get(n.key)
        na = n.single_atom()
        if dom is None and na is not None and na.kind == 'attr' and isinstance(na.args[1], str):
            ci = self.class_of(na.args[0])
            doms = getattr(self.prog, 'attr_domains', {})
            if ci is not None:
                for c in ci.mro():
                    dom = dom or doms.get((c.qual, na.args[1]))
            else:
                cands = [v for (cq, an), v in doms.items() if an == na.args[1]]
                if cands and all(v == cands[0] for v in cands):
                    dom = cands[0]
        if not dom or min(dom) < 0 or max(dom) > 4:
            return None
        return n, sorted(dom)

    def _for_over_domain(self, st, fr, n, dom):
        """for i in range(n), n in dom: iteration i runs iff n > i, i.e. iff n is one of the larger values"""
        live = TRUE
        for i in range(max(dom)):
            bigger = [d for d in dom if d > i]
            c = TRUE if len(bigger) == len(dom) else T.mk_or([T.mk_cmp('==', n, Term.num(d)) for d in bigger])
            if c.key == TRUE.key:
                self.assign(st.target, Term.num(i), fr, st, quiet=True)
                l = self.exec_block(st.body, fr)
                if l.key != TRUE.key:
                    live = T.mk_and([live, l])
                    self.pc.append(l)
                continue
            env0, heap0 = fr.env, self.heap
            fr.env, self.heap = dict(env0), dict(heap0)
            n0 = len(self.pc)
            self.pc.append(c)
            self.assign(st.target, Term.num(i), fr, st, quiet=True)
            l = self.exec_block(st.body, fr)
            del self.pc[n0:]
            then = (fr.env, self.heap, l)
            fr.env, self.heap = env0, heap0
            r = self._join(fr, c, then, (dict(env0), dict(heap0), TRUE))
            if r.key != TRUE.key:
                live = T.mk_and([live, r])
        return live

    def st_Break(self, st, fr):
        self.emit('break', st, fr)
        return FALSE

    def st_Continue(self, st, fr):
        self.emit('continue', st, fr)
        return FALSE

    def st_FunctionDef(self, st, fr):
        fi = self.prog.by_node.get(id(st))
        if fi is None:
            fi = FuncInfo(fr.fi.module, fr.fi.qual + '.<locals>.' + st.name, st, parent=fr.fi)
        fr.env[st.name] = self.make_closure(fi, fr)
        return TRUE

    def st_ClassDef(self, st, fr):
        return TRUE

    # ---- compound statements
    def st_If(self, st, fr):
        c = self.ev_cond(st.test, fr)
        if c.key == TRUE.key:
            return self.exec_block(st.body, fr)
        if c.key == FALSE.key:
            return self.exec_block(st.orelse, fr)
        env_t, heap_t, live_t = self._branch(fr, c, st.body)
        env_e, heap_e, live_e = self._branch(fr, T.mk_not(c), st.orelse)
        return self._join(fr, c, (env_t, heap_t, live_t), (env_e, heap_e, live_e))

    def _join(self, fr, c, then, other):
        (env_t, heap_t, live_t), (env_e, heap_e, live_e) = then, other
        if live_t.key == FALSE.key and live_e.key == FALSE.key:
            return FALSE
        if live_t.key == FALSE.key:
            fr.env, self.heap = env_e, heap_e
            return T.mk_and([T.mk_not(c), live_e])
        if live_e.key == FALSE.key:
            fr.env, self.heap = env_t, heap_t
            return T.mk_and([c, live_t])
        fr.env = self._merge(c, env_t, env_e)
        self.heap = self._merge(c, heap_t, heap_e)
        if live_t.key == TRUE.key and live_e.key == TRUE.key:
            return TRUE
        return T.mk_or([T.mk_and([c, live_t]), T.mk_and([T.mk_not(c), live_e])])

    def _assigned_names(self, stmts, rebinding=True):
        """names the statements may change; rebinding=False: only those changed IN PLACE (item stores, mutating methods,
        actuals a callee mutates)"""
        names = set()

        def root(n):
            while isinstance(n, (ast.Subscript, ast.Attribute)):
                n = n.value
            return n.id if isinstance(n, ast.Name) else None
        for st in stmts:
            for n in ast.walk(st):
                if isinstance(n, ast.Name) and isinstance(n.ctx, (ast.Store, ast.Del)):
                    if rebinding:
                        names.add(n.id)
                elif isinstance(n, ast.Subscript) and isinstance(n.ctx, (ast.Store, ast.Del)):
                    r = root(n)
                    if r and r != 'self':
                        names.add(r)
                elif isinstance(n, ast.Call) and isinstance(n.func, ast.Attribute) and \
                        n.func.attr in MUTATING_METHODS and isinstance(n.func.value, ast.Name):
                    names.add(n.func.value.id)
                if isinstance(n, ast.Call):
                    names |= self._mutated_actuals(n)
        return names

    def _mutated_actuals(self, call):
        """local names passed to a package function that modifies the corresponding parameter in place"""
        fr = self.frames[-1] if self.frames else None
        if fr is None:
            return set()
        from .argbind import resolve_callee
        try:
            rc = resolve_callee(self.prog, fr.fi, call)
        except Exception:
            rc = None
        if rc is None:
            return set()
        callee, skip = rc
        summ = self._summaries().get(callee.qual)
        if not summ:
            return set()
        formals = callee.params()[1:] if skip else callee.params()
        out = set()
        for (kind, path), _ in summ['mutates'].items():
            if kind != 'param':
                continue
            pname = path.split('.')[0]
            if pname not in formals or '.' in path:
                continue
            i = formals.index(pname)
            actual = call.args[i] if i < len(call.args) else next((k.value for k in call.keywords if k.arg == pname), None)
            if isinstance(actual, ast.Name):
                out.add(actual.id)
        return out

    def _invariant_guard(self, stores, lid, written):
        """stores: path conditions (relative to the loop body) of the re-bindings of one name.  Returns the
        loop-invariant part of "some iteration re-binds the name": OR over the stores of the AND of the conjuncts that
        mention nothing the loop changes.  None when not expressible; TRUE when a store is (invariantly) unconditional."""
        if not stores:
            return None
        wkeys = {k for k in written}
        alts = []
        for pc in stores:
            conj = []
            todo = list(pc)
            while todo:
                c = todo.pop()
                ca = c.single_atom()
                if ca is not None and ca.kind == 'and':
                    todo.extend(ca.args)
                    continue
                variant = False
                for a in T.all_atoms(c).values():
                    if a.kind in ('loopvar', 'idx', 'elem', 'key', 'after', 'partial', 'exc', 'undef'):
                        variant = True
                    elif a.kind == 'attr' and (a.args[0].key, a.args[1]) in wkeys:
                        variant = True
                    elif a.kind == 'call' and not (str(a.args[0]) in T.MODELLED or str(a.args[0]).startswith('.')):
                        variant = True            # an opaque call may depend on state the loop changes
                if not variant:
                    conj.append(c)
            alts.append(T.mk_and(conj) if conj else TRUE)
        return T.mk_or(alts) if len(alts) > 1 else alts[0]

    def _row_views(self, st):
        """loop target names that are views of the rows of a local array and are stored into in the body:
        {row name: array name}"""
        it, tgt = st.iter, st.target
        row = owner = None
        if isinstance(it, ast.Call) and isinstance(it.func, ast.Name) and it.func.id == 'enumerate' and len(it.args) == 1 \
                and not it.keywords and isinstance(it.args[0], ast.Name) and isinstance(tgt, ast.Tuple) and len(tgt.elts) == 2 \
                and isinstance(tgt.elts[1], ast.Name):
            row, owner = tgt.elts[1].id, it.args[0].id
        elif isinstance(it, ast.Name) and isinstance(tgt, ast.Name):
            row, owner = tgt.id, it.id
        if row is None or row == owner:
            return {}
        stores = rebinds = 0
        for b in st.body:
            for n in ast.walk(b):
                if isinstance(n, ast.Subscript) and isinstance(n.ctx, ast.Store) and isinstance(n.value, ast.Name) and n.value.id == row:
                    stores += 1
                if isinstance(n, ast.Name) and isinstance(n.ctx, ast.Store) and n.id in (row, owner):
                    rebinds += 1
        return {row: owner} if stores and not rebinds else {}

    def _summaries(self):
        s_ = getattr(self.prog, '_effect_summaries', None)
        if s_ is None:
            from .effects import summaries
            s_ = summaries(self.prog)
            self.prog._effect_summaries = s_
        return s_

    def _loop(self, st, fr, kind, it=None):
        self._loop_id += 1
        lid = f'L{getattr(st, "lineno", 0)}'
        assigned = self._assigned_names(st.body) | self.__dict__.setdefault('_extra_carried', {}).get(id(st), set())
        info = {'id': lid, 'kind': kind, 'node': st}
        views = self._row_views(st) if kind == 'for' else {}
        if views:
            # for i, row in enumerate(X): row[...] = v   writes through the row view into X
            info['views'] = views
            assigned = set(assigned) | set(views.values())
        # name-independent identity of a loop-carried local: its value at loop entry (+ ordinal on ties), so that
        # renaming the local does not change terms; the readable name is kept in LOOPVAR_LABELS for reports
        canon = {}
        order = []
        for b in st.body:
            for n_ in ast.walk(b):
                if isinstance(n_, ast.Name) and n_.id in assigned and isinstance(n_.ctx, ast.Store) and n_.id not in order:
                    order.append(n_.id)
        carried_order = [n_ for n_ in order + sorted(assigned - set(order)) if n_ in fr.env]
        for k_, n_ in enumerate(carried_order):
            canon[n_] = f'c{k_}'
            T.LOOPVAR_LABELS[(canon[n_], lid)] = n_
        info['canon'] = canon
        rebound = set()
        for b in st.body:
            for n_ in ast.walk(b):
                if isinstance(n_, ast.Name) and isinstance(n_.ctx, ast.Store):
                    rebound.add(n_.id)
                if isinstance(n_, ast.AugAssign) and isinstance(n_.target, ast.Name):
                    rebound.add(n_.target.id)
        for n_ in assigned:
            if n_ in fr.env:
                self.loop_init[(canon.get(n_, n_), lid)] = fr.env[n_]
            if n_ in fr.env and n_ not in rebound:
                # only element stores inside the loop: the array keeps the shape it had on entry
                self.loop_shape[(canon.get(n_, n_), lid)] = fr.env[n_]
        if kind == 'for':
            it = it if it is not None else self.ev(st.iter, fr)       # (evaluated once: its calls are events)
            fused = None
            ca_ = it.single_atom()
            enum_ = False
            if ca_ is not None and ca_.kind == 'call' and ca_.args[0] == 'enumerate' and len(ca_.args[1]) == 1 and not ca_.args[2]:
                inner_ = ca_.args[1][0].single_atom()
                if inner_ is not None and inner_.kind == 'comp':
                    ca_, enum_ = inner_, True          # for i, x in enumerate([E(y) for y in IT])
            if ca_ is not None and ca_.kind == 'comp' and ca_.args[0] in ('list', 'gen') and len(ca_.args[2]) == 1:
                ga_ = ca_.args[2][0].single_atom()
                if ga_ is not None and ga_.kind == 'tuple' and len(ga_.args) == 1:
                    # for x in [E(y) for y in IT]: BODY   ==   for y in IT: x = E(y); BODY
                    inner_ids = {a_.args[-1] for a_ in T.all_atoms(ca_.args[1]).values()
                                 if a_.kind in ('elem', 'key', 'idx') and a_.args and isinstance(a_.args[-1], str)
                                 and a_.args[-1].startswith('C')}
                    if len(inner_ids) <= 1:
                        cid_ = next(iter(inner_ids), None)

                        def ren(a_, cid_=cid_):
                            if cid_ is not None and a_.kind in ('elem', 'key', 'idx') and a_.args and a_.args[-1] == cid_:
                                return Term.of(Atom(a_.kind, *(a_.args[:-1] + (lid,))))
                            return None
                        fused = T.subst(ca_.args[1], ren)
                        it = ga_.args[0]
            info['iter'] = it
            info['trip'] = self._trip(it)
            tgt_val = self._loop_target(it, lid)
            if fused is not None:
                tgt_val = ((T.mk_tuple([tgt_val[1], fused]) if enum_ else fused), tgt_val[1])
            info['index'] = tgt_val[1]
        # pass 1: discover heap keys written in the body (events not recorded)
        env0, heap0 = dict(fr.env), dict(self.heap)
        rec, self.record = self.record, False
        nev = len(self.events)
        # names that the body only re-binds (never mutates in place): candidates for a guarded havoc
        elig = (rebound - self._assigned_names(st.body, rebinding=False)) & set(env0) if id(st) not in self._plain_loops else set()
        track1 = {}
        self._assign_trackers.append((fr, len(self.pc), track1))
        try:
            e1 = dict(env0)
            for n in assigned:
                if n in e1:
                    e1[n] = Term.of(Atom('loopvar', canon.get(n, n), lid))
            fr.env = e1
            if kind == 'for':
                self.assign(st.target, tgt_val[0], fr, st, quiet=True)
            self.exec_block(st.body, fr)
            written = [k for k, v in self.heap.items() if k not in heap0 or heap0[k].key != v.key]
            # a local the body changed although no statement of the body assigns it (a callee reached through a table or a
            # closure stored into the caller's array): it is loop-carried all the same
            moved = {n_ for n_ in env0 if n_ not in assigned and n_ in fr.env and fr.env[n_].key != env0[n_].key}
            env_after1 = dict(fr.env)
        finally:
            self._assign_trackers.pop()
            self.record = rec
            del self.events[nev:]
        if moved and not (moved <= self._extra_carried.get(id(st), set())):
            self._extra_carried[id(st)] = self._extra_carried.get(id(st), set()) | moved
            fr.env, self.heap = dict(env0), dict(heap0)
            self._loop_id -= 1
            return self._loop(st, fr, kind, it=it)
        inv1 = {n: self._invariant_guard(track1.get(n), lid, written) for n in elig}
        inv1 = {n: g for n, g in inv1.items() if g is not None and g.key != TRUE.key}
        # induction variables: a carried local advanced once per iteration, unconditionally, by a loop-invariant amount c
        # (x = x + c / x += c at the top level of the body) has the value x0 + i*c at the top of iteration i
        induction = {}
        if kind == 'for' and 'index' in info and id(st) not in self._plain_loops and \
                not any(isinstance(n_, (ast.Break, ast.Continue, ast.Return)) for b in st.body for n_ in _walk_same_loop(b)):
            wk = {k_ for k_ in written}
            for n in assigned:
                if n not in env0 or n in inv1 or n in last_only_names(st, n) or n not in env_after1:
                    continue
                tops = [b for b in st.body if any(isinstance(x_, ast.Name) and x_.id == n and isinstance(x_.ctx, ast.Store)
                                                   for x_ in ast.walk(b))]
                if len(tops) != 1 or not isinstance(tops[0], (ast.Assign, ast.AugAssign)):
                    continue
                t0 = tops[0]
                tgt_ok = (isinstance(t0, ast.AugAssign) and isinstance(t0.target, ast.Name) and isinstance(t0.op, (ast.Add, ast.Sub))) or \
                         (isinstance(t0, ast.Assign) and len(t0.targets) == 1 and isinstance(t0.targets[0], ast.Name))
                if not tgt_ok:
                    continue
                lv = Term.of(Atom('loopvar', canon.get(n, n), lid))
                c_ = env_after1[n] - lv
                bad_ = False
                for a_ in T.all_atoms(c_).values():
                    if a_.kind in ('loopvar', 'idx', 'elem', 'key', 'after') and lid in a_.args:
                        bad_ = True
                    if a_.kind == 'attr' and (a_.args[0].key, a_.args[1]) in wk:
                        bad_ = True
                if bad_ or c_.is_zero() or not T._numeric_like(c_):
                    continue
                induction[n] = c_
        info['induction'] = induction
        # a name re-bound only in the LAST iteration (every re-binding is under `index == trip - 1`) has its entry value
        # at the top of every iteration
        last_only = set()
        if kind == 'for' and 'trip' in info and not any(isinstance(n_, ast.Break) for b in st.body for n_ in _walk_same_loop(b)):
            last_c = T.mk_cmp('==', info['index'], info['trip'] - 1)
            for n in elig:
                sts = track1.get(n)
                if sts and all(any(last_c.key in (c.key, ) or any(x.key == last_c.key for x in (
                        c.single_atom().args if c.single_atom() is not None and c.single_atom().kind == 'and' else ()))
                        for c in pc) for pc in sts):
                    last_only.add(n)
        info['last_only'] = last_only
        # pass 2: the recorded pass, with loop-carried state havoc'ed
        fr.env, self.heap = dict(env0), dict(heap0)
        carried = [n for n in assigned if n in env0]
        for n in carried:
            fr.env[n] = Term.of(Atom('loopvar', canon.get(n, n), lid))
            if n in inv1:
                # every re-binding of n is under a condition that does not change during the loop: where that condition
                # is false the name keeps the value it had on entry
                fr.env[n] = T.mk_ite(inv1[n], fr.env[n], env0[n])
            if n in last_only:
                fr.env[n] = env0[n]
            if n in induction and n not in last_only:
                fr.env[n] = env0[n] + info['index'] * induction[n]
        for k in written:
            self.heap[k] = Term.of(Atom('loopvar', k[0] + '.' + k[1], lid))
        if kind == 'for':
            self.assign(st.target, tgt_val[0], fr, st, quiet=True)
        if kind == 'while':
            info['cond'] = self.ev_cond(st.test, fr)
        info['carried'] = carried
        info['env_entry'] = dict(fr.env)
        self.emit('loop', st, fr, info=info)
        old_loops = self.loops
        self.loops = old_loops + (info,)
        n0 = len(self.pc)
        track2 = {}
        self._assign_trackers.append((fr, n0, track2))
        try:
            self.exec_block(st.body, fr)
        finally:
            self._assign_trackers.pop()
            self.loops = old_loops
            del self.pc[n0:]
        if inv1 or last_only:
            # the guards were computed on the discovery pass (heap not yet havoc'ed): they must be the same on the real one
            bad = False
            if last_only:
                last_c = T.mk_cmp('==', info['index'], info['trip'] - 1)
                for n in last_only:
                    sts = track2.get(n)
                    if not (sts and all(any(c.key == last_c.key or any(x.key == last_c.key for x in (
                            c.single_atom().args if c.single_atom() is not None and c.single_atom().kind == 'and' else ()))
                            for c in pc) for pc in sts)):
                        bad = True
            for n, g in inv1.items():
                g2 = self._invariant_guard(track2.get(n), lid, written)
                if bad or g2 is None or g2.key != g.key:
                    self._plain_loops.add(id(st))
                    del self.events[nev:]
                    fr.env, self.heap = dict(env0), dict(heap0)
                    self._loop_id -= 1
                    return self._loop(st, fr, kind, it=it)
        for n, c_ in induction.items():
            got = fr.env.get(n)
            if got is None or not (got - (env0[n] + (info['index'] + 1) * c_)).is_zero():
                # the recorded pass does not advance it by c after all: analyse the loop without induction variables
                self._plain_loops.add(id(st))
                del self.events[nev:]
                fr.env, self.heap = dict(env0), dict(heap0)
                self._loop_id -= 1
                return self._loop(st, fr, kind, it=it)
        info['env_exit'] = dict(fr.env)
        info['heap_exit'] = dict(self.heap)
        # after the loop
        body_env, body_heap = fr.env, self.heap
        fr.env, self.heap = dict(env0), dict(heap0)
        for n in assigned:
            acc = self._accumulator(st, n, info, env0.get(n), fr) if kind == 'for' else None
            if n in induction and 'trip' in info:
                acc = env0[n] + induction[n] * info['trip']
            fr.env[n] = acc if acc is not None else Term.of(Atom('after', canon.get(n, n), lid))
            if n in inv1 and n in env0:
                fr.env[n] = T.mk_ite(inv1[n], fr.env[n], env0[n])
        for k in written:
            self.heap[k] = Term.of(Atom('after', k[0] + '.' + k[1], lid))
        if st.orelse:
            self.exec_block(st.orelse, fr)
        return TRUE

    def st_For(self, st, fr):
        if isinstance(st.iter, ast.Call) and ast.unparse(st.iter.func) in ('itertools.product', 'product') and not st.iter.keywords \
                and isinstance(st.target, (ast.Tuple, ast.List)) and len(st.target.elts) == len(st.iter.args) >= 2 and not st.orelse \
                and not any(isinstance(a_, ast.Starred) for a_ in st.iter.args) \
                and not any(isinstance(n_, ast.Break) for b_ in st.body for n_ in _walk_same_loop(b_)):
            # for a, b in itertools.product(A, B): BODY   ==   for a in A: for b in B: BODY
            inner = st.body
            for tg_, it_ in reversed(list(zip(st.target.elts, st.iter.args))):
                loop_ = ast.For(target=tg_, iter=it_, body=inner, orelse=[], type_comment=None)
                ast.copy_location(loop_, st)
                inner = [loop_]
            ast.fix_missing_locations(inner[0])
            return self.st_For(inner[0], fr)
        st = _without_continue(st)
        it = it0 = self.ev(st.iter, fr)
        from .sva_expr import small_range_items
        rng_items = small_range_items(it)
        if rng_items is not None:
            it = T.mk_tuple(rng_items)
        rd = self._range_domain(it) if rng_items is None else None
        if rd is not None and not st.orelse and not any(
                isinstance(n_, (ast.Break, ast.Continue)) for b_ in st.body for n_ in ast.walk(b_)):
            return self._for_over_domain(st, fr, rd[0], rd[1])
        ia = it.single_atom()
        if ia is not None and ia.kind == 'ite' and not st.orelse:
            # for x in (A if c else B)  ==  if c: for x in A   else: for x in B
            c, a, b = ia.args
            if all(x.single_atom() is not None and x.single_atom().kind in ('list', 'tuple') for x in (a, b)):
                return self._for_split(st, fr, c, a, b)
        # (a literal table of rows -- tuples / lists -- is unrolled up to 24 rows, like a literal dictionary)
        is_table = ia is not None and ia.kind in ('list', 'tuple') and len(ia.args) <= 24 and ia.args and all(
            x.single_atom() is not None and x.single_atom().kind in ('tuple', 'list') for x in ia.args)
        if ia is not None and ia.kind in ('list', 'tuple') and (len(ia.args) <= 4 or is_table) and not st.orelse and \
                not any(isinstance(n, (ast.Break, ast.Continue)) for b_ in st.body for n in ast.walk(b_)):
            return self._for_unrolled(st, fr, list(ia.args))
        # for x in (a, b, ...): if test(x): S; break  [else: E]   ==   if test(a): S(a) elif test(b): S(b) ... else: E
        if ia is not None and ia.kind in ('list', 'tuple') and len(ia.args) <= 12 and len(st.body) == 1 and \
                isinstance(st.body[0], ast.If) and not st.body[0].orelse and isinstance(st.body[0].body[-1], ast.Break):
            inner = st.body[0].body[:-1]
            if not any(isinstance(n, (ast.Break, ast.Continue)) for b_ in inner for n in _walk_same_loop(b_)):
                return self._for_first_match(st, fr, list(ia.args), st.body[0].test, inner, 0)
        # for k, v in {literal dictionary}.items() / for k in {literal}: one iteration per known entry
        if ia is not None and ia.kind == 'call' and ia.args[0] in ('items', 'keys', 'values') and ia.args[1] and not st.orelse and \
                not any(isinstance(n, (ast.Break, ast.Continue)) for b_ in st.body for n in ast.walk(b_)):
            da = ia.args[1][0].single_atom()
            if da is not None and da.kind == 'dict' and len(da.args) <= 24 and all(
                    k_.single_atom() is not None and k_.single_atom().kind in ('str', 'num') or k_.const() is not None for k_, _ in da.args):
                if ia.args[0] == 'items':
                    items = [T.mk_tuple([k_, v_]) for k_, v_ in da.args]
                elif ia.args[0] == 'keys':
                    items = [k_ for k_, _ in da.args]
                else:
                    items = [v_ for _, v_ in da.args]
                return self._for_unrolled(st, fr, items)
        return self._loop(st, fr, 'for', it=(it0 if rng_items is None else None))

    def _for_first_match(self, st, fr, items, test, inner, i):
        if i == len(items):
            return self.exec_block(st.orelse, fr) if st.orelse else TRUE
        self.assign(st.target, items[i], fr, st, quiet=True)
        c = self.ev_cond(test, fr)
        if c.key == TRUE.key:
            return self.exec_block(inner, fr)
        if c.key == FALSE.key:
            return self._for_first_match(st, fr, items, test, inner, i + 1)
        then = self._branch(fr, c, inner)
        env0, heap0 = fr.env, self.heap
        fr.env, self.heap = dict(env0), dict(heap0)
        n0 = len(self.pc)
        self.pc.append(T.mk_not(c))
        live_e = self._for_first_match(st, fr, items, test, inner, i + 1)
        del self.pc[n0:]
        other = (fr.env, self.heap, live_e)
        fr.env, self.heap = env0, heap0
        return self._join(fr, c, then, other)

    def _for_unrolled(self, st, fr, items):
        live = TRUE
        n0 = len(self.pc)
        for v in items:
            self.assign(st.target, v, fr, st, quiet=True)
            l = self.exec_block(st.body, fr)
            if l.key != TRUE.key:
                live = T.mk_and([live, l])
                self.pc.append(l)
            if live.key == FALSE.key:
                break
        del self.pc[n0:]
        return live

    def _for_split(self, st, fr, c, a, b):
        env0, heap0 = fr.env, self.heap
        outs = []
        for cond, items in ((c, a), (T.mk_not(c), b)):
            fr.env, self.heap = dict(env0), dict(heap0)
            n0 = len(self.pc)
            self.pc.append(cond)
            live = self._for_unrolled(st, fr, list(items.single_atom().args)) if len(items.single_atom().args) <= 4 else TRUE
            del self.pc[n0:]
            outs.append((fr.env, self.heap, live))
        (env_t, heap_t, live_t), (env_e, heap_e, live_e) = outs
        fr.env = self._merge(c, env_t, env_e)
        self.heap = self._merge(c, heap_t, heap_e)
        if live_t.key == TRUE.key and live_e.key == TRUE.key:
            return TRUE
        return T.mk_or([T.mk_and([c, live_t]), T.mk_and([T.mk_not(c), live_e])])

    def st_While(self, st, fr):
        st = _without_continue(st)
        rot = _rotate_loop_and_a_half(st)
        if rot is not None:
            pre, loop, post = rot
            live = self.exec_block(pre, fr)
            if live.key == FALSE.key:
                return live
            l2 = self._loop(loop, fr, 'while')
            if post:
                return self.exec_block(post, fr)
            return l2
        return self._loop(st, fr, 'while')

    def _trip(self, it):
        at = it.single_atom()
        if at is not None and at.kind == 'call':
            fn, args, kw = at.args
            if fn == 'range':
                if len(args) == 1:
                    return args[0]
                if len(args) == 2:
                    return args[1] - args[0]
                if len(args) == 3:
                    return T.mk_call('ceil', [(args[1] - args[0]) / args[2]])
            if fn in ('enumerate', 'items', 'keys', 'values', 'readlines') and args:
                return self._trip(args[0]) if fn == 'enumerate' else T.mk_call('len', [args[0]])
            if fn == 'zip' and args and not kw:
                ts = [self._trip(a) for a in args]
                out = ts[0]
                for t_ in ts[1:]:
                    out = T.mk_call('min', [out, t_])
                return out
        if at is not None and at.kind == 'sub':
            # len(X[a:]) == len(X) - a   (the clamp at zero is not modelled, as for range(a, n))
            sl = at.args[1].single_atom()
            if sl is not None and sl.kind == 'slice' and T._isnone(sl.args[1]) and T._isnone(sl.args[2]):
                a0 = sl.args[0].const()
                if a0 is not None and a0 >= 0:
                    return self._trip(at.args[0]) - sl.args[0]
        if at is not None and at.kind in ('tuple', 'list'):
            return Term.num(len(at.args))
        return T.mk_call('len', [it])

    def _loop_target(self, it, lid):
        idx = Term.of(Atom('idx', lid))
        at = it.single_atom()
        if at is not None and at.kind == 'call':
            fn, args, kw = at.args
            if fn == 'range':
                if len(args) == 1:
                    return idx, idx
                if len(args) == 2:
                    return args[0] + idx, idx
                if len(args) == 3:
                    return args[0] + idx * args[2], idx
            if fn == 'enumerate' and args:
                return T.mk_tuple([idx, T.mk_sub(args[0], idx)]), idx
            if fn == 'items' and args:
                k = Term.of(Atom('key', args[0], lid))
                return T.mk_tuple([k, T.mk_sub(args[0], k)]), idx
            if fn == 'zip':
                return T.mk_tuple([T.mk_sub(a, idx) for a in args]), idx
        if at is not None and at.kind == 'sub':
            sl = at.args[1].single_atom()
            if sl is not None and sl.kind == 'slice' and T._isnone(sl.args[2]) and not T._isnone(sl.args[0]) and \
                    T.is_nonneg(sl.args[0]):
                # for x in X[a:]  /  X[a:b]: item i is X[a + i]
                return T.mk_sub(at.args[0], sl.args[0] + idx), idx
        return Term.of(Atom('elem', it, lid)), idx

    def _list_builder(self, loop, name, info, init, fr):
        """acc = []; for x in it: acc.append(f(x))   ==   acc = [f(x) for x in it]
        (one unconditional append at the top level of the body, the list not otherwise mentioned in the loop)"""
        ia = init.single_atom() if init is not None else None
        if ia is None or ia.kind != 'list' or ia.args or loop.orelse:
            return None
        # every mention of the list in the body is the receiver of an `append(v)` statement (possibly one per branch); that
        # every iteration appends exactly once is read off the value after the body: mut.append(<list on entry>, v)
        uses = [n for b in loop.body for n in ast.walk(b) if isinstance(n, ast.Name) and n.id == name]
        apps = [st for b in loop.body for st in ast.walk(b) if isinstance(st, ast.Expr) and isinstance(st.value, ast.Call)
                and isinstance(st.value.func, ast.Attribute) and st.value.func.attr == 'append'
                and isinstance(st.value.func.value, ast.Name) and st.value.func.value.id == name
                and len(st.value.args) == 1 and not st.value.keywords]
        if not uses or len(uses) != len(apps):
            return None
        if any(isinstance(n, (ast.For, ast.While)) and any(a_ in ast.walk(n) for a_ in apps) for b in loop.body for n in ast.walk(b)):
            return None       # an append inside a nested loop: more than one element per iteration
        if any(isinstance(n, (ast.Break, ast.Continue, ast.Return)) for b in loop.body for n in ast.walk(b)):
            return None
        lid = info['id']
        lv = Term.of(Atom('loopvar', info.get('canon', {}).get(name, name), lid))
        after = info.get('env_exit', {}).get(name)
        aa = after.single_atom() if after is not None else None
        if aa is None or aa.kind != 'call' or aa.args[0] != 'mut.append' or len(aa.args[1]) != 2 or aa.args[1][0].key != lv.key:
            return None
        v = aa.args[1][1]
        for a in T.all_atoms(v).values():
            if a.kind in ('loopvar', 'after') and lid in a.args:
                return None
        cid = f'C{loop.lineno}:{loop.col_offset}:0'

        def fn(a):
            if a.kind in ('elem', 'key') and len(a.args) == 2 and a.args[1] == lid:
                return Term.of(Atom(a.kind, a.args[0], cid))
            if a.kind == 'idx' and a.args == (lid,):
                return Term.of(Atom('idx', cid))
            return None
        elt = T.subst(v, fn)
        it_ = info['iter']
        ia_ = it_.single_atom()
        if ia_ is not None and ia_.kind == 'call' and ia_.args[0] in ('zip', 'enumerate', 'range') and not any(
                a_.kind in ('elem', 'key') and a_.args and a_.args[-1] == cid for a_ in T.all_atoms(elt).values()):
            it_ = T.mk_call('range', [self._trip(it_)])        # position-only element: see sva_expr._comp
        return Term.of(Atom('comp', 'list', elt, (T.mk_tuple([it_]),), cid.rsplit(':', 1)[0]))

    def _accumulator(self, loop, name, info, init, fr):
        """`x += c` once, unconditionally, at the top level of a for body, c loop-invariant:
        after the loop x == init + trip*c."""
        if init is None:
            return None
        lb = self._list_builder(loop, name, info, init, fr)
        if lb is not None:
            return lb
        hits = []
        for st in loop.body:
            for n in ast.walk(st):
                if isinstance(n, ast.Name) and n.id == name and isinstance(n.ctx, ast.Store):
                    hits.append(st)
        if len(hits) != 1:
            return None
        st = hits[0]
        if not (isinstance(st, ast.AugAssign) and isinstance(st.op, (ast.Add, ast.Sub))
                and isinstance(st.target, ast.Name)):
            return None
        env = info.get('env_exit', {})
        lv = Term.of(Atom('loopvar', info.get('canon', {}).get(name, name), info['id']))
        after = env.get(name)
        if after is None:
            return None
        c = after - lv
        for a in T.all_atoms(c).values():
            if a.kind in ('loopvar', 'idx', 'elem', 'key') and info['id'] in a.args:
                return self._reduction(loop, st, name, init, fr)
        return init + c * info['trip']

    def _reduction(self, loop, st, name, init, fr):
        """for x in it: acc += e(x)   (the only statement of the body, e not reading acc)
        ==   acc = init + sum([e(x) for x in it]), evaluated in the environment before the loop."""
        if not (len(loop.body) == 1 and loop.body[0] is st and isinstance(st.op, ast.Add) and not loop.orelse):
            return None
        if any(isinstance(n, ast.Name) and n.id == name for n in ast.walk(st.value)):
            return None
        if any(isinstance(n, (ast.NamedExpr, ast.Yield, ast.YieldFrom, ast.Await)) for n in ast.walk(st.value)):
            return None
        comp = ast.ListComp(elt=st.value, generators=[ast.comprehension(target=loop.target, iter=loop.iter, ifs=[], is_async=0)])
        call = ast.Call(func=ast.Name(id='sum', ctx=ast.Load()), args=[comp], keywords=[])
        ast.copy_location(comp, st)
        ast.copy_location(call, st)
        ast.copy_location(call.func, st)
        nev = len(self.events)
        try:
            v = self.ev(call, fr)
        except AnalysisError:
            return None
        finally:
            del self.events[nev:]
        return init + v

    def st_With(self, st, fr):
        if len(st.items) == 1 and st.items[0].optional_vars is None and isinstance(st.items[0].context_expr, ast.Call):
            cf = st.items[0].context_expr
            if ast.unparse(cf.func) in ('contextlib.suppress', 'suppress') and cf.args and not cf.keywords:
                # with contextlib.suppress(E1, E2): BODY   ==   try: BODY   except (E1, E2): pass
                typ = cf.args[0] if len(cf.args) == 1 else ast.Tuple(elts=list(cf.args), ctx=ast.Load())
                tr = ast.Try(body=st.body, handlers=[ast.ExceptHandler(type=typ, name=None, body=[ast.Pass()])],
                             orelse=[], finalbody=[])
                ast.copy_location(tr, st)
                ast.fix_missing_locations(tr)
                return self.exec_stmt(tr, fr)
        if len(st.items) == 1 and isinstance(st.items[0].context_expr, ast.Call):
            cf = st.items[0].context_expr
            try:
                ci = self.prog._resolve_class_expr(fr.fi.module, cf.func)
            except Exception:
                ci = None
            if ci is not None and ci.find_method('__enter__') is not None and ci.find_method('__exit__') is not None:
                # with C(...) [as x]: BODY   for a package class C with __enter__ / __exit__:
                #   cm = C(...); [x =] cm.__enter__(); try: BODY finally: cm.__exit__(None, None, None)
                # (an __exit__ that swallows exceptions is not modelled: the exceptional path continues as from a finally)
                tmp = f'__cm_{getattr(st, "lineno", 0)}'
                mk = lambda n_: ast.Name(id=tmp, ctx=n_)
                enter = ast.Call(func=ast.Attribute(value=mk(ast.Load()), attr='__enter__', ctx=ast.Load()), args=[], keywords=[])
                leave = ast.Call(func=ast.Attribute(value=mk(ast.Load()), attr='__exit__', ctx=ast.Load()),
                                 args=[ast.Constant(None), ast.Constant(None), ast.Constant(None)], keywords=[])
                first = ast.Assign(targets=[mk(ast.Store())], value=cf, type_comment=None)
                second = (ast.Assign(targets=[st.items[0].optional_vars], value=enter, type_comment=None)
                          if st.items[0].optional_vars is not None else ast.Expr(value=enter))
                tr = ast.Try(body=st.body, handlers=[], orelse=[], finalbody=[ast.Expr(value=leave)])
                seq = [first, second, tr]
                for x_ in seq:
                    ast.copy_location(x_, st)
                    ast.fix_missing_locations(x_)
                return self.exec_block(seq, fr)
        return self._with_items(st, fr, 0)

    def _with_items(self, st, fr, k):
        for j in range(k, len(st.items)):
            item = st.items[j]
            cm = self._context_manager_function(item.context_expr, fr)
            if cm is not None:
                # with f(...) as x: BODY   where f is a @contextmanager generator with one `yield v`:
                #   f's statements before the yield; x = v; BODY; f's statements after the yield (its try/finally included)
                old = self._with_hooks.get(id(cm.node))
                self._with_hooks[id(cm.node)] = (fr, st, item)
                nret = len(fr.returns)
                self._with_fired.discard(id(item))
                try:
                    v = self.ev(item.context_expr, fr)
                finally:
                    if old is None:
                        self._with_hooks.pop(id(cm.node), None)
                    else:
                        self._with_hooks[id(cm.node)] = old
                if id(item) not in self._with_fired:
                    # the manager was not analysed (kept opaque): the body runs with an opaque context value
                    if item.optional_vars is not None:
                        self.assign(item.optional_vars, v, fr, st, quiet=True)
                    continue
                # control continues after the `with` unless the body left the function on every path
                if len(fr.returns) > nret and all(c.key == TRUE.key for c, _ in fr.returns[nret:]):
                    return FALSE
                return TRUE
            v = self.ev(item.context_expr, fr)
            if item.optional_vars is not None:
                self.assign(item.optional_vars, v, fr, st, quiet=True)
        return self.exec_block(st.body, fr)

    def _context_manager_function(self, expr, fr):
        if not isinstance(expr, ast.Call):
            return None
        from .argbind import resolve_callee
        try:
            rc = resolve_callee(self.prog, fr.fi, expr)
        except Exception:
            rc = None
        if rc is None:
            return None
        fi = rc[0]
        if not isinstance(fi.node, ast.FunctionDef) or any(f.fi is fi for f in self.frames):
            return None
        deco = [ast.unparse(d) for d in fi.node.decorator_list]
        if not any(d.split('.')[-1] == 'contextmanager' for d in deco):
            return None
        ys = [n for n in ast.walk(fi.node) if isinstance(n, (ast.Yield, ast.YieldFrom))]
        if len(ys) != 1 or not isinstance(ys[0], ast.Yield):
            return None
        # the single yield is an expression statement (not `x = yield`), outside any loop
        for n in ast.walk(fi.node):
            if isinstance(n, (ast.For, ast.While)) and any(y is ys[0] for y in ast.walk(n)):
                return None
        if not any(isinstance(n, ast.Expr) and n.value is ys[0] for n in ast.walk(fi.node)):
            return None
        return fi

    def _try_as_lookup(self, st, fr):
        """try: x = D[k]  except KeyError: H   with D a literal dictionary of text keys  ==  if k is none of the keys: H
        else: x = D[k].   Returns (missing condition) or None."""
        if len(st.body) != 1 or st.orelse or st.finalbody or len(st.handlers) != 1:
            return None
        b, h = st.body[0], st.handlers[0]
        if not (isinstance(b, ast.Assign) and isinstance(b.value, ast.Subscript) and len(b.targets) == 1):
            return None
        types = ast.unparse(h.type) if h.type is not None else ''
        if 'KeyError' not in types or h.name:
            return None
        rec, self.record = self.record, False
        try:
            d = self.ev(b.value.value, fr)
            k = self.ev(b.value.slice, fr)
        finally:
            self.record = rec
        da = d.single_atom()
        if da is None or da.kind != 'dict' or not da.args or not all(
                kk.single_atom() is not None and kk.single_atom().kind == 'str' for kk, _ in da.args):
            return None
        return T.mk_and([T.mk_not(T.mk_cmp('==', k, kk)) for kk, _ in da.args])

    def st_Try(self, st, fr):
        missing = self._try_as_lookup(st, fr)
        if missing is not None:
            if missing.key == FALSE.key:
                return self.exec_block(st.body, fr)
            if missing.key == TRUE.key:
                return self.exec_block(st.handlers[0].body, fr)
            then = self._branch(fr, missing, st.handlers[0].body)
            other = self._branch(fr, T.mk_not(missing), st.body)
            return self._join(fr, missing, then, other)
        tid = f'T{st.lineno}'
        env0, heap0 = dict(fr.env), dict(self.heap)
        old = self.tryctx
        self.tryctx = old + ((tid, 'body', st),)
        live_b = self.exec_block(st.body, fr)
        if st.orelse and live_b.key != FALSE.key:
            self.tryctx = old + ((tid, 'else', st),)
            live_b = T.mk_and([live_b, self.exec_block(st.orelse, fr)])
        env_b, heap_b = fr.env, self.heap
        lives = [live_b]
        merged_env, merged_heap = env_b, heap_b
        for i, h in enumerate(st.handlers):
            self.tryctx = old + ((tid, 'handler', st),)
            fr.env, self.heap = dict(env0), dict(heap0)
            # state at handler entry: anything the body may have changed is unknown
            for k, v in env_b.items():
                if k not in env0 or env0[k].key != v.key:
                    fr.env[k] = T.mk_ite(Term.of(Atom('partial', tid)), v, env0.get(k, Term.of(Atom('undef', k))))
            for k, v in heap_b.items():
                if k not in heap0 or heap0[k].key != v.key:
                    self.heap[k] = T.mk_ite(Term.of(Atom('partial', tid)), v,
                                            heap0.get(k, Term.of(Atom('undef', k[0] + '.' + k[1]))))
            if h.name:
                fr.env[h.name] = Term.of(Atom('exc', tid, i))
            exc_c = Term.of(Atom('exc', tid, i, ast.unparse(h.type) if h.type is not None else '*'))
            n0 = len(self.pc)
            self.pc.append(exc_c)
            live_h = self.exec_block(h.body, fr)
            del self.pc[n0:]
            if live_h.key != FALSE.key:
                if live_b.key == FALSE.key and merged_env is env_b:
                    merged_env, merged_heap = fr.env, self.heap
                else:
                    merged_env = self._merge(exc_c, fr.env, merged_env)
                    merged_heap = self._merge(exc_c, self.heap, merged_heap)
            lives.append(live_h)
        fr.env, self.heap = merged_env, merged_heap
        live = TRUE if any(l.key == TRUE.key for l in lives) else (
            FALSE if all(l.key == FALSE.key for l in lives) else T.mk_or(lives))
        if st.finalbody:
            self.tryctx = old + ((tid, 'finally', st),)
            n0 = len(self.pc)
            lf = self.exec_block(st.finalbody, fr)
            del self.pc[n0:]
            live = T.mk_and([live, lf])
        self.tryctx = old
        return live

    # ------------------------------------------------------------------ assignment
    def assign(self, tgt, v, fr, st, aug=None, rhs=None, old=None, quiet=False):
        if isinstance(tgt, ast.Name):
            fr.env[tgt.id] = v
            for (tfr, tn0, tdict) in self._assign_trackers:
                if tfr is fr:
                    tdict.setdefault(tgt.id, []).append(tuple(self.pc[tn0:]))
            if not quiet:
                self.emit('store', st, fr, target='name', name=tgt.id, value=v, aug=aug, rhs=rhs, old=old)
        elif isinstance(tgt, (ast.Tuple, ast.List)):
            at = v.single_atom()
            if at is not None and at.kind == 'call' and self.frames and not at.args[2]:
                # unpacking the tuple an opaque package function returns: items that the function's own return statements
                # show to be numbers / arrays are known not to be None
                try:
                    from .sva_call import _arity_of_package_call
                    inl = _arity_of_package_call(self, v, ast.parse('f()', mode='eval').body, self.frames[-1], want='value')
                except Exception:
                    inl = None
                def item_ok(t_, i_):
                    ta_ = t_.single_atom()
                    if ta_ is not None and ta_.kind == 'ite':
                        return item_ok(ta_.args[1], i_) and item_ok(ta_.args[2], i_)
                    if ta_ is not None and ta_.kind in ('tuple', 'list'):
                        return i_ >= len(ta_.args) or T._known_not_none(ta_.args[i_])      # (a shorter tuple has no such item)
                    return False
                if inl is not None:
                    for i in range(len(tgt.elts)):
                        if item_ok(inl, i):
                            T.NOTNONE_KEYS.add(T.mk_sub(v, Term.num(i)).key)
                            T.NOTNONE_ITEMS.add((str(at.args[0]), i))
            for i, el in enumerate(tgt.elts):
                if isinstance(el, ast.Starred):
                    self.assign(el.value, Term.of(Atom('starred', v, i)), fr, st, quiet=quiet)
                else:
                    self.assign(el, self.subscript(v, Term.num(i)), fr, st, quiet=quiet)
        elif isinstance(tgt, ast.Attribute):
            base = self.ev(tgt.value, fr)
            em = getattr(self, 'expansion_mode', None)
            if em is not None and base.key == em[0].key and (em[1](v) or tgt.attr in em[2]):
                if em[1](v):
                    em[3].add(tgt.attr)
                    if em[4]:
                        em[2].add(tgt.attr)
                self.heap_base[base.key] = base
                self.heap[(base.key, tgt.attr)] = T.mk_attr(base, tgt.attr)
            else:
                self.heap_base[base.key] = base
                self.heap[(base.key, tgt.attr)] = v
            if not quiet:
                self.emit('store', st, fr, target='attr', base=base, name=tgt.attr, value=v, aug=aug,
                          rhs=rhs, old=old, base_node=tgt.value)
        elif isinstance(tgt, ast.Subscript):
            view = None
            if isinstance(tgt.value, ast.Name):
                for info in reversed(self.loops):
                    if tgt.value.id in info.get('views', {}) and 'index' in info:
                        view = (info['views'][tgt.value.id], info['index'])
                        break
            if view is not None and view[0] in fr.env:
                # a store into a row view is a store into the array the row belongs to
                owner = ast.copy_location(ast.Name(id=view[0], ctx=ast.Load()), tgt.value)
                inner = self.ev_index(tgt.slice, fr)
                ia_ = inner.single_atom()
                parts = list(ia_.args) if ia_ is not None and ia_.kind == 'tuple' else [inner]
                base = fr.env[view[0]]
                idx = T._norm_index(T.mk_tuple([view[1]] + parts))
                if aug is not None and old is not None:
                    old = T.mk_sub(base, idx)
                if not quiet:
                    self.emit('store', st, fr, target='sub', base=base, key=idx, value=v, aug=aug, rhs=rhs,
                              old=old, base_node=owner)
                fr.env[view[0]] = T.mk_store(base, idx, v)
                return
            base = self.ev(tgt.value, fr)
            idx = T._norm_index(self.ev_index(tgt.slice, fr))
            if not quiet:
                self.emit('store', st, fr, target='sub', base=base, key=idx, value=v, aug=aug, rhs=rhs,
                          old=old, base_node=tgt.value)
            newbase = T.mk_store(base, idx, v)
            self._rebind(tgt.value, newbase, fr)
        elif isinstance(tgt, ast.Starred):
            self.assign(tgt.value, v, fr, st, quiet=quiet)

    def _rebind(self, node, val, fr):
        """After `x[i] = v` the container expression denotes store(x, i, v)."""
        if isinstance(node, ast.Name):
            fr.env[node.id] = val
        elif isinstance(node, ast.Attribute):
            base = self.ev(node.value, fr)
            self.heap_base[base.key] = base
            self.heap[(base.key, node.attr)] = val

    # ------------------------------------------------------------------ closures
    def _closure_name(self, fi):
        """position-independent name: reference transcriptions ('#spec') and moved lambdas compare equal"""
        import re
        name = fi.short.replace('#spec', '')
        if isinstance(fi.node, ast.Lambda) and fi.parent is not None:
            lams = [n for n in ast.walk(fi.parent.node) if isinstance(n, ast.Lambda)]
            lams.sort(key=lambda n: (n.lineno, n.col_offset))
            k = next((i for i, n in enumerate(lams) if n is fi.node), None)
            if k is not None:       # (a lambda of a module-level table is not inside its pseudo parent: it keeps its position)
                name = re.sub(r'<lambda@[\d:]+>', f'<lambda#{k}>', name)
        return name

    def make_closure(self, fi, fr):
        free = set()
        bound = set(fi.all_params())
        a = fi.node.args
        if a.vararg:
            bound.add(a.vararg.arg)
        if a.kwarg:
            bound.add(a.kwarg.arg)
        body = fi.node.body if isinstance(fi.node.body, list) else [fi.node.body]
        for b in body:
            for n in ast.walk(b):
                if isinstance(n, ast.Name):
                    if isinstance(n.ctx, ast.Store):
                        bound.add(n.id)
                    else:
                        free.add(n.id)
        cap = []
        for n in sorted(free - bound):
            if n in fr.env:
                cap.append((n, fr.env[n]))
        at = Atom('closure', self._closure_name(fi), tuple(cap))
        self.closures[at.key] = Closure(fi, fr.env, fr.self_term, fr.self_cls)
        self.closures[at.key].def_depth = fr.depth
        return Term.of(at)
