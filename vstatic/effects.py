"""E8 effects: in-place mutation of parameters (directly, through aliases, through callees),
alias/freshness of local names, returns-alias summaries.  Pure AST dataflow over the
resolved call graph (argbind.resolve_callee), fixpoint over summaries."""
import ast

from .argbind import resolve_callee
from .sva import MUTATING_METHODS

FRESH_CALLS = {'dict', 'list', 'set', 'tuple', 'copy', 'deepcopy', 'array', 'zeros', 'empty', 'ones', 'full',
               'sorted', 'str', 'int', 'float', 'len', 'range', 'enumerate', 'zip', 'linspace', 'arange',
               'concatenate', 'meshgrid', 'reshape', 'astype', 'frombuffer', 'real', 'imag', 'around', 'round',
               'clip', 'mean', 'std', 'sum', 'abs', 'sqrt', 'load', 'diff', 'repeat', 'where', 'maximum', 'minimum'}


class Origin:
    """what a local name may refer to: a set of roots ('param:p', 'self.attr.path', 'fresh')"""


def expr_roots(node, env, prog, fi, summaries):
    """Set of roots the value of `node` may alias.  Roots: ('param', name) | ('self', 'a.b') |
    ('ext', text).  Empty set == fresh value."""
    if isinstance(node, ast.Name):
        if node.id in env:
            return set(env[node.id])
        return set()
    if isinstance(node, ast.Attribute):
        base = node.value
        if isinstance(base, ast.Name) and base.id == 'self' and not env.get('self'):
            return {('self', node.attr)}
        roots = expr_roots(base, env, prog, fi, summaries)
        if node.attr in ('T', 'real', 'imag'):      # numpy views of the same buffer
            return roots
        return {(r[0], (r[1] + '.' + node.attr).lstrip('.')) for r in roots}
    if isinstance(node, ast.Subscript):
        # an element / slice of a container aliases (is a view of) the container
        return expr_roots(node.value, env, prog, fi, summaries)
    if isinstance(node, ast.IfExp):
        return expr_roots(node.body, env, prog, fi, summaries) | expr_roots(node.orelse, env, prog, fi, summaries)
    if isinstance(node, ast.Call):
        f = node.func
        name = f.attr if isinstance(f, ast.Attribute) else (f.id if isinstance(f, ast.Name) else None)
        rc = resolve_callee(prog, fi, node)
        if rc is not None:
            callee, skip = rc
            summ = summaries.get(callee.qual)
            out = set()
            if summ is not None:
                formals = callee.params()
                if skip and formals:
                    recv_formal, formals = formals[0], formals[1:]
                else:
                    recv_formal = None
                for ra in summ['returns']:
                    if ra[0] == 'param':
                        pname = ra[1].split('.')[0]
                        rest = ra[1][len(pname):]
                        actual = None
                        if pname in formals:
                            i = formals.index(pname)
                            if i < len(node.args):
                                actual = node.args[i]
                            for kw in node.keywords:
                                if kw.arg == pname:
                                    actual = kw.value
                        elif pname == recv_formal and isinstance(f, ast.Attribute):
                            actual = f.value
                        if actual is not None:
                            for r in expr_roots(actual, env, prog, fi, summaries):
                                out.add((r[0], r[1] + rest))
                    elif ra[0] == 'self' and isinstance(f, ast.Attribute):
                        for r in expr_roots(f.value, env, prog, fi, summaries) or ({('self', '')} if (
                                isinstance(f.value, ast.Name) and f.value.id == 'self') else set()):
                            out.add((r[0], (r[1] + '.' + ra[1]).lstrip('.')))
            return out
        if name in FRESH_CALLS:
            return set()
        return set()
    return set()


def _targets(t):
    if isinstance(t, (ast.Tuple, ast.List)):
        for e in t.elts:
            yield from _targets(e)
    else:
        yield t


def analyse_function(prog, fi, summaries):
    """Returns {'mutates': {param-or-self path: [nodes]}, 'returns': set(roots), 'escapes': {...}}"""
    params = fi.all_params()
    env = {p: {('param', p)} for p in params}
    if fi.cls is not None and fi.parent is None and params and not fi.is_staticmethod:
        env[params[0]] = {('param', params[0])}
    mutates = {}
    returns = set()
    escapes = {}       # param -> [(attr path it is stored into, node)]

    def mut(roots, node, how):
        for r in roots:
            mutates.setdefault(r, []).append((node, how))

    def visit_block(stmts, env):
        for st in stmts:
            env = visit(st, env)
        return env

    def join(a, b):
        out = {}
        for k in set(a) | set(b):
            out[k] = set(a.get(k, set())) | set(b.get(k, set()))
        return out

    def scan_calls(node, env):
        for n in ast.walk(node):
            if not isinstance(n, ast.Call):
                continue
            f = n.func
            if isinstance(f, ast.Attribute) and f.attr in MUTATING_METHODS:
                mut(expr_roots(f.value, env, prog, fi, summaries), n, f'.{f.attr}()')
            if isinstance(f, ast.Name) and f.id == 'setattr' and n.args:
                mut(expr_roots(n.args[0], env, prog, fi, summaries), n, 'setattr')
            rc = resolve_callee(prog, fi, n)
            if rc is None:
                continue
            callee, skip = rc
            summ = summaries.get(callee.qual)
            if not summ:
                continue
            formals = callee.params()
            recv_formal = None
            if skip and formals:
                recv_formal, formals = formals[0], formals[1:]
            for (kind, path), _ in summ['mutates'].items():
                if kind != 'param':
                    continue
                pname = path.split('.')[0]
                rest = path[len(pname):]
                actual = None
                if pname in formals:
                    i = formals.index(pname)
                    if i < len(n.args) and not isinstance(n.args[i], ast.Starred):
                        actual = n.args[i]
                    for kw in n.keywords:
                        if kw.arg == pname:
                            actual = kw.value
                elif pname == recv_formal and isinstance(f, ast.Attribute):
                    actual = f.value
                if actual is not None:
                    roots = {(r[0], r[1] + rest) for r in expr_roots(actual, env, prog, fi, summaries)}
                    if isinstance(actual, ast.Name) and actual.id == 'self' and not roots:
                        roots = {('self', rest.lstrip('.'))}
                    mut(roots, n, f'via {callee.short}({pname})')

    def visit(st, env):
        if isinstance(st, (ast.FunctionDef, ast.ClassDef, ast.AsyncFunctionDef)):
            return env
        if isinstance(st, ast.Assign):
            scan_calls(st.value, env)
            roots = expr_roots(st.value, env, prog, fi, summaries)
            for tgt in st.targets:
                for t in _targets(tgt):
                    if isinstance(t, ast.Name):
                        env = dict(env)
                        env[t.id] = set(roots) if tgt is t or not isinstance(tgt, (ast.Tuple, ast.List)) else set(roots)
                    elif isinstance(t, ast.Subscript):
                        mut(expr_roots(t.value, env, prog, fi, summaries), st, 'item store')
                    elif isinstance(t, ast.Attribute):
                        # storing a value into an attribute: the VALUE escapes; the OBJECT is mutated
                        base_roots = expr_roots(t.value, env, prog, fi, summaries)
                        if isinstance(t.value, ast.Name) and t.value.id == 'self' and not base_roots:
                            base_roots = {('self', '')}
                        mut({(r[0], (r[1] + '.' + t.attr).lstrip('.')) for r in base_roots}, st, 'attr store')
                        for r in roots:
                            if r[0] == 'param':
                                escapes.setdefault(r[1], []).append((ast.unparse(t), st))
            return env
        if isinstance(st, ast.AugAssign):
            scan_calls(st.value, env)
            t = st.target
            if isinstance(t, ast.Name):
                # in-place for arrays/lists: the object the name aliases is mutated
                mut(set(env.get(t.id, set())), st, 'augmented assignment')
            elif isinstance(t, ast.Subscript):
                mut(expr_roots(t.value, env, prog, fi, summaries), st, 'item aug-store')
            elif isinstance(t, ast.Attribute):
                base_roots = expr_roots(t.value, env, prog, fi, summaries)
                if isinstance(t.value, ast.Name) and t.value.id == 'self' and not base_roots:
                    base_roots = {('self', '')}
                mut({(r[0], (r[1] + '.' + t.attr).lstrip('.')) for r in base_roots}, st, 'attr aug-store')
            return env
        if isinstance(st, ast.Delete):
            for t in st.targets:
                if isinstance(t, ast.Subscript):
                    mut(expr_roots(t.value, env, prog, fi, summaries), st, 'del item')
                elif isinstance(t, ast.Attribute):
                    mut({(r[0], (r[1] + '.' + t.attr).lstrip('.')) for r in expr_roots(t.value, env, prog, fi, summaries)}, st, 'del attr')
            return env
        if isinstance(st, ast.Return):
            if st.value is not None:
                scan_calls(st.value, env)
                returns.update(expr_roots(st.value, env, prog, fi, summaries))
            return env
        if isinstance(st, ast.Expr):
            scan_calls(st.value, env)
            return env
        if isinstance(st, ast.If):
            scan_calls(st.test, env)
            a = visit_block(st.body, dict(env))
            b = visit_block(st.orelse, dict(env))
            return join(a, b)
        if isinstance(st, (ast.For, ast.While)):
            if isinstance(st, ast.For):
                scan_calls(st.iter, env)
                roots = expr_roots(st.iter, env, prog, fi, summaries)
                env = dict(env)
                for t in _targets(st.target):
                    if isinstance(t, ast.Name):
                        env[t.id] = set(roots)
            else:
                scan_calls(st.test, env)
            e1 = visit_block(st.body, dict(env))
            e2 = visit_block(st.body, join(env, e1))      # second pass for loop-carried aliases
            out = join(env, e2)
            return visit_block(st.orelse, out) if st.orelse else out
        if isinstance(st, ast.With):
            env = dict(env)
            for it in st.items:
                scan_calls(it.context_expr, env)
                if it.optional_vars is not None:
                    for t in _targets(it.optional_vars):
                        if isinstance(t, ast.Name):
                            env[t.id] = set()
            return visit_block(st.body, env)
        if isinstance(st, ast.Try):
            a = visit_block(st.body, dict(env))
            out = a
            for h in st.handlers:
                out = join(out, visit_block(h.body, join(env, a)))
            out = visit_block(st.orelse, out) if st.orelse else out
            return visit_block(st.finalbody, out) if st.finalbody else out
        for n in ast.iter_child_nodes(st):
            if isinstance(n, ast.expr):
                scan_calls(n, env)
        return env

    body = fi.node.body if isinstance(fi.node.body, list) else []
    visit_block(body, env)
    return {'mutates': mutates, 'returns': returns, 'escapes': escapes}


def summaries(prog, max_iter=6):
    """Fixpoint of per-function summaries over the call graph."""
    summ = {}
    funcs = [fi for fi in prog.functions.values() if not isinstance(fi.node, ast.Lambda)]
    for _ in range(max_iter):
        changed = False
        for fi in funcs:
            s = analyse_function(prog, fi, summ)
            old = summ.get(fi.qual)
            sig = (frozenset(s['mutates']), frozenset(s['returns']))
            if old is None or old['_sig'] != sig:
                changed = True
            s['_sig'] = sig
            summ[fi.qual] = s
        if not changed:
            break
    return summ
