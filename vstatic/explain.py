"""./check Cxx --explain <replay.json>: pretty-print a violation report with a source excerpt."""
import json
import os


def explain(path, repo='/repo'):
    try:
        d = json.load(open(path))
    except Exception as e:
        print(f'cannot read replay file {path}: {e}')
        return 2
    print(f"property   : {d.get('property')}   clause {d.get('clause')}   rule {d.get('rule')}")
    print(f"obligation : {d.get('obligation')}")
    print(f"site       : {d.get('site')}" + (f":{d.get('line')}" if d.get('line') else ''))
    print(f"construct  : {d.get('construct')}")
    print(f"verdict    : {d.get('verdict')}")
    det = d.get('detail') or {}
    for k, v in det.items():
        if k == 'difference' and isinstance(v, dict):
            print('difference :')
            for kk, vv in v.items():
                print(f'    {kk}: {vv}')
        else:
            s = v if isinstance(v, str) else json.dumps(v, default=str)
            print(f'{k:11s}: {s[:1200]}')
    f = (d.get('site') or '').partition('::')[0]
    ln = d.get('line')
    src = os.path.join(repo, f)
    if ln and os.path.exists(src):
        lines = open(src).read().split('\n')
        lo, hi = max(0, ln - 4), min(len(lines), ln + 3)
        print(f'--- {f} (current working tree) ---')
        for i in range(lo, hi):
            print(f"{'>' if i + 1 == ln else ' '} {i + 1:5d} {lines[i]}")
    return 0
