"""Names of the package functions that existed when the rules were written (vstatic/baseline_functions.txt).
Only analysis-precision policies hang on the list: (a) the inliner's depth bound applies to these functions, anything else
(a helper a later refactoring extracted, a renamed function) is always analysed through its body; (b) an event that occurs
inside such a new helper is attributed to the nearest listed function on its call chain (`Event.owner`), so rules that
look at "what function F does itself" keep seeing the code that was moved out of F."""
import os


def _load():
    p = os.path.join(os.path.dirname(os.path.abspath(__file__)), 'baseline_functions.txt')
    try:
        with open(p) as f:
            return {l.strip() for l in f if l.strip()}
    except OSError:
        return set()


BASELINE_FUNCS = _load()
