"""Call resolution, argument binding, inlining and external-function summaries for sva.Interp."""
import ast
from fractions import Fraction as F

from . import terms as T
from .terms import Term, Atom, lift, sym, NONE, TRUE, FALSE
from .model import FuncInfo, ClassInfo, ModuleInfo, AnalysisError, PKG
from .sva import (Interp, Frame_, Closure, NPSIG, NUMPY_METHODS, RNG_METHODS, MUTATING_METHODS)
from .sva_expr import mk_seq, as_seq, BUILTINS


def ex_Call(self, node, fr):
    # ---- evaluate arguments
    pos, kw, star, dstar = [], [], None, None
    for a in node.args:
        if isinstance(a, ast.Starred):
            over = getattr(self, '_star_override', {})
            v = over[id(a)] if id(a) in over else self.ev(a.value, fr)
            va = v.single_atom()
            if va is not None and va.kind in ('tuple', 'list'):
                pos.extend(va.args)
            elif va is not None and va.kind == 'ite' and any(
                    y.kind in ('tuple', 'list') for x in va.args[1:] for y in T.all_atoms(x).values()):
                # f(*(A if c else B))  ==  f(*A) if c else f(*B)
                from .sva_expr import eval_cases

                def arm(val, a=a):
                    def run():
                        old = getattr(self, '_star_override', {})
                        self._star_override = dict(old)
                        self._star_override[id(a)] = val
                        try:
                            return ex_Call(self, node, fr)
                        finally:
                            self._star_override = old
                    return run
                return eval_cases(self, fr, va.args[0], arm(va.args[1]), arm(va.args[2]))
            else:
                # length known from the path condition (`if len(v) == 2: ... f(*v)`): expand; else keep the unpacking in
                # place as a marker (the positions of the later arguments are unknown, the call stays opaque)
                n_known = None
                lk = T.mk_call('len', [v])
                for c_ in self.pc:
                    ca_ = c_.single_atom()
                    if ca_ is not None and ca_.kind == 'cmp' and ca_.args[0] == '==':
                        d_ = (ca_.args[1] - ca_.args[2])
                        k_ = (lk - d_).const() if (lk - d_).const() is not None else ((lk + d_).const())
                        if k_ is not None and k_.denominator == 1 and 0 <= k_ <= 6 and (
                                (lk - d_ - Term.num(k_)).is_zero() or (lk + d_ - Term.num(k_)).is_zero()):
                            n_known = int(k_)
                ar = _arity_of_package_call(self, v, node, fr) if n_known is None else None
                if ar is not None and ar.const() is not None:
                    n_known = int(ar.const())
                elif ar is not None:
                    # the number of items depends on a condition: f(*v) == f(v[0], v[1]) if c else f(v[0], v[1], v[2])
                    def lit(t_):
                        ta_ = t_.single_atom()
                        if ta_ is not None and ta_.kind == 'ite':
                            return T.mk_ite(ta_.args[0], lit(ta_.args[1]), lit(ta_.args[2]))
                        return T.mk_tuple([self.subscript(v, Term.num(i)) for i in range(int(t_.const()))])
                    old_over = over
                    self._star_override = dict(over)
                    self._star_override[id(a)] = lit(ar)
                    try:
                        return ex_Call(self, node, fr)
                    finally:
                        self._star_override = old_over
                if n_known is not None:
                    pos.extend(self.subscript(v, Term.num(i)) for i in range(n_known))
                else:
                    star = v
                    pos.append(Term.of(Atom('starred', v, 0)))
        else:
            pos.append(self.ev(a, fr))
    for k in node.keywords:
        v = self.ev(k.value, fr)
        if k.arg is None:
            va = v.single_atom()
            if va is not None and va.kind == 'dict' and all(
                    kk.single_atom() is not None and kk.single_atom().kind == 'str' for kk, _ in va.args):
                for kk, vv in va.args:
                    kw.append((kk.single_atom().args[0], vv))
            else:
                dstar = v
        else:
            kw.append((k.arg, v))
    # ---- callee
    f = node.func
    recv = None
    if isinstance(f, ast.Attribute):
        callee = self.ev(f, fr)
        ca = callee.single_atom()
        if ca is not None and ca.kind == 'boundmethod':
            recv = ca.args[0]
        elif ca is not None and ca.kind in ('func', 'class', 'ext', 'closure'):
            pass
        else:
            recv = self.ev(f.value, fr)
            return self.method_call(recv, f.attr, pos, kw, node, fr, star, dstar)
    else:
        callee = self.ev(f, fr)
        ca = callee.single_atom()
    if ca is None:
        return self._opaque_call('<dynamic>', [callee] + pos, kw, node, fr)
    if ca.kind == 'ite':
        # conditional callee: evaluate both
        c, x, y = ca.args
        return T.mk_ite(c, self._call_value(x, pos, kw, node, fr, star, dstar),
                        self._call_value(y, pos, kw, node, fr, star, dstar))
    return self._call_value(callee, pos, kw, node, fr, star, dstar)


def _call_value(self, callee, pos, kw, node, fr, star=None, dstar=None):
    ca = callee.single_atom()
    if ca is None:
        return self._opaque_call('<dynamic>', [callee] + pos, kw, node, fr)
    if ca.kind == 'func':
        fi = self.prog.functions[PKG + '.' + ca.args[0]]
        pos2 = list(pos)
        self_term, self_cls = None, None
        if fi.cls is not None and fi.parent is None and not fi.is_staticmethod and not fi.is_classmethod:
            # unbound call through the class: first positional is self
            if pos2:
                self_term = pos2.pop(0)
                self_cls = self.class_of(self_term) or fi.cls
        return self.call_package(fi, pos2, kw, self_term, self_cls, node, fr, star, dstar)
    if ca.kind == 'boundmethod':
        recv, short = ca.args
        fi = self.prog.functions[PKG + '.' + short]
        ra = recv.single_atom()
        if ra is not None and ra.kind == 'class':
            ci = self.prog.classes.get(ra.args[0])
            if fi.is_classmethod:
                return self.call_package(fi, pos, kw, recv, ci, node, fr, star, dstar, cls_term=recv)
            if fi.is_staticmethod:
                return self.call_package(fi, pos, kw, None, None, node, fr, star, dstar)
            # Class.method(self, ...) unbound
            pos2 = list(pos)
            st = pos2.pop(0) if pos2 else sym('self')
            return self.call_package(fi, pos2, kw, st, self.class_of(st) or ci, node, fr, star, dstar)
        ci = self.class_of(recv)
        if fi.is_classmethod:
            return self.call_package(fi, pos, kw, recv, ci, node, fr, star, dstar,
                                     cls_term=Term.of(Atom('classof', recv)))
        return self.call_package(fi, pos, kw, recv, ci, node, fr, star, dstar)
    if ca.kind == 'class':
        ci = self.prog.classes.get(ca.args[0])
        if ci is not None:
            return self.construct(ci, pos, kw, node, fr, star, dstar)
    if ca.kind == 'classof':
        ci = self.class_of(ca.args[0])
        if ci is not None:
            return self.construct(ci, pos, kw, node, fr, star, dstar)
    if ca.kind == 'attr' and isinstance(ca.args[1], str) and not isinstance(getattr(node, 'func', None), ast.Attribute):
        # the value of getattr(obj, 'name') called: obj.name(...)
        fake = ast.Call(func=ast.Attribute(value=getattr(node, 'func', node), attr=ca.args[1], ctx=ast.Load()),
                        args=getattr(node, 'args', []), keywords=getattr(node, 'keywords', []))
        ast.copy_location(fake, node)
        ast.copy_location(fake.func, node)
        return self.method_call(ca.args[0], ca.args[1], pos, kw, fake, fr, star, dstar)
    if ca.kind == 'partialfn':
        return self._call_value(ca.args[0], list(ca.args[1]) + list(pos), list(ca.args[2]) + list(kw), node, fr, star, dstar)
    if ca.kind == 'closure':
        cl = self.closures.get(ca.key)
        if cl is not None:
            return self.call_closure(cl, ca, pos, kw, node, fr)
    if ca.kind == 'ext':
        return self.call_external(ca.args[0], pos, kw, node, fr)
    if ca.kind == 'builtin':
        return self.call_builtin(ca.args[0], pos, kw, node, fr)
    if ca.kind == 'sym' and ca.args[0] == 'SEQ' and len(pos) == 3:
        return mk_seq(*pos)
    if ca.kind == 'sym' and ca.args[0] == 'ITE' and len(pos) == 3:
        return T.mk_ite(*pos)
    if ca.kind == 'sym' and ca.args[0] == 'CALL' and pos:
        return T.mk_call(pos[0].single_atom().args[0], pos[1:], kw)
    if ca.kind == 'sym' and ca.args[0] == 'SYM' and len(pos) == 1:
        return sym(pos[0].single_atom().args[0])
    if ca.kind == 'sym' and isinstance(self.frames[-1].fi.node, (ast.FunctionDef, ast.Lambda)):
        # a parameter holding a user-supplied callable
        self.emit('call', node, fr, name='<param:' + ca.args[0] + '>', resolved=None, args=pos, kwargs=kw,
                  external=True, user_callable=True)
        return Term.of(Atom('call', 'apply', tuple([callee] + pos), tuple(sorted(kw, key=lambda x: x[0]))))
    if ca.kind == 'call' and str(ca.args[0]).split('.')[-1] == 'namedtuple' and len(ca.args[1]) >= 2:
        # a class made by collections.namedtuple(name, fields): its instances are immutable records; a field read by name
        # or position is the value it was constructed with
        fa = ca.args[1][1].single_atom()
        fields = None
        if fa is not None and fa.kind in ('list', 'tuple') and all(x.single_atom() is not None and x.single_atom().kind == 'str'
                                                                  for x in fa.args):
            fields = [x.single_atom().args[0] for x in fa.args]
        elif fa is not None and fa.kind == 'str':
            fields = fa.args[0].replace(',', ' ').split()
        na = ca.args[1][0].single_atom()
        if fields and na is not None and na.kind == 'str' and star is None and dstar is None and len(pos) <= len(fields):
            vals = dict(zip(fields, pos))
            ok_ = True
            for k_, v_ in kw:
                if k_ not in fields or k_ in vals:
                    ok_ = False
                vals[k_] = v_
            dflt = dict(ca.args[2]).get('defaults')
            if ok_ and all(f_ in vals for f_ in fields) and dflt is None:
                return Term.of(Atom('record', na.args[0], tuple((f_, vals[f_]) for f_ in fields)))
    return self._opaque_call('<dynamic>', [callee] + pos, kw, node, fr)


def _opaque_call(self, name, pos, kw, node, fr, resolved=None):
    self.emit('call', node, fr, name=name, resolved=resolved, args=pos, kwargs=kw, external=True)
    if resolved is None and name not in T.MODELLED:
        self.unresolved.append((fr.fi.short, getattr(node, 'lineno', 0), name))
    return T.mk_call(name, pos, kw)


def bind_args(self, fi, pos, kw, fr, skip_first=False):
    a = fi.node.args
    params = [x.arg for x in a.posonlyargs + a.args]
    if skip_first and params:
        params = params[1:]
    bound = {}
    extra = []
    for i, v in enumerate(pos):
        if i < len(params):
            bound[params[i]] = v
        else:
            extra.append(v)
    kwextra = []
    allnames = set(params) | {x.arg for x in a.kwonlyargs}
    for k, v in kw:
        if k in allnames:
            bound[k] = v
        else:
            kwextra.append((lift(k), v))
    defaults = fi.defaults()
    for p in list(params) + [x.arg for x in a.kwonlyargs]:
        if p not in bound and p in defaults:
            bound[p] = self.eval_default(fi, defaults[p])
    if a.vararg:
        bound[a.vararg.arg] = T.mk_tuple(extra)
    if a.kwarg:
        # (the order in which the caller spells its extra keywords is not an observable of the properties)
        kwextra.sort(key=lambda kv: repr(kv[0].key))
        bound[a.kwarg.arg] = Term.of(Atom('dict', *kwextra))
    return bound


def eval_default(self, fi, node):
    f2 = Frame_(fi, {}, None, None, len(self.pc), 99, ())
    f2.fi = fi
    rec, self.record = self.record, False
    try:
        v = self.ev(node, f2)
    finally:
        self.record = rec
    va = v.single_atom()
    if va is not None and va.kind in ('dict', 'list') and not va.args:
        # a mutable default is ONE shared object per function
        return Term.of(Atom('default', fi.short, ast.unparse(node)))
    return v


from .baseline import BASELINE_FUNCS


def call_package(self, fi, pos, kw, self_term, self_cls, node, fr, star=None, dstar=None, cls_term=None):
    is_method = fi.cls is not None and fi.parent is None and not fi.is_staticmethod
    bound = self.bind_args(fi, pos, kw, fr, skip_first=is_method)
    ev = self.emit('call', node, fr, name=fi.short, resolved=fi, args=pos, kwargs=kw, bound=bound,
                   recv=self_term, external=False, star=star, dstar=dstar)
    # a helper that is not in the baseline list is part of the function it was extracted from: it does not use up depth
    depth = fr.depth + (1 if fi.short in BASELINE_FUNCS else 0)
    recursive = any(f.fi is fi for f in self.frames)
    too_deep = depth > self.max_depth and (fi.short in BASELINE_FUNCS or depth > self.max_depth + 3)
    if too_deep or recursive or fi.short in self.no_inline or star is not None or dstar is not None:
        args = ([self_term] if (is_method and self_term is not None) else []) + pos
        if star is None and dstar is None and not fi.node.args.vararg and not fi.node.args.kwarg:
            # canonical opaque application: every formal (defaults included) in declaration order
            formals = fi.all_params()[1 if is_method else 0:]
            if all(p in bound for p in formals):
                args = ([self_term] if (is_method and self_term is not None) else []) + [bound[p] for p in formals]
                res = T.mk_call(fi.short, args, [])
                if ev is not None:
                    ev.data['ret'] = res
                return res
        if star is None and dstar is None and not fi.node.args.vararg and fi.node.args.kwarg:
            # **kwargs in the signature: named formals in declaration order, the extra keywords sorted
            formals = fi.all_params()[1 if is_method else 0:]
            extra = bound.get(fi.node.args.kwarg.arg)
            ea = extra.single_atom() if extra is not None else None
            if all(p in bound for p in formals) and ea is not None and ea.kind == 'dict' and all(
                    k_.single_atom() is not None and k_.single_atom().kind == 'str' for k_, _ in ea.args):
                args2 = ([self_term] if (is_method and self_term is not None) else []) + [bound[p] for p in formals]
                kw2 = sorted(((k_.single_atom().args[0], v_) for k_, v_ in ea.args), key=lambda kv: kv[0])
                res = T.mk_call(fi.short, args2, kw2)
                if ev is not None:
                    ev.data['ret'] = res
                return res
        res = T.mk_call(fi.short, args, kw)
        if ev is not None:
            ev.data['ret'] = res
        return res
    env = dict(bound)
    params = fi.all_params()
    if is_method and params:
        if fi.is_classmethod:
            env[params[0]] = cls_term if cls_term is not None else Term.of(Atom('class', fi.cls.qual))
            self_term_in = None
        else:
            env[params[0]] = self_term if self_term is not None else sym('self')
            self_term_in = env[params[0]]
    else:
        self_term_in = None
    for p in params[1 if is_method else 0:]:
        if p not in env:
            env[p] = Term.of(Atom('missingarg', p))
    f2 = Frame_(fi, env, self_term_in, self_cls if self_term_in is not None else None, len(self.pc), depth,
                fr.stack + ((fr.fi.short, getattr(node, 'lineno', 0)),))
    if is_method and fi.is_classmethod:
        f2.self_cls = self_cls
    if any(isinstance(n, (ast.Yield, ast.YieldFrom)) for n in ast.walk(fi.node)) and id(fi.node) not in self._with_hooks:
        # generator: its items, as the list a consumer would collect (side effects are not interleaved with the consumer's)
        twin = _generator_as_list(fi)
        if twin is None:
            return T.mk_call(fi.short, pos, kw)
        f2.fi = twin
    ret, live = self._run_frame(f2)
    if ev is not None:
        ev.data['ret'] = ret
        ev.data['inlined'] = True
    # arguments are passed by reference: what the callee stored INTO a parameter (item stores, in-place operations --
    # not rebinding of the name) is visible through the caller's variable afterwards
    if isinstance(node, ast.Call) and f2.final_env is not None:
        rebound = set()
        for n_ in ast.walk(fi.node):
            if isinstance(n_, ast.Assign):
                for t_ in n_.targets:
                    for x_ in ([t_] if isinstance(t_, ast.Name) else (t_.elts if isinstance(t_, (ast.Tuple, ast.List)) else [])):
                        if isinstance(x_, ast.Name):
                            rebound.add(x_.id)
            elif isinstance(n_, (ast.For,)) :
                for x_ in ast.walk(n_.target):
                    if isinstance(x_, ast.Name):
                        rebound.add(x_.id)
        formals = fi.all_params()[1 if is_method else 0:]
        pairs = [(formals[i_], a_) for i_, a_ in enumerate(node.args) if i_ < len(formals) and not isinstance(a_, ast.Starred)]
        pairs += [(k_.arg, k_.value) for k_ in node.keywords if k_.arg in formals]
        for p_, a_ in pairs:
            if p_ in rebound or not isinstance(a_, (ast.Name,)):
                continue
            newv = f2.final_env.get(p_)
            if newv is not None and p_ in bound and newv.key != bound[p_].key:
                self._rebind(a_, newv, fr)
    # exception propagation: the caller continues only on the paths on which the callee returns
    okc = T.mk_or([c for c, _ in f2.returns] + [live])
    if okc.key != TRUE.key:
        self.pending.append(okc)
    return ret


_GEN_TWINS = {}


def _generator_as_list(fi):
    """FuncInfo of `def g(..): ...; yield e; ...` rewritten as `items = []; ...; items.append(e); ...; return items`
    (every yield an expression statement, no `return value`); None when the generator is not of that form"""
    import copy
    if id(fi.node) in _GEN_TWINS:
        return _GEN_TWINS[id(fi.node)][1]
    twin = None
    node = fi.node
    ok = isinstance(node, ast.FunctionDef)
    if ok:
        own = []

        def walk(n):
            for ch in ast.iter_child_nodes(n):
                if isinstance(ch, (ast.FunctionDef, ast.Lambda, ast.ClassDef)):
                    continue
                own.append((n, ch))
                walk(ch)
        walk(node)
        for parent, ch in own:
            if isinstance(ch, ast.YieldFrom) or (isinstance(ch, ast.Yield) and not isinstance(parent, ast.Expr)):
                ok = False
            if isinstance(ch, ast.Return) and ch.value is not None:
                ok = False
    if ok:
        new = copy.deepcopy(node)

        class R(ast.NodeTransformer):
            def visit_FunctionDef(self, n):
                return n if n is not new else self.generic_visit(n)

            def visit_Lambda(self, n):
                return n

            def visit_Expr(self, n):
                if isinstance(n.value, ast.Yield):
                    v = n.value.value if n.value.value is not None else ast.Constant(value=None)
                    call = ast.Call(func=ast.Attribute(value=ast.Name(id='__gen_items', ctx=ast.Load()), attr='append',
                                                       ctx=ast.Load()), args=[v], keywords=[])
                    return ast.copy_location(ast.Expr(value=call), n)
                return n
        new = R().visit(new)
        first = ast.Assign(targets=[ast.Name(id='__gen_items', ctx=ast.Store())], value=ast.List(elts=[], ctx=ast.Load()))
        last = ast.Return(value=ast.Name(id='__gen_items', ctx=ast.Load()))
        ast.copy_location(first, node.body[0])
        ast.copy_location(last, node.body[-1])
        new.body = [first] + list(new.body) + [last]
        ast.fix_missing_locations(new)
        twin = FuncInfo(fi.module, fi.qual, new, cls=fi.cls, parent=fi.parent)
    _GEN_TWINS[id(fi.node)] = (fi, twin)
    return twin


def call_closure(self, cl, ca, pos, kw, node, fr):
    fi = cl.fi
    bound = self.bind_args(fi, pos, kw, fr)
    ev = self.emit('call', node, fr, name=fi.short, resolved=fi, args=pos, kwargs=kw, bound=bound, external=False,
              closure=True)
    depth = fr.depth + 1
    if depth > self.max_depth + 2 or any(f.fi is fi for f in self.frames):
        return T.mk_call(fi.short, pos, kw)
    env = dict(cl.env)          # late binding of the defining environment
    env.update(dict(ca.args[1]))  # captured values at creation time take precedence for canonical form
    env.update(bound)
    for p in fi.all_params():
        env.setdefault(p, Term.of(Atom('missingarg', p)))
    # (the body of a local function is part of the function that defines it: handed to a helper and called from there, it
    # runs at the depth it would have when called in place)
    if fr.depth > getattr(cl, 'def_depth', fr.depth):
        depth = cl.def_depth
    f2 = Frame_(fi, env, cl.self_term, cl.self_cls, len(self.pc), depth,
                fr.stack + ((fr.fi.short, getattr(node, 'lineno', 0)),))
    ret, live = self._run_frame(f2)
    if ev is not None:
        ev.data['ret'] = ret
        ev.data['inlined'] = True
    # exception propagation, as for package functions: the caller continues only where the closure returns
    okc = T.mk_or([c for c, _ in f2.returns] + [live])
    if okc.key != TRUE.key:
        self.pending.append(okc)
    return ret


def construct(self, ci, pos, kw, node, fr, star=None, dstar=None):
    self._new_id += 1
    obj = Term.of(Atom('new', ci.qual, f'#{self._new_id}'))
    self.types[obj.key] = ci
    init = ci.find_method('__init__')
    if init is not None:
        self.call_package(init, pos, kw, obj, ci, node, fr, star, dstar)
    else:
        # class C(collections.namedtuple('C', fields)): ...   without a constructor of its own: the fields are the
        # attributes of the new object
        fields = None
        for c_ in ci.mro():
            for b_ in c_.node.bases:
                if isinstance(b_, ast.Call) and ast.unparse(b_.func).split('.')[-1] == 'namedtuple' and len(b_.args) >= 2 \
                        and not b_.keywords and c_.find_method('__new__') is None:
                    fa_ = b_.args[1]
                    if isinstance(fa_, (ast.List, ast.Tuple)) and all(isinstance(x, ast.Constant) and isinstance(x.value, str)
                                                                        for x in fa_.elts):
                        fields = [x.value for x in fa_.elts]
                    elif isinstance(fa_, ast.Constant) and isinstance(fa_.value, str):
                        fields = fa_.value.replace(',', ' ').split()
            if fields:
                break
        if fields and star is None and dstar is None and len(pos) <= len(fields):
            vals = dict(zip(fields, pos))
            for k_, v_ in kw:
                vals[k_] = v_
            if set(vals) == set(fields):
                self.heap_base[obj.key] = obj
                for f_ in fields:
                    self.heap[(obj.key, f_)] = vals[f_]
        self.emit('call', node, fr, name=ci.qual + '()', resolved=None, args=pos, kwargs=kw, external=False)
    # canonical value for comparison purposes: constructor + args
    self.__dict__.setdefault('ctor_args', {})[obj.key] = (ci, pos, kw)
    return obj


def method_call(self, recv, name, pos, kw, node, fr, star=None, dstar=None):
    ra = recv.single_atom()
    # super().__init__(...)
    if ra is not None and ra.kind == 'call' and ra.args[0] == 'super' and fr.self_cls is not None:
        mro = fr.self_cls.mro()
        own = fr.fi.cls
        start = mro.index(own) + 1 if own in mro else 1
        for c in mro[start:]:
            if name in c.methods:
                return self.call_package(c.methods[name], pos, kw, fr.self_term, fr.self_cls, node, fr, star, dstar)
        return self._opaque_call('super.' + name, pos, kw, node, fr)
    if ra is not None and ra.kind == 'ite':
        c, x, y = ra.args
        return T.mk_ite(c, self.method_call(x, name, pos, kw, node, fr, star, dstar),
                        self.method_call(y, name, pos, kw, node, fr, star, dstar))
    if ra is not None and ra.kind == 'record' and name == '_replace' and not pos and all(k_ in dict(ra.args[1]) for k_, _ in kw):
        nv_ = dict(kw)
        return Term.of(Atom('record', ra.args[0], tuple((f_, nv_.get(f_, v_)) for f_, v_ in ra.args[1])))
    if ra is not None and ra.kind == 'record' and name == '_asdict' and not pos and not kw:
        return Term.of(Atom('dict', *[(lift(f_), v_) for f_, v_ in ra.args[1]]))
    # dict / kwargs objects
    if ra is not None and ra.kind == 'dict':
        r = self._dict_method(ra, recv, name, pos, kw, node, fr)
        if r is not None:
            return r
    # astropy quantity conversion
    if name == 'to' and len(pos) == 1:
        return T.mk_call('.to', [recv, pos[0]])
    if name in NUMPY_METHODS or name in RNG_METHODS:
        self.emit('call', node, fr, name='.' + name, resolved=None, args=[recv] + pos, kwargs=kw, external=True,
                  method=True, recv=recv, recv_node=node.func.value)
        return self.numpy_call(name, [recv] + pos, kw)
    cbound = None
    if _builtin_list(self, recv) and name in ('append', 'extend', 'insert', 'pop', 'sort', 'reverse', 'clear', 'remove',
                                              'index', 'count', 'copy'):
        # a list the function built itself: the method is the builtin one, not a package method of the same name
        self.emit('call', node, fr, name='.' + name, resolved=None, args=[recv] + pos, kwargs=kw, external=True,
                  method=True, recv=recv, recv_node=node.func.value, mutating=name in MUTATING_METHODS)
    else:
        # duck-typed: unique method of that name in the package
        cands = [c.methods[name] for c in self.prog.classes.values() if name in c.methods]
        sigs = {tuple(c.all_params()[1:]) for c in cands}
        cbound = None
        if cands and len(sigs) == 1 and star is None and dstar is None and not cands[0].node.args.vararg \
                and not cands[0].node.args.kwarg and not cands[0].is_staticmethod:
            # every package method of that name has the same formals: positional and keyword spellings of the
            # call bind identically
            try:
                cbound = self.bind_args(cands[0], pos, kw, fr, skip_first=True)
            except Exception:
                cbound = None
        self.emit('call', node, fr, name='.' + name, resolved=None, args=[recv] + pos, kwargs=kw, external=True,
                  method=True, recv=recv, recv_node=node.func.value, candidates=[c.short for c in cands],
                  mutating=name in MUTATING_METHODS, **({'bound': cbound} if cbound is not None else {}))
    if name == 'append' and ra is not None and ra.kind == 'list' and len(pos) == 1 and self.class_of(recv) is None:
        self._rebind(node.func.value, T.mk_tuple(list(ra.args) + [pos[0]], 'list'), fr)
        return NONE
    if name == 'update' and self.class_of(recv) is None and len(pos) <= 1:
        # d.update({k1: v1, ...}, k2=v2)  ==  d[k1] = v1; ...; d[k2] = v2   (literal keys)
        items = []
        ok_ = True
        if pos:
            da_ = pos[0].single_atom()
            if da_ is not None and da_.kind == 'dict' and all(
                    k_.single_atom() is not None and k_.single_atom().kind == 'str' for k_, _ in da_.args):
                items += list(da_.args)
            else:
                ok_ = False
        items += [(lift(k_), v_) for k_, v_ in kw]
        ra_ = recv.single_atom()
        if ok_ and items and (ra_ is None or ra_.kind != 'dict'):
            newv = recv
            for k_, v_ in items:
                newv = T.mk_store(newv, k_, v_)
            self._rebind(node.func.value, newv, fr)
            return NONE
    if name == 'setdefault' and len(pos) in (1, 2) and not kw and self.class_of(recv) is None:
        # d.setdefault(k, v)  ==  (d[k] = v  unless k in d);  value d[k]
        k_, v_ = pos[0], (pos[1] if len(pos) == 2 else NONE)
        newv = T.mk_ite(T.mk_in(k_, recv), recv, T.mk_store(recv, k_, v_))
        self._rebind(node.func.value, newv, fr)
        return self.subscript(newv, k_)
    if name in MUTATING_METHODS and self.class_of(recv) is None:
        # model list growth / dict update on the container expression
        newv = T.mk_call('mut.' + name, [recv] + pos, kw)
        self._rebind(node.func.value, newv, fr)
        return NONE if name not in ('pop', 'setdefault', 'popitem') else T.mk_call('.' + name, [recv] + pos, kw)
    if name in ('get',) and pos:
        da_ = recv.single_atom()
        kc_ = pos[0].single_atom()
        if da_ is not None and da_.kind == 'dict' and not kw and len(pos) <= 2 and (pos[0].const() is not None or (
                kc_ is not None and kc_.kind == 'str')) and all(
                k_.const() is not None or (k_.single_atom() is not None and k_.single_atom().kind == 'str') for k_, _ in da_.args):
            # {literal keys}.get(constant key[, default]): the entry, or the default / None
            for k_, v_ in da_.args:
                if k_.key == pos[0].key:
                    return v_
            return pos[1] if len(pos) == 2 else NONE
        return T.mk_call('.get', [recv] + pos, kw)
    ra_t = recv.single_atom()
    if ra_t is not None and ra_t.kind == 'attr' and self.class_of(recv) is None:
        # the receiver is an attribute whose every store in its class constructs one package class, and that class's method
        # returns one of its own attributes on every path (DataStream.get_samples returns self.v): the value of the call is
        # a read of that attribute after the call
        owner = self.class_of(ra_t.args[0])
        if owner is None and fr.self_term is not None and ra_t.args[0].key == fr.self_term.key:
            owner = fr.self_cls
        tcls = None
        for c_ in (owner.mro() if owner is not None else ()):
            tcls = getattr(self.prog, 'attr_types', {}).get(c_.qual, {}).get(ra_t.args[1])
            if tcls is not None:
                break
        mfi = tcls.find_method(name) if tcls is not None else None
        ret_attr = self.prog.returns_self_attr(mfi) if mfi is not None else None
        if ret_attr is not None:
            return self.get_attr(recv, ret_attr, fr)
    if cbound is not None:
        # canonical application: every formal of the (unique) package signature in declaration order
        formals = cands[0].all_params()[1:]
        if all(p_ in cbound for p_ in formals):
            return T.mk_call('.' + name, [recv] + [cbound[p_] for p_ in formals], [])
    return T.mk_call('.' + name, [recv] + pos, kw)


def _builtin_list(self, recv, depth=0):
    a = recv.single_atom()
    if a is None or depth > 6:
        return False
    if a.kind in ('list', 'comp') :
        return a.kind == 'list' or a.args[0] == 'list'
    if a.kind in ('loopvar', 'after') and len(a.args) == 2 and (a.args[0], a.args[1]) in self.loop_init:
        return _builtin_list(self, self.loop_init[(a.args[0], a.args[1])], depth + 1)
    if a.kind == 'call' and str(a.args[0]).startswith('mut.') and a.args[1]:
        return _builtin_list(self, a.args[1][0], depth + 1)
    return False


def _dict_method(self, ra, recv, name, pos, kw, node, fr):
    items = list(ra.args)
    if name == 'get' and pos:
        for k, v in items:
            if k.key == pos[0].key:
                return v
        if all(k.single_atom() is not None and k.single_atom().kind == 'str' for k, _ in items):
            return pos[1] if len(pos) > 1 else NONE
    if name == 'items' and not pos:
        return T.mk_call('items', [recv])
    if name == 'copy':
        return recv
    if name == 'pop' and pos:
        for i, (k, v) in enumerate(items):
            if k.key == pos[0].key:
                self._rebind(node.func.value, Term.of(Atom('dict', *(items[:i] + items[i + 1:]))), fr)
                return v
        return pos[1] if len(pos) > 1 else None
    return None


NPDEFAULTS = {
    'concatenate': {'axis': 0}, 'sort': {'axis': -1}, 'diff': {'n': 1, 'axis': -1}, 'round': {'decimals': 0},
    'linspace': {'endpoint': True}, 'sum': {'axis': None}, 'mean': {'axis': None}, 'std': {'axis': None},
    'var': {'axis': None}, 'median': {'axis': None}, 'repeat': {'axis': None}, 'append': {'axis': None},
    'flip': {'axis': None}, 'fftshift': {'axes': None}, 'fft': {'n': None, 'axis': -1}, 'rfft': {'n': None, 'axis': -1},
    'cumsum': {'axis': None}, 'normal': {'loc': 0, 'scale': 1, 'size': None}, 'standard_normal': {'size': None},
    'uniform': {'low': 0, 'high': 1, 'size': None}, 'chisquare': {'size': None}, 'integers': {'high': None, 'size': None},
    'clip': {}, 'firwin': {'pass_zero': True, 'scale': True, 'window': 'hamming', 'width': None, 'fs': None},
    'array': {'dtype': None}, 'zeros': {}, 'full': {'dtype': None}, 'default_rng': {'seed': None},
}


def numpy_call(self, name, pos, kw):
    name = T.SYN.get(name, name)
    pos = list(pos)
    kw = list(kw)
    if name == 'reshape':
        if len(pos) > 2:
            pos = [pos[0], T.mk_tuple(pos[1:])]
        kw = [(k, v) for k, v in kw if k != 'newshape'] + [('newshape', v) for k, v in kw if k == 'newshape']
        if len(pos) == 2:
            sa = pos[1].single_atom()
            shp = pos[1] if sa is not None and sa.kind in ('tuple', 'list') else T.mk_tuple([pos[1]])
            sa = shp.single_atom()
            return T.mk_call('reshape', [pos[0], T.mk_tuple(sa.args)], kw)
    if name == 'vectorize' and len(pos) == 1:
        return pos[0]           # elementwise application of the same function
    sig = NPSIG.get(name)
    if sig is not None and not pos and any(k == sig[0] for k, _ in kw):
        pos = [v for k, v in kw if k == sig[0]][:1]
        kw = [(k, v) for k, v in kw if k != sig[0]]
    if sig is not None and len(pos) > 1:
        extra = pos[1:]
        pos = pos[:1]
        for pname, v in zip(sig[1:], extra):
            kw.append((pname, v))
    if name in ('fft', 'rfft') and pos and any(k == 'n' for k, _ in kw):
        # fft(X, n=N, axis=a) with N the length of that axis is fft(X, axis=a)
        kd = dict(kw)
        ax = kd.get('axis')
        axc = int(ax.const()) if ax is not None and ax.const() is not None else -1
        X = pos[0]
        if axc < 0 and T.rank_of(X) is not None and T.rank_of(X) + axc >= 0:
            axc = T.rank_of(X) + axc
        d = T.shape_dim(X, axc) if axc >= 0 else None
        if d is None and self.frames:
            inl = _arity_of_package_call(self, X, ast.parse('f()', mode='eval').body, self.frames[-1], want='value')
            if inl is not None:
                ia_ = inl.single_atom()
                if ia_ is not None and ia_.kind in ('after', 'loopvar') and len(ia_.args) == 2 and \
                        (ia_.args[0], ia_.args[1]) in self.loop_shape:
                    inl = self.loop_shape[(ia_.args[0], ia_.args[1])]      # only item stores in the loop: shape as on entry
                if axc < 0 and T.rank_of(inl) is not None and T.rank_of(inl) + axc >= 0:
                    # (the rank of an opaque package call is read off its body: a negative axis becomes the explicit one)
                    axc = T.rank_of(inl) + axc
                    kw = [(k, v) for k, v in kw if k != 'axis'] + [('axis', Term.num(axc))]
                    kd = dict(kw)
                if axc >= 0:
                    d = T.shape_dim(inl, axc)
        if d is not None and (d - kd['n']).is_zero():
            kw = [(k, v) for k, v in kw if k != 'n']
    # a keyword spelled with its documented default is the same call as without it
    dflt = NPDEFAULTS.get(name, {})
    if kw:
        kept = []
        for k, v in kw:
            if k in dflt:
                d = dflt[k]
                if (d is None and T._isnone(v)) or (d is not None and v.key == lift(d).key):
                    continue
            kept.append((k, v))
        kw = kept
    if name in ('zeros', 'empty', 'ones', 'full') and pos:
        sa = pos[0].single_atom()
        if sa is not None and sa.kind == 'list':
            pos[0] = T.mk_tuple(sa.args)
        elif sa is None or sa.kind != 'tuple':
            pos[0] = T.mk_tuple([pos[0]])
    if name in ('min', 'max') and len(pos) == 1 and not kw:
        x = pos[0]
        xa = x.single_atom()
        if xa is not None and xa.kind == 'call' and xa.args[0] == 'array' and len(xa.args[1]) == 1:
            x = xa.args[1][0]
            xa = x.single_atom()
        if xa is not None and xa.kind in ('list', 'tuple'):
            return T.mk_call(name, list(xa.args))
    if name == 'linspace':
        d = dict(kw)
        if pos and 'stop' in d and 'num' in d:
            start, stop, n = pos[0], d['stop'], d['num']
            ep = d.get('endpoint')
            if ep is not None and ep.key == FALSE.key:
                return mk_seq(start, (stop - start) / n, n)
            if ep is None or ep.key == TRUE.key:
                return mk_seq(start, (stop - start) / (n - 1), n)
    if name == 'arange' and not [k for k, _ in kw if k != 'dtype']:
        if len(pos) == 1:
            return mk_seq(0, 1, pos[0])
        if len(pos) == 2 and T.is_integer(pos[1] - pos[0]):
            return mk_seq(pos[0], 1, pos[1] - pos[0])
        if len(pos) == 3 and T.is_integer(pos[2]) and T.is_integer(pos[0]) :
            n = (pos[1] - pos[0]) / pos[2]
            return mk_seq(pos[0], pos[2], n if T.is_integer(n) else T.mk_call('ceil', [n]))
    if name == 'append' and pos:
        d = dict(kw)
        s = as_seq(pos[0])
        if s is not None and 'values' in d and 'axis' not in d:
            st, dd, n = s
            if (d['values'] - (st + n * dd)).is_zero():
                return mk_seq(st, dd, n + 1)
    if name in ('array', 'copy') and len(pos) == 1 and not kw:
        # np.array(x) of an array is a (fresh) copy with the same value
        s = as_seq(pos[0])
        if s is not None:
            return pos[0]
    return T.mk_call(name, pos, kw)


def call_external(self, dotted, pos, kw, node, fr):
    parts = dotted.split('.')
    root, last = parts[0], parts[-1]
    self.emit('call', node, fr, name=dotted, resolved=None, args=pos, kwargs=kw, external=True)
    if dotted in ('sys.exit', 'os._exit', 'os.abort'):
        # does not return: like raising SystemExit
        self.emit('raise', node, fr, exc=T.mk_call('SystemExit', pos))
        self.pending.append(FALSE)
        return Term.of(Atom('noreturn'))
    if root == 'numpy' and len(parts) >= 3 and parts[-1] == 'outer' and parts[-2] in ('add', 'subtract', 'multiply') \
            and len(pos) == 2 and not kw:
        # np.add.outer(a, b)  ==  np.array([a_i + b for a_i in a])
        cid = f'C{getattr(node, "lineno", 0)}:{getattr(node, "col_offset", 0)}:0'
        tv, _ = self._loop_target(pos[0], cid)
        elt = {'add': tv + pos[1], 'subtract': tv - pos[1], 'multiply': tv * pos[1]}[parts[-2]]
        return self.numpy_call('array', [Term.of(Atom('comp', 'list', elt, (T.mk_tuple([pos[0]]),), cid.rsplit(':', 1)[0]))], [])
    if root in ('numpy', 'scipy'):
        T.MODELLED.add(T.SYN.get(last, last))     # library functions have fixed semantics: distinct names, distinct functions
        outs = [k for k in getattr(node, 'keywords', []) if k.arg == 'out']
        if outs:
            # ufunc(..., out=target): the result is written into (and returned as) `target`
            kw2 = [(k, v) for k, v in kw if k != 'out']
            res = self.numpy_call(last, pos, kw2)
            if isinstance(outs[0].value, (ast.Name, ast.Attribute, ast.Subscript)):
                self.assign(outs[0].value, res, fr, node)
            return res
        return self.numpy_call(last, pos, kw)
    if dotted == 'functools.partial' and pos:
        # partial(f, a, k=v): a callable that remembers its leading arguments
        return Term.of(Atom('partialfn', pos[0], tuple(pos[1:]), tuple((k, v) for k, v in kw)))
    if dotted == 'copy.deepcopy' and pos:
        return T.mk_call('deepcopy', pos)
    if dotted == 'copy.copy' and pos:
        return T.mk_call('copy', pos)
    if dotted == 'time.time':
        return T.mk_call('time.time', [])
    if root == 'astropy':
        if last == 'Time':
            return T.mk_call('Time', pos, kw)
        if last == 'sigma_clip':
            return self.numpy_call('sigma_clip', pos, kw)
    if dotted == 'glob.glob':
        return T.mk_call('glob', pos, kw)
    return T.mk_call(dotted, pos, kw)


def _arity_of_package_call(self, v, node, fr, want='arity'):
    """len(f(args)) of a package function kept opaque: the function's body is evaluated on those arguments (events
    discarded) and the length read off the tuples it returns"""
    a = v.single_atom()
    if a is None or a.kind != 'call' or a.args[2]:
        return None
    fi = self.prog.functions.get(PKG + '.' + str(a.args[0]))
    if fi is None or fi.cls is not None or isinstance(fi.node, ast.Lambda) or len(a.args[1]) != len(fi.all_params()):
        return None
    if getattr(self, '_arity_busy', False):
        return None
    rec, self.record = self.record, False
    nev = len(self.events)
    no_inline, self.no_inline = self.no_inline, set(self.no_inline) - {fi.short}
    env0, heap0 = fr.env, self.heap
    self._arity_busy = True
    depth0 = fr.depth
    try:
        fr.env, self.heap = dict(env0), dict(heap0)
        fr.depth = 0
        r = self.call_package(fi, list(a.args[1]), [], None, None, node, fr)
    except Exception:
        import os, traceback
        if os.environ.get('VSTATIC_DEBUG'):
            traceback.print_exc()
        r = None
    finally:
        self._arity_busy = False
        fr.depth = depth0
        fr.env, self.heap = env0, heap0
        self.no_inline = no_inline
        self.record = rec
        del self.events[nev:]
        self.pending = []

    if want == 'value':
        return r

    def arity(t):
        ta = t.single_atom()
        if ta is not None and ta.kind in ('tuple', 'list'):
            return Term.num(len(ta.args))
        if ta is not None and ta.kind == 'ite':
            x, y = arity(ta.args[1]), arity(ta.args[2])
            if x is not None and y is not None:
                return T.mk_ite(ta.args[0], x, y)
        return None
    return arity(r) if r is not None else None


def call_builtin(self, name, pos, kw, node, fr):
    self.emit('call', node, fr, name=name, resolved=None, args=pos, kwargs=kw, external=True, builtin=True)
    if name == 'type' and len(pos) == 1 and not kw:
        return T.mk_attr(pos[0], '__class__')          # type(x) is x.__class__: one spelling
    if name == 'isinstance' and len(pos) == 2:
        ta = pos[1].single_atom()
        x0 = pos[0].single_atom()
        if x0 is not None and x0.kind == 'ite':
            # isinstance(a if c else b, T) == isinstance(a, T) if c else isinstance(b, T)
            rec, self.record = self.record, False
            try:
                return T.mk_ite(x0.args[0], call_builtin(self, name, [x0.args[1], pos[1]], kw, node, fr),
                                call_builtin(self, name, [x0.args[2], pos[1]], kw, node, fr))
            finally:
                self.record = rec
        if self.quantity_plain and ta is not None and ta.kind == 'ext' and ta.args[0].endswith('Quantity'):
            return FALSE
        xa = pos[0].single_atom()
        if xa is not None and xa.kind == 'sym' and xa.args[0] in T.SYMKIND:
            names = set()
            for a in T.all_atoms(pos[1]).values():
                if a.kind in ('builtin', 'ext'):
                    names.add(a.args[0].split('.')[-1])
            k = T.SYMKIND[xa.args[0]]
            if k.startswith('object:'):
                return TRUE if k.split(':', 1)[1] in names else FALSE
            want = {'array': {'list', 'ndarray'}, 'scalar': {'int', 'float'}, 'callable': set()}[k]
            return TRUE if (names & want) else FALSE
        if xa is not None and xa.kind == 'closure':
            return FALSE
        tnames = set()
        for a in T.all_atoms(pos[1]).values():
            if a.kind in ('builtin', 'ext', 'class'):
                tnames.add(str(a.args[0]).split('.')[-1])
        SCALARS = {'int', 'float', 'integer', 'floating', 'number', 'Number', 'Real', 'Integral', 'generic', 'complex',
                   'complexfloating'}
        if tnames and tnames <= SCALARS:
            # "is a scalar": which scalar types are listed is decided by the SCALARFORM rule, not by term comparison
            if pos[0].const() is not None:
                return TRUE
            return T.mk_call('isinstance', [pos[0], Term.of(Atom('builtin', '<scalar types>'))])
        CONTAINERS = {'list', 'tuple', 'ndarray', 'dict', 'set', 'str', 'bytes', 'Quantity', 'PurePath', 'Path'}
        if tnames and tnames <= CONTAINERS - {'str'} and (pos[0].const() is not None or (xa is not None and xa.kind == 'str')):
            return FALSE          # a literal number / string is none of the container types
        HEAD_TYPE = {'list': 'list', 'sorted': 'list', 'tuple': 'tuple', 'dict': 'dict', 'str': 'str', 'fstr': 'str',
                     'array': 'ndarray', 'zeros': 'ndarray', 'ones': 'ndarray', 'full': 'ndarray', 'empty': 'ndarray',
                     'linspace': 'ndarray', 'arange': 'ndarray', 'concatenate': 'ndarray'}
        vt = None
        if xa is not None and xa.kind == 'call' and not str(xa.args[0]).startswith('.'):
            vt = HEAD_TYPE.get(str(xa.args[0]))
        elif xa is not None and xa.kind in ('list', 'tuple', 'dict', 'str'):
            vt = xa.kind
        if vt is not None and tnames and tnames <= CONTAINERS | {'slice', 'int', 'float', 'Frame', 'Waterfall'}:
            return TRUE if vt in tnames else FALSE         # the value was built by a constructor of a known type
        if xa is not None and xa.kind == 'new':
            ci = self.prog.classes.get(xa.args[0])
            if ta is not None and ta.kind == 'class':
                tci = self.prog.classes.get(ta.args[0])
                return TRUE if (ci is not None and tci in ci.mro()) else FALSE
        return T.mk_call('isinstance', pos)
    if name == 'callable' and len(pos) == 1:
        xa = pos[0].single_atom()
        if xa is not None and xa.kind in ('closure', 'func', 'boundmethod'):
            return TRUE
        if xa is not None and xa.kind == 'sym' and xa.args[0] in T.SYMKIND:
            return TRUE if T.SYMKIND[xa.args[0]] == 'callable' else FALSE
        if pos[0].const() is not None or (xa is not None and xa.kind in ('tuple', 'list', 'str', 'none')):
            return FALSE
        return T.mk_call('callable', pos)
    if name in ('int', 'float', 'round', 'abs', 'min', 'max', 'len', 'sum'):
        if name == 'float' and len(pos) == 1:
            return T.mk_call('float', pos) if not T._numeric_like(pos[0]) else pos[0]
        if name == 'len' and len(pos) == 1:
            s = as_seq(pos[0])
            if s is not None:
                return s[2]
            # a Frame's axes have the frame's dimensions: len(x.ts) == x.tchans, len(x.fs) == x.fchans
            la_ = pos[0].single_atom()
            if la_ is not None and la_.kind == 'attr' and la_.args[1] in ('ts', 'fs'):
                ci_ = self.class_of(la_.args[0])
                if ci_ is None and self.frames and self.frames[0].self_term is not None and \
                        self.frames[0].self_term.key == la_.args[0].key:
                    ci_ = self.frames[0].self_cls
                if ci_ is not None and any(c.name == 'Frame' for c in ci_.mro()):
                    return self.get_attr(la_.args[0], 'tchans' if la_.args[1] == 'ts' else 'fchans', fr)
            def length(v, d=0):
                va = v.single_atom()
                if va is not None and va.kind == 'ite' and d < 4:
                    return T.mk_ite(va.args[0], length(va.args[1], d + 1), length(va.args[2], d + 1))
                r_ = _arity_of_package_call(self, v, node, fr)
                return r_ if r_ is not None else self.numpy_call('len', [v], [])
            if pos[0].single_atom() is not None and pos[0].single_atom().kind in ('ite', 'call'):
                r_ = length(pos[0])
                # only when every alternative has a known length (otherwise len(<conditional value>) stays one quantity)
                if not any(a_.kind == 'call' and a_.args[0] == 'len' for a_ in T.all_atoms(r_).values()):
                    return r_
        return self.numpy_call(name, pos, kw)
    if name == 'iter' and len(pos) == 2 and not kw:
        # iter(callable, sentinel): the callable is called once per element -- analyse one call (its events count)
        fa = pos[0].single_atom()
        if fa is not None and fa.kind in ('closure', 'func', 'boundmethod', 'partialfn'):
            v = self._call_value(pos[0], [], [], node, fr)
            return T.mk_call('iter_until', [v, pos[1]])
    if name in ('filter', 'map') and len(pos) == 2 and not kw:
        # filter(f, xs) == [x for x in xs if f(x)] ;  map(f, xs) == [f(x) for x in xs]   (as iterated values)
        fa = pos[0].single_atom()
        if fa is not None and fa.kind in ('closure', 'func', 'boundmethod'):
            cid = f'C{getattr(node, "lineno", 0)}:{getattr(node, "col_offset", 0)}:0'
            tv, _ = self._loop_target(pos[1], cid)
            rec, self.record = self.record, False
            try:
                v = self._call_value(pos[0], [tv], [], node, fr)
            finally:
                self.record = rec
            if name == 'filter':
                return Term.of(Atom('comp', 'list', tv, (T.mk_tuple([pos[1], v]),), cid.rsplit(':', 1)[0]))
            return Term.of(Atom('comp', 'list', v, (T.mk_tuple([pos[1]]),), cid.rsplit(':', 1)[0]))
    if name == 'list' and len(pos) == 1 and not kw:
        xa = pos[0].single_atom()
        if xa is not None and xa.kind == 'comp' and xa.args[0] in ('list', 'gen'):
            return Term.of(Atom('comp', 'list', xa.args[1], xa.args[2], *xa.args[3:]))
    if name in ('dict', 'list', 'tuple') and len(pos) == 1 and not kw:
        xa = pos[0].single_atom()
        if xa is not None and xa.kind in ('dict', 'list', 'tuple') and name in ('dict', 'list', 'tuple'):
            if name == xa.kind:
                return pos[0]
            if name in ('list', 'tuple') and xa.kind in ('list', 'tuple'):
                return T.mk_tuple(xa.args, name)
        return T.mk_call(name, pos)
    if name in ('list', 'dict') and not pos and not kw:
        return T.mk_tuple([], 'list') if name == 'list' else Term.of(Atom('dict'))
    if name == 'dict' and not pos and kw:
        return Term.of(Atom('dict', *[(lift(k), v) for k, v in kw]))       # dict(a=1, b=2) == {'a': 1, 'b': 2}
    if name == 'dict' and len(pos) == 1 and kw:
        pa = pos[0].single_atom()
        if pa is not None and pa.kind == 'dict':
            items = [(k, v) for k, v in pa.args if k.key not in {lift(x).key for x, _ in kw}]
            return Term.of(Atom('dict', *(items + [(lift(k), v) for k, v in kw])))
    if name == 'getattr' and len(pos) >= 2:
        na = pos[1].single_atom()
        if na is not None and na.kind == 'str':
            return self.get_attr(pos[0], na.args[0], fr, node)
    if name == 'setattr' and len(pos) == 3:
        na = pos[1].single_atom()
        key = na.args[0] if (na is not None and na.kind == 'str') else '<dynamic>'
        self.heap_base[pos[0].key] = pos[0]
        self.heap[(pos[0].key, key)] = pos[2]
        self.emit('store', node, fr, target='attr', base=pos[0], name=key, value=pos[2], aug=None, rhs=None,
                  old=None, base_node=node.args[0], via='setattr', name_term=pos[1])
        return NONE
    return T.mk_call(name, pos, kw)


for _n in ('ex_Call', '_call_value', '_opaque_call', 'bind_args', 'eval_default', 'call_package',
           'call_closure', 'construct', 'method_call', '_dict_method', 'numpy_call', 'call_external',
           'call_builtin'):
    setattr(Interp, _n, globals()[_n])
