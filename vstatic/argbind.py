"""ARGBIND (E2): a positional actual that is a bare name (or attribute tail) equal to a DIFFERENT
formal of the resolved callee.  Keyword arguments are never flagged."""
import ast
from .model import FuncInfo, ClassInfo, ModuleInfo, PKG


GENERIC_METHODS = {'copy', 'get', 'update', 'items', 'keys', 'values', 'append', 'extend', 'insert', 'pop', 'sort',
                   'index', 'count', 'plot', 'array', 'normalize', 'write', 'read', 'close', 'format', 'strip',
                   'encode', 'decode', 'replace', 'split', 'join', 'reshape', 'astype', 'sum', 'mean', 'std', 'min',
                   'max', 'flatten', 'tobytes', 'to', 'resolve'}


def _tail(node):
    if isinstance(node, ast.Name):
        return node.id
    if isinstance(node, ast.Attribute):
        return node.attr
    return None


def resolve_callee(prog, fi, call):
    """Returns (FuncInfo, skip_first: bool) or None."""
    f = call.func
    m = fi.module
    if isinstance(f, ast.Name):
        # nested def in an enclosing function?
        p = fi
        while p is not None:
            q = prog.functions.get(f'{p.qual}.<locals>.{f.id}')
            if q is not None:
                return q, False
            p = p.parent
        r = prog.resolve_import(m, f.id)
        if isinstance(r, FuncInfo):
            return r, False
        if isinstance(r, ClassInfo):
            init = r.find_method('__init__')
            return (init, True) if init else None
        if f.id == 'cls':
            o = fi
            while o is not None and o.cls is None:
                o = o.parent
            if o is not None:
                init = o.cls.find_method('__init__')
                return (init, True) if init else None
        return None
    if isinstance(f, ast.Attribute):
        base = f.value
        if isinstance(base, ast.Name) and base.id == 'self':
            o = fi
            while o is not None and o.cls is None:
                o = o.parent
            if o is not None:
                mth = o.cls.find_method(f.attr)
                if mth is not None and not mth.is_property:
                    return mth, not mth.is_staticmethod
            return None
        try:
            dotted = ast.unparse(f)
        except Exception:
            return None
        if all(part.isidentifier() for part in dotted.split('.')):
            r = prog.resolve_dotted(m, dotted)
            if isinstance(r, FuncInfo):
                if r.cls is not None and r.parent is None:
                    # Class.method(self, ...) unbound: formals keep `self`; classmethods drop `cls`
                    return r, r.is_classmethod
                return r, False
            if isinstance(r, ClassInfo):
                init = r.find_method('__init__')
                return (init, True) if init else None
        # duck typed: unique method of that name in the package with compatible arity
        if f.attr in GENERIC_METHODS:
            return None
        cands = [c.methods[f.attr] for c in prog.classes.values() if f.attr in c.methods]
        if len(cands) == 1 and not cands[0].is_property:
            return cands[0], not cands[0].is_staticmethod
    return None


def sweep(prog):
    """Yields (caller FuncInfo, call node, callee FuncInfo, position, actual name, formal name, resolved count)."""
    findings = []
    resolved = 0
    total = 0
    for fi in prog.functions.values():
        if isinstance(fi.node, ast.Lambda):
            continue
        own = set()
        for n in ast.walk(fi.node):
            if isinstance(n, (ast.FunctionDef, ast.Lambda)) and n is not fi.node:
                own.update(id(x) for x in ast.walk(n) if x is not n)
        for n in ast.walk(fi.node):
            if not isinstance(n, ast.Call) or id(n) in own:
                continue
            total += 1
            rc = resolve_callee(prog, fi, n)
            if rc is None:
                continue
            callee, skip = rc
            resolved += 1
            formals = callee.params()
            if skip and formals:
                formals = formals[1:]
            tails = [None if isinstance(a, ast.Starred) else _tail(a) for a in n.args]
            for i, a in enumerate(n.args):
                if isinstance(a, ast.Starred) or i >= len(formals):
                    break
                t = tails[i]
                if t is None or t == formals[i]:
                    continue
                if t in formals:
                    j = formals.index(t)
                    if j < len(tails) and tails[j] == t and isinstance(a, ast.Attribute):
                        # the formal of that name already receives an actual of that name: this one is the same-named
                        # attribute of ANOTHER object (f(a.v, b.v)), the name does not say which formal it is meant for
                        continue
                    findings.append((fi, n, callee, i, t, formals[i]))
    return findings, resolved, total
