"""Expression evaluation and call handling for sva.Interp (attached as methods)."""
import ast
from fractions import Fraction as F

from . import terms as T
from .terms import Term, Atom, lift, sym, NONE, TRUE, FALSE
from .model import FuncInfo, ClassInfo, ModuleInfo, AnalysisError, PKG
from .sva import (Interp, Frame_, Closure, UNITS, NPSIG, NUMPY_METHODS, RNG_METHODS,
                  MUTATING_METHODS)

J = Term.of(Atom('J'))
BUILTINS = {'len', 'int', 'float', 'abs', 'min', 'max', 'round', 'range', 'enumerate', 'zip',
            'isinstance', 'callable', 'str', 'list', 'dict', 'tuple', 'sorted', 'sum', 'open',
            'print', 'getattr', 'setattr', 'hasattr', 'type', 'bool', 'complex', 'bytearray',
            'repr', 'vars', 'filter', 'map', 'set', 'iter', 'next', 'any', 'all', 'reversed',
            'super', 'id', 'divmod', 'pow', 'bytes', 'slice', 'format'}


def ev(self, node, fr):
    if node is None:
        return NONE
    m = getattr(self, 'ex_' + type(node).__name__, None)
    if m is None:
        return Term.of(Atom('expr', type(node).__name__, getattr(node, 'lineno', 0)))
    return m(node, fr)


def ev_cond(self, node, fr):
    return T.truthy(self.ev(node, fr))


def ev_index(self, node, fr):
    if isinstance(node, ast.Slice):
        return T.mk_slice(self.ev(node.lower, fr), self.ev(node.upper, fr), self.ev(node.step, fr))
    if isinstance(node, ast.Tuple):
        return T.mk_tuple([self.ev_index(e, fr) for e in node.elts])
    return self.ev(node, fr)


def ex_Constant(self, node, fr):
    v = node.value
    if isinstance(v, bool):
        return TRUE if v else FALSE
    if isinstance(v, int):
        return Term.num(v)
    if isinstance(v, float):
        return Term.num(F(repr(v)))
    if isinstance(v, complex):
        return Term.num(F(repr(v.real))) + J * Term.num(F(repr(v.imag)))
    if v is None:
        return NONE
    if isinstance(v, str):
        return lift(v)
    if isinstance(v, bytes):
        return Term.of(Atom('bytes', v))
    if v is Ellipsis:
        return Term.of(Atom('ellipsis'))
    return Term.of(Atom('const', repr(v)))


def _lookup_name(self, name, fr):
    if name in fr.env:
        return fr.env[name]
    f = fr
    # enclosing closures' environments
    cl = getattr(fr, 'closure_env', None)
    if cl is not None and name in cl:
        return cl[name]
    return None


def ex_Name(self, node, fr):
    v = _lookup_name(self, node.id, fr)
    if v is not None:
        return v
    return self.global_name(node.id, fr)


def global_name(self, name, fr):
    m = fr.fi.module
    r = self.prog.resolve_import(m, name)
    if isinstance(r, FuncInfo):
        return Term.of(Atom('func', r.short))
    if isinstance(r, ClassInfo):
        return Term.of(Atom('class', r.qual))
    if isinstance(r, ModuleInfo):
        return Term.of(Atom('module', r.name))
    if isinstance(r, tuple) and r[0] == 'ext':
        return self.ext_symbol(r[1])
    if isinstance(r, tuple) and r[0] == 'global':
        return self.module_global(r[1], r[2])
    if name in m.globals:
        return self.module_global(m, name)
    if name in BUILTINS or name in ('True', 'False', 'None', 'KeyError', 'TypeError', 'ValueError',
                                    'AttributeError', 'IndexError', 'BaseException', 'Exception',
                                    'FileNotFoundError', 'OSError', 'ImportError', 'object',
                                    '__file__', '__name__'):
        return Term.of(Atom('builtin', name))
    return Term.of(Atom('sym', name))


def module_global(self, m, name):
    node = m.globals.get(name)
    if node is None:
        return sym(f'{m.name}.{name}')
    if (m.name, name) in self.prog.mutated_globals():
        # module-level STATE (some function modifies it): its value at a call depends on the calls made before
        return Term.of(Atom('modstate', m.name, name))
    key = ('global', m.name, name)
    cache = self.__dict__.setdefault('_gcache', {})
    if key in cache:
        return cache[key]
    cache[key] = sym(f'{m.name}.{name}')
    fi = FuncInfo(m, m.name + '.<module>', ast.FunctionDef(name='<module>', args=ast.arguments(
        posonlyargs=[], args=[], kwonlyargs=[], kw_defaults=[], defaults=[]), body=[], decorator_list=[],
        lineno=0))
    f2 = Frame_(fi, {}, None, None, len(self.pc), 99, ())
    rec, self.record = self.record, False
    try:
        v = self.ev(node, f2)
    finally:
        self.record = rec
    cache[key] = v
    return v


def ext_symbol(self, dotted):
    parts = dotted.split('.')
    last = parts[-1]
    root = parts[0]
    if root == 'astropy' and last in UNITS and 'units' in parts:
        return Term.num(UNITS[last])
    if root in ('numpy',):
        if last == 'pi':
            return sym('pi')
        if last == 'newaxis':
            return NONE
        if last == 'inf':
            return sym('inf')
    return Term.of(Atom('ext', dotted))


def ex_Attribute(self, node, fr):
    # dotted chains rooted at an imported module
    chain = _dotted(node)
    if chain is not None:
        root = chain[0]
        if _lookup_name(self, root, fr) is None:
            r = self.prog.resolve_import(fr.fi.module, root)
            if isinstance(r, tuple) and r[0] == 'ext':
                return self.ext_symbol('.'.join([r[1]] + chain[1:]))
            if isinstance(r, ModuleInfo):
                cur = r
                for i, p in enumerate(chain[1:]):
                    if isinstance(cur, ModuleInfo):
                        nxt = cur.functions.get(p) or cur.classes.get(p) or self.prog.modules.get(f'{cur.name}.{p}')
                        if nxt is None:
                            rr = self.prog.resolve_import(cur, p)
                            if rr is None and p in cur.globals:
                                nxt = ('global', cur, p)
                            else:
                                nxt = rr
                        cur = nxt
                    elif isinstance(cur, ClassInfo):
                        cur = cur.find_method(p)
                    else:
                        cur = None
                        break
                if isinstance(cur, FuncInfo):
                    return Term.of(Atom('func', cur.short))
                if isinstance(cur, ClassInfo):
                    return Term.of(Atom('class', cur.qual))
                if isinstance(cur, ModuleInfo):
                    return Term.of(Atom('module', cur.name))
                if isinstance(cur, tuple) and cur[0] == 'global':
                    return self.module_global(cur[1], cur[2])
                if isinstance(cur, tuple) and cur[0] == 'ext':
                    return self.ext_symbol(cur[1])
    base = self.ev(node.value, fr)
    return self.get_attr(base, node.attr, fr, node)


def _dotted(node):
    parts = []
    while isinstance(node, ast.Attribute):
        parts.append(node.attr)
        node = node.value
    if isinstance(node, ast.Name):
        parts.append(node.id)
        return parts[::-1]
    return None


def class_of(self, t):
    ci = self.types.get(t.key)
    if ci is not None:
        return ci
    at = t.single_atom()
    if at is not None and at.kind == 'new':
        return self.prog.classes.get(at.args[0])
    if at is not None and at.kind == 'ite':
        a, b = self.class_of(at.args[1]), self.class_of(at.args[2])
        if a is not None and a is b:
            return a
    return None


def get_attr(self, base, name, fr, node=None):
    k = (base.key, name)
    at0 = base.single_atom()
    if at0 is not None and at0.kind == 'record':
        for f_, v_ in at0.args[1]:
            if f_ == name:
                return v_
    if at0 is not None and at0.kind == 'ite' and all(x.single_atom() is not None and x.single_atom().kind == 'record'
                                                      for x in at0.args[1:]):
        return T.mk_ite(at0.args[0], self.get_attr(at0.args[1], name, fr, node), self.get_attr(at0.args[2], name, fr, node))
    if at0 is not None and at0.kind == 'sym' and not name.startswith('__') and fr is not None and len(self.frames) == 1 \
            and len(self.pc) == fr.base_len and not self.loops:
        self.deref_syms.add(at0.args[0])        # an attribute of it was read unconditionally: from here on it is not None
    if k in self.heap:
        return self.heap[k]
    at = base.single_atom()
    if at is not None and at.kind == 'ext':
        return self.ext_symbol(at.args[0] + '.' + name)
    if at is not None and at.kind == 'module':
        m = self.prog.modules.get(at.args[0])
        if m is not None:
            r = m.functions.get(name) or m.classes.get(name)
            if isinstance(r, FuncInfo):
                return Term.of(Atom('func', r.short))
            if isinstance(r, ClassInfo):
                return Term.of(Atom('class', r.qual))
            if name in m.globals:
                return self.module_global(m, name)
    if at is not None and at.kind == 'class':
        ci = self.prog.classes.get(at.args[0])
        if ci is not None:
            fi = ci.find_method(name)
            if fi is not None:
                return Term.of(Atom('boundmethod', base, fi.short))
    ci = self.class_of(base)
    if name in T.LIST_ATTRS and not getattr(self, '_no_list_invariants', False):
        # a list attribute that only the constructor establishes (`streams == [x] + ([y] if num_pols == 2)`): its value
        # over the object's own attributes
        from .expansions import list_invariant_for
        self._no_list_invariants = True
        try:
            c_, w_ = list_invariant_for(self.prog, ci, name)
        finally:
            self._no_list_invariants = False
        if w_ is not None and any(f.fi.name == '__init__' and f.fi.cls is not None and c_ in f.fi.cls.mro() for f in self.frames):
            w_ = None          # (not while the constructor that establishes it is still running)
        if w_ is not None:
            bt = base

            def inst(a):
                if a.kind == 'sym' and a.args[0] == 'self':
                    return bt
                if a.kind == 'attr' and a.args[0].key == bt.key and isinstance(a.args[1], str) and a.args[1] != name:
                    return self.get_attr(bt, a.args[1], fr, node)      # (its own attributes may have invariants too)
                return None
            return T.subst(w_, inst)
    at_ = base.single_atom()
    if at_ is not None and at_.kind in ('elem', 'sub') and not getattr(self, '_no_list_invariants', False) and not any(
            f.fi.name == '__init__' and f.fi.cls is not None and f.fi.cls.name in ('MultiAntennaArray',) for f in self.frames[:0]):
        # an attribute of an element of a list the owner's constructor filled with objects built from its own attributes
        la_ = at_.args[0].single_atom()
        owner_, lattr_ = None, None
        if la_ is not None and la_.kind == 'attr' and isinstance(la_.args[1], str) and la_.args[1] in T.LIST_ATTRS:
            owner_, lattr_ = la_.args[0], la_.args[1]
        elif la_ is not None and la_.kind == 'after' and isinstance(la_.args[0], str) and fr is not None and fr.self_term is not None \
                and la_.args[0].startswith(fr.self_term.key + '.') and la_.args[0][len(fr.self_term.key) + 1:] in T.LIST_ATTRS:
            # the list as it stands after the loop that filled it (inside the owner's own constructor)
            owner_, lattr_ = fr.self_term, la_.args[0][len(fr.self_term.key) + 1:]
        if owner_ is not None:
            from .expansions import elem_invariant_for
            self._no_list_invariants = True
            try:
                w_ = elem_invariant_for(self.prog, self.class_of(owner_) or (fr.self_cls if fr is not None and owner_.key == (
                    fr.self_term.key if fr.self_term is not None else None) else None), lattr_, name)
            finally:
                self._no_list_invariants = False
            if w_ is not None:
                owner = owner_
                return T.subst(w_, lambda a: self.get_attr(owner, a.args[1], fr, node) if (
                    a.kind == 'attr' and a.args[0].key == sym('self').key and isinstance(a.args[1], str)) else None)
    if ci is not None:
        fi = ci.find_method(name)
        if fi is not None:
            if fi.is_property:
                return self.call_package(fi, [], [], base, ci, node or fi.node, fr)
            return Term.of(Atom('boundmethod', base, fi.short))
        if self.expansions is not None and name not in self.opaque_attrs:
            ex = self.expansions.get(ci, name, base)
            if ex is not None:
                return ex
        # class-level constant (assigned in the class body, never stored by any function)
        cv = self._class_constant(ci, name)
        if cv is not None:
            return cv
    if at is not None and at.kind == 'ite':
        c, x, y = at.args
        return T.mk_ite(c, self.get_attr(x, name, fr, node), self.get_attr(y, name, fr, node))
    if name == 'value':
        if at is not None and at.kind == 'call' and at.args[0] == '.to' and len(at.args[1]) == 2:
            return at.args[1][0] / at.args[1][1]
        return base
    if name == 'T':
        return T.mk_call('T', [base])
    if name in ('real', 'imag'):
        return T.mk_call(name, [base])
    if name == 'shape' and ci is None:
        if at is not None and at.kind in ('loopvar', 'after') and len(at.args) == 2 and (at.args[0], at.args[1]) in self.loop_shape:
            return self.get_attr(self.loop_shape[(at.args[0], at.args[1])], 'shape', fr, node)
        return shape_of(base)
    if name in ('unix', 'mjd') and at is not None and at.kind == 'call' and at.args[0] == 'Time':
        args, kw = at.args[1], dict(at.args[2])
        fmt = kw.get('format')
        fa = fmt.single_atom() if fmt is not None else None
        if fa is not None and fa.kind == 'str' and fa.args[0] == name:
            return args[0]          # Time(x, format=F).F == x
        if args:
            ia = args[0].single_atom()
            # Time(Time(x,'a').b, 'b').a == x   (inverse pair)
            if ia is not None and ia.kind == 'call' and ia.args[0] == 'Time.' + (fa.args[0] if fa else '?'):
                inner_args = ia.args[1]
                if inner_args[1].key == lift(name).key:
                    return inner_args[0]
        return T.mk_call('Time.' + name, [args[0] if args else NONE, fmt if fmt is not None else NONE])
    return T.mk_attr(base, name)


def _class_constant(self, ci, name):
    cache = self.__dict__.setdefault('_cconst', {})
    key = (ci.qual, name)
    if key in cache:
        return cache[key]
    cache[key] = None
    node = None
    for c in ci.mro():
        for st in c.node.body:
            if isinstance(st, ast.Assign) and any(isinstance(t_, ast.Name) and t_.id == name for t_ in st.targets):
                node = (c, st.value)
                break
        if node is not None:
            break
    if node is None:
        return None
    # any store of that attribute name anywhere in the package makes it state, not a constant
    for fi in self.prog.functions.values():
        if isinstance(fi.node, ast.Lambda):
            continue
        for n in ast.walk(fi.node):
            if isinstance(n, ast.Attribute) and n.attr == name and isinstance(n.ctx, (ast.Store, ast.Del)):
                return None
    c, vnode = node
    fi0 = FuncInfo(c.module, c.qual + '.<classbody>', ast.FunctionDef(name='<classbody>', args=ast.arguments(
        posonlyargs=[], args=[], kwonlyargs=[], kw_defaults=[], defaults=[]), body=[], decorator_list=[], lineno=0))
    f2 = Frame_(fi0, {}, None, None, len(self.pc), 99, ())
    rec, self.record = self.record, False
    try:
        v = self.ev(vnode, f2)
    finally:
        self.record = rec
    cache[key] = v
    return v


def shape_of(t):
    at = t.single_atom()
    if at is not None and at.kind == 'call':
        fn, args, kw = at.args
        if fn in ('zeros', 'empty', 'ones', 'full') and args:
            sa = args[0].single_atom()
            if sa is not None and sa.kind in ('tuple', 'list'):
                return T.mk_tuple(sa.args)
            return T.mk_tuple([args[0]])
    return T.mk_call('shape', [t])


def binop(self, op, a, b):
    a, b = lift(a), lift(b)
    if isinstance(op, ast.Add):
        sa, sb = a.single_atom(), b.single_atom()
        if sa is not None and sb is not None and sa.kind in ('list', 'tuple') and sb.kind == sa.kind:
            return T.mk_tuple(sa.args + sb.args, sa.kind)
        if sa is not None and sb is not None and sa.kind == sb.kind and sa.kind in ('str', 'bytes'):
            return Term.of(Atom(sa.kind, sa.args[0] + sb.args[0]))          # constant folding of text
        if (sa is not None and sa.kind == 'str') or (sb is not None and sb.kind == 'str'):
            return T.mk_call('strcat', [a, b])
        return a + b
    if isinstance(op, ast.Sub):
        return a - b
    if isinstance(op, ast.Mult):
        for x_, y_ in ((a, b), (b, a)):
            xa_ = x_.single_atom()
            if xa_ is not None and xa_.kind in ('str', 'bytes') and y_.const() is not None and y_.const().denominator == 1 \
                    and 0 <= y_.const() <= 4096:
                return Term.of(Atom(xa_.kind, xa_.args[0] * int(y_.const())))
        sa = a.single_atom()
        if sa is not None and sa.kind == 'list' and b.const() is not None and b.const().denominator == 1:
            return T.mk_tuple(sa.args * int(b.const()), 'list')
        for x_, y_ in ((a, b), (b, a)):
            xa_ = x_.single_atom()
            if xa_ is not None and xa_.kind == 'list' and len(xa_.args) == 1 and T._numeric_like(y_):
                # [v] * n: a list of n items, every one of them v
                return Term.of(Atom('replicate', xa_.args[0], y_))
        return a * b
    if isinstance(op, ast.Div):
        return a / b
    if isinstance(op, ast.FloorDiv):
        return T.mk_call('floordiv', [a, b])
    if isinstance(op, ast.Mod):
        return T.mk_call('mod', [a, b])
    if isinstance(op, ast.Pow):
        e = b.const()
        if e is not None:
            return a.pow(e)
        return T.mk_call('pow', [a, b])
    if isinstance(op, ast.MatMult):
        return T.mk_call('matmul', [a, b])
    return T.mk_call('bin' + type(op).__name__, [a, b])


def ex_BinOp(self, node, fr):
    return self.binop(node.op, self.ev(node.left, fr), self.ev(node.right, fr))


def ex_UnaryOp(self, node, fr):
    v = self.ev(node.operand, fr)
    if isinstance(node.op, ast.USub):
        return -v
    if isinstance(node.op, ast.UAdd):
        return v
    if isinstance(node.op, ast.Not):
        return T.mk_not(T.truthy(v))
    return T.mk_call('invert', [v])


def ex_BoolOp(self, node, fr):
    vs = [self.ev(v, fr) for v in node.values]
    # (operands that are known to be lists count through their emptiness; the value of `a and b` is only used as a
    # condition in this code base)
    vs = [T.truthy(v) if (v.single_atom() is not None and v.single_atom().kind == 'attr' and v.single_atom().args[1] in T.LIST_ATTRS)
          else v for v in vs]
    if isinstance(node.op, ast.And):
        return T.mk_and(vs)
    return T.mk_or(vs)


CMPOPS = {ast.Lt: '<', ast.LtE: '<=', ast.Gt: '>', ast.GtE: '>=', ast.Eq: '==', ast.NotEq: '!=',
          ast.In: 'in', ast.NotIn: 'not in', ast.Is: 'is', ast.IsNot: 'is not'}


def ex_Compare(self, node, fr):
    left = self.ev(node.left, fr)
    out = []
    for op, rn in zip(node.ops, node.comparators):
        right = self.ev(rn, fr)
        o = CMPOPS[type(op)]
        out.append(self.compare_terms(o, left, right))
        left = right
    return T.mk_and(out) if len(out) > 1 else out[0]


def compare_terms(self, o, left, right):
    if o in ('in', 'not in'):
        ra = right.single_atom()
        if ra is not None and ra.kind == 'dict':
            keys = [k for k, _ in ra.args]
            if all(k.single_atom() is not None and k.single_atom().kind == 'str' for k in keys) and \
                    left.single_atom() is not None and left.single_atom().kind == 'str' and not _dict_open(ra):
                hit = any(k.key == left.key for k in keys)
                return (TRUE if hit else FALSE) if o == 'in' else (FALSE if hit else TRUE)
        if ra is not None and ra.kind in ('list', 'tuple'):
            # x in [a, b]  ->  or(x == a, x == b)
            alts = [T.mk_cmp('==', left, e) for e in ra.args]
            r = T.mk_or(alts)
            return r if o == 'in' else T.mk_not(r)
    if o in ('in', 'not in'):
        r = T.mk_in(left, right)
        return r if o == 'in' else T.mk_not(r)
    if o in ('is', 'is not'):
        la, ra = left.single_atom(), right.single_atom()
        if ra is not None and ra.kind == 'none' and la is not None and la.kind == 'sym' and la.args[0] in self.deref_syms:
            return FALSE if o == 'is' else TRUE          # it was dereferenced earlier on this path
        if ra is not None and ra.kind == 'none' and la is not None and la.kind == 'sub' and self.frames:
            # an item of the tuple an opaque package function returns: look at what the function returns
            ba_ = la.args[0].single_atom()
            k_ = la.args[1].const()
            if ba_ is not None and ba_.kind == 'call' and k_ is not None and k_.denominator == 1:
                from .sva_call import _arity_of_package_call
                inl = _arity_of_package_call(self, la.args[0], ast.parse('f()', mode='eval').body, self.frames[-1], want='value')
                if inl is not None:
                    item = self.subscript(inl, la.args[1])
                    if T._known_not_none(item):
                        return FALSE if o == 'is' else TRUE
        if ra is not None and ra.kind == 'none' and la is not None and la.kind in (
                'closure', 'new', 'tuple', 'list', 'dict', 'str', 'bool', 'func', 'class'):
            return FALSE if o == 'is' else TRUE
        if ra is not None and ra.kind == 'none' and left.const() is not None:
            return FALSE if o == 'is' else TRUE
    return T.mk_cmp(o, left, right)


def _dict_open(at):
    return False


def ex_IfExp(self, node, fr):
    c = self.ev_cond(node.test, fr)
    if c.key == TRUE.key:
        return self.ev(node.body, fr)
    if c.key == FALSE.key:
        return self.ev(node.orelse, fr)
    return eval_cases(self, fr, c, lambda: self.ev(node.body, fr), lambda: self.ev(node.orelse, fr))


def eval_cases(self, fr, c, then, other):
    """value of `then() if c else other()`: each arm is evaluated under its condition (events carry it) and on its own
    copy of the state"""
    env0, heap0 = fr.env, self.heap
    outs = []
    for cond, thunk in ((c, then), (T.mk_not(c), other)):
        fr.env, self.heap = dict(env0), dict(heap0)
        self.pc.append(cond)
        npend = len(self.pending)
        try:
            v = thunk()
        finally:
            self.pc.pop()
        # a raising call inside one arm stops the statement only on that arm
        if len(self.pending) > npend:
            arm = self.pending[npend:]
            del self.pending[npend:]
            self.pending.append(T.mk_or([T.mk_not(cond), T.mk_and(arm)]))
        outs.append((v, fr.env, self.heap))
    same_env = all(outs[0][1].get(k) is not None and outs[1][1].get(k) is not None and outs[0][1][k].key == outs[1][1][k].key
                   for k in set(outs[0][1]) | set(outs[1][1]))
    fr.env = outs[0][1] if same_env else self._merge(c, outs[0][1], outs[1][1])
    self.heap = self._merge(c, outs[0][2], outs[1][2])
    return T.mk_ite(c, outs[0][0], outs[1][0])


def ex_Subscript(self, node, fr):
    base = self.ev(node.value, fr)
    idx = self.ev_index(node.slice, fr)
    return self.subscript(base, idx)


def subscript(self, base, idx):
    ba = base.single_atom()
    if ba is not None and ba.kind == 'call' and ba.args[0] == 'shape' and len(ba.args[1]) == 1 and idx.const() in (0, 1):
        # a Frame's data array has the frame's shape: x.data.shape == (x.tchans, x.fchans)
        xa = ba.args[1][0].single_atom()
        if xa is not None and xa.kind == 'attr' and xa.args[1] == 'data':
            ci = self.class_of(xa.args[0])
            if ci is not None and any(c.name == 'Frame' for c in ci.mro()):
                fr_ = self.frames[-1] if self.frames else None
                return self.get_attr(xa.args[0], 'tchans' if idx.const() == 0 else 'fchans', fr_)
    if ba is not None and ba.kind == 'ext' and ba.args[0] in ('numpy.s_', 'numpy.index_exp'):
        return idx                  # np.s_[a:b] is the slice object itself
    ia0 = idx.single_atom()
    seq = as_seq(base)
    if seq is not None:
        r = seq_index(seq, idx)
        if r is not None:
            return r
    at = base.single_atom()
    if at is not None and at.kind == 'ite':
        return T.mk_ite(at.args[0], self.subscript(at.args[1], idx), self.subscript(at.args[2], idx))
    if at is not None and at.kind in ('tuple', 'list') and ia0 is not None and ia0.kind == 'slice':
        # literal[:self.n] where the constructor restricts n to a few constants: one alternative per value
        lo, hi, st = ia0.args
        ha = hi.single_atom()
        if ha is not None and ha.kind in ('attr', 'sym') and T._isnone(st) and lo.const() is not None:
            dom = None
            if ha.kind == 'attr' and isinstance(ha.args[1], str):
                ci = self.class_of(ha.args[0])
                if ci is None and self.frames and self.frames[-1].self_term is not None and \
                        self.frames[-1].self_term.key == ha.args[0].key:
                    ci = self.frames[-1].self_cls
                for c in (ci.mro() if ci is not None else []):
                    dom = dom or getattr(self.prog, 'attr_domains', {}).get((c.qual, ha.args[1]))
            # (a parameter the function has asserted to lie in a few constants: `assert num_pols in [1, 2]`)
            dom = dom or self.asserted_domains.get(hi.key)
            if dom:
                vals = sorted(dom, reverse=True)
                out = T.mk_sub(base, T.mk_slice(lo, Term.num(vals[-1]), st))
                for v in reversed(vals[:-1]):
                    out = T.mk_ite(T.mk_cmp('==', hi, Term.num(v)), T.mk_sub(base, T.mk_slice(lo, Term.num(v), st)), out)
                return out
    return T.mk_sub(base, idx)


as_seq = T.as_seq
mk_seq = T.mk_seq


def seq_index(seq, idx):
    s, d, n = seq
    ia = idx.single_atom()
    if ia is not None and ia.kind == 'slice':
        lo, hi, st = ia.args
        if T._isnone(lo) and T._isnone(hi):
            c = st.const()
            if c == -1:
                return mk_seq(s + (n - 1) * d, -d, n)
            if T._isnone(st) or c == 1:
                return mk_seq(s, d, n)
        return None
    if ia is not None and ia.kind in ('tuple', 'str', 'none', 'list'):
        return None
    c = idx.const()
    if c is not None:
        if c.denominator != 1:
            return None
        return s + c * d if c >= 0 else s + (n + c) * d
    if T._numeric_like(idx):
        if T.is_nonneg(idx) or _loop_index_like(idx):
            return s + idx * d
        # Python indexing: a negative index counts from the end
        return T.mk_ite(T.mk_cmp('<', idx, Term.num(0)), s + (n + idx) * d, s + idx * d)
    return None


def _loop_index_like(t):
    """sums of loop indices (idx atoms of range loops) and non-negative terms"""
    for m, c in t.p.items():
        if c < 0:
            return False
        for a, e in m:
            if a.kind == 'idx':
                continue
            if not T.is_nonneg(Term.of(a)):
                return False
    return True


def ex_Tuple(self, node, fr):
    return T.mk_tuple([self.ev(e, fr) for e in node.elts])


def ex_List(self, node, fr):
    return T.mk_tuple([self.ev(e, fr) for e in node.elts], 'list')


def ex_Set(self, node, fr):
    return T.mk_tuple(sorted([self.ev(e, fr) for e in node.elts], key=lambda t: t.key), 'set')


def ex_Dict(self, node, fr):
    items = []
    for k, v in zip(node.keys, node.values):
        if k is None:
            # {**d, ...}: merge a dictionary whose entries are known
            dv = self.ev(v, fr)
            da = dv.single_atom()
            if da is None or da.kind != 'dict':
                return Term.of(Atom('dictexpr', node.lineno))
            for kk, vv in da.args:
                items = [(a_, b_) for a_, b_ in items if a_.key != kk.key] + [(kk, vv)]
            continue
        kt, vt = self.ev(k, fr), self.ev(v, fr)
        items = [(a_, b_) for a_, b_ in items if a_.key != kt.key] + [(kt, vt)]
    return Term.of(Atom('dict', *items))


def ex_JoinedStr(self, node, fr):
    parts = []
    for v in node.values:
        if isinstance(v, ast.Constant):
            parts.append(lift(v.value))
        elif isinstance(v, ast.FormattedValue):
            spec = ''
            if v.format_spec is not None:
                fs = v.format_spec
                if isinstance(fs, ast.JoinedStr) and all(isinstance(x, ast.Constant) for x in fs.values):
                    spec = ''.join(str(x.value) for x in fs.values)
                else:
                    # nested fields (`{x:<{WIDTH}}`): known constants are written out
                    parts_, ok_ = [], isinstance(fs, ast.JoinedStr)
                    for x in (fs.values if ok_ else []):
                        if isinstance(x, ast.Constant):
                            parts_.append(str(x.value))
                        elif isinstance(x, ast.FormattedValue) and x.format_spec is None and x.conversion in (-1, None):
                            xv = self.ev(x.value, fr)
                            c_ = xv.const()
                            xa_ = xv.single_atom()
                            if c_ is not None and c_.denominator == 1:
                                parts_.append(str(int(c_)))
                            elif xa_ is not None and xa_.kind == 'str':
                                parts_.append(xa_.args[0])
                            else:
                                ok_ = False
                        else:
                            ok_ = False
                    spec = ''.join(parts_) if ok_ else ast.unparse(fs)
            if v.conversion not in (-1, None):
                spec = '!' + chr(v.conversion) + spec
            parts.append(T.mk_call('fmt', [self.ev(v.value, fr), lift(spec)]))
    return T.mk_call('fstr', parts)


def ex_Lambda(self, node, fr):
    fi = self.prog.by_node.get(id(node))
    if fi is None:
        fi = FuncInfo(fr.fi.module, fr.fi.qual + f'.<locals>.<lambda@{node.lineno}:{node.col_offset}>', node,
                      parent=fr.fi)
    return self.make_closure(fi, fr)


def small_range_items(it, limit=4):
    """range(a, b, s) with constant bounds and at most `limit` items: the items, else None"""
    at = it.single_atom()
    if at is None or at.kind != 'call' or at.args[0] != 'range' or at.args[2] or not 1 <= len(at.args[1]) <= 3:
        return None
    cs = [x.const() for x in at.args[1]]
    if any(c is None or c.denominator != 1 for c in cs):
        return None
    r = range(*[int(c) for c in cs])
    if len(r) > limit:
        return None
    return [Term.num(i) for i in r]


def _comp(self, node, fr, kind):
    env0 = fr.env
    if kind == 'list' and len(node.generators) == 1 and not node.generators[0].ifs and not node.generators[0].is_async and \
            isinstance(node.elt, ast.Call) and isinstance(node.elt.func, ast.Name):
        # [func(x) for x in xs] with func a locally defined function (statements, possibly effects: the `apply(func)` idiom):
        # executed as the loop  acc = []; for x in xs: acc.append(func(x))  so that its effects are per-iteration events
        fv = fr.env.get(node.elt.func.id)
        fa = fv.single_atom() if fv is not None else None
        cl = self.closures.get(fa.key) if fa is not None and fa.kind == 'closure' else None
        if cl is not None and isinstance(cl.fi.node, ast.FunctionDef):
            cache = self.__dict__.setdefault('_comp_loops', {})
            if id(node) not in cache:
                acc = f'__acc_{node.lineno}_{node.col_offset}'
                init = ast.Assign(targets=[ast.Name(id=acc, ctx=ast.Store())], value=ast.List(elts=[], ctx=ast.Load()), type_comment=None)
                app = ast.Expr(value=ast.Call(func=ast.Attribute(value=ast.Name(id=acc, ctx=ast.Load()), attr='append', ctx=ast.Load()),
                                              args=[node.elt], keywords=[]))
                loop = ast.For(target=node.generators[0].target, iter=node.generators[0].iter, body=[app], orelse=[], type_comment=None)
                for n_ in (init, app, loop):
                    ast.copy_location(n_, node)
                    ast.fix_missing_locations(n_)
                cache[id(node)] = (node, acc, [init, loop])
            _, acc, stmts = cache[id(node)]
            shadow = {n_.id: fr.env.get(n_.id) for n_ in ast.walk(node.generators[0].target) if isinstance(n_, ast.Name)}
            self.exec_block(stmts, fr)
            out = fr.env.pop(acc)
            for k_, v_ in shadow.items():           # (the comprehension's target is local to it)
                if v_ is None:
                    fr.env.pop(k_, None)
                else:
                    fr.env[k_] = v_
            return out
    # a comprehension over a short literal sequence is the literal list of its elements
    if kind in ('list', 'gen') and len(node.generators) == 1 and not node.generators[0].ifs:
        it0 = self.ev(node.generators[0].iter, fr)
        ia = it0.single_atom()

        def literal(a_):
            return a_ is not None and a_.kind in ('list', 'tuple') and len(a_.args) <= 4
        rng_items = small_range_items(it0)
        if rng_items is not None:
            it0 = T.mk_tuple(rng_items)
            ia = it0.single_atom()
        rd = self._range_domain(it0) if rng_items is None else None
        if rd is not None:
            # [f(i) for i in range(n)], n one of a few constants: the items are evaluated once (item i under "n > i"); the
            # value is the prefix the actual n selects
            n_, dom_ = rd
            items_ = []
            try:
                for i in range(max(dom_)):
                    bigger = [d for d in dom_ if d > i]
                    c_ = TRUE if len(bigger) == len(dom_) else T.mk_or([T.mk_cmp('==', n_, Term.num(d)) for d in bigger])
                    fr.env = dict(env0)
                    self.assign(node.generators[0].target, Term.num(i), fr, node, quiet=True)
                    if c_.key != TRUE.key:
                        self.pc.append(c_)
                    try:
                        items_.append(self.ev(node.elt, fr))
                    finally:
                        if c_.key != TRUE.key:
                            self.pc.pop()
            finally:
                fr.env = env0
            out_ = T.mk_tuple(items_[:dom_[0]], 'list')
            for d in dom_[1:]:
                out_ = T.mk_ite(T.mk_cmp('==', n_, Term.num(d)), T.mk_tuple(items_[:d], 'list'), out_)
            return out_

        def unrolled(items):
            out = []
            try:
                for item in items:
                    fr.env = dict(env0)
                    self.assign(node.generators[0].target, item, fr, node, quiet=True)
                    out.append(self.ev(node.elt, fr))
            finally:
                fr.env = env0
            return T.mk_tuple(out, 'list')
        if literal(ia):
            return unrolled(ia.args)
        if ia is not None and ia.kind == 'comp' and ia.args[0] in ('list', 'gen') and len(ia.args[2]) == 1 and kind in ('list', 'gen'):
            ga = ia.args[2][0].single_atom()
            if ga is not None and ga.kind == 'tuple' and len(ga.args) == 1:
                # [g(p) for p in [f(a) for a in A]]  ==  [g(f(a)) for a in A]
                try:
                    fr.env = dict(env0)
                    self.assign(node.generators[0].target, ia.args[1], fr, node, quiet=True)
                    elt = self.ev(node.elt, fr)
                finally:
                    fr.env = env0
                return Term.of(Atom('comp', kind, elt, ia.args[2], *ia.args[3:]))
        if ia is not None and ia.kind == 'ite' and literal(ia.args[1].single_atom()) and literal(ia.args[2].single_atom()):
            # [f(x) for x in (A if c else B)]  ==  [f(a) ...] if c else [f(b) ...]
            return T.mk_ite(ia.args[0], unrolled(ia.args[1].single_atom().args), unrolled(ia.args[2].single_atom().args))
    else:
        it0 = None
    fr.env = dict(env0)
    gens = []
    try:
        for g in node.generators:
            it = it0 if (it0 is not None and g is node.generators[0]) else self.ev(g.iter, fr)
            lid = f'C{node.lineno}:{node.col_offset}:{len(gens)}'
            tv, idx = self._loop_target(it, lid)
            self.assign(g.target, tv, fr, node, quiet=True)
            conds = [self.ev(c, fr) for c in g.ifs]
            gens.append(T.mk_tuple([it] + conds))
        if kind == 'dict':
            elt = T.mk_tuple([self.ev(node.key, fr), self.ev(node.value, fr)])
        else:
            elt = self.ev(node.elt, fr)
    finally:
        fr.env = env0
    if len(gens) == 1 and len(gens[0].single_atom().args) == 1:
        # an element that depends on the position only: the comprehension is determined by the number of items
        # ([f(xs[i], xs[1:][i]) for pairs in zip(xs, xs[1:])]  ==  [f(xs[i], xs[i + 1]) for i in range(len(xs) - 1)])
        lid0 = f'C{node.lineno}:{node.col_offset}:0'
        if not any(a_.kind in ('elem', 'key') and a_.args and a_.args[-1] == lid0 for a_ in T.all_atoms(elt).values()):
            it_ = gens[0].single_atom().args[0]
            ia_ = it_.single_atom()
            if ia_ is not None and ia_.kind == 'call' and ia_.args[0] in ('zip', 'enumerate', 'range'):
                gens = [T.mk_tuple([T.mk_call('range', [self._trip(it_)])])]
    return Term.of(Atom('comp', kind, elt, tuple(gens), f'C{node.lineno}:{node.col_offset}'))


def ex_ListComp(self, node, fr):
    return _comp(self, node, fr, 'list')


def ex_GeneratorExp(self, node, fr):
    return _comp(self, node, fr, 'gen')


def ex_SetComp(self, node, fr):
    return _comp(self, node, fr, 'set')


def ex_DictComp(self, node, fr):
    return _comp(self, node, fr, 'dict')


def ex_Starred(self, node, fr):
    return Term.of(Atom('starred', self.ev(node.value, fr), 0))


def ex_NamedExpr(self, node, fr):
    v = self.ev(node.value, fr)
    self.assign(node.target, v, fr, node, quiet=True)
    return v


def ex_Yield(self, node, fr):
    v = self.ev(node.value, fr) if node.value is not None else NONE
    fr.yields.append(v)
    self.emit('yield', node, fr, value=v)
    return NONE


def ex_Slice(self, node, fr):
    return self.ev_index(node, fr)


for _n, _f in list(globals().items()):
    if callable(_f) and (_n.startswith('ex_') or _n in ('ev', 'ev_cond', 'ev_index', 'global_name',
                                                          'module_global', 'ext_symbol', 'class_of',
                                                          'get_attr', 'binop', 'subscript', 'compare_terms', '_class_constant')):
        setattr(Interp, _n, _f)
