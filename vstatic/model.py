"""E1/E2 program model: modules, imports, classes (MRO), functions (incl. nested), call sites.

Parses /repo/setigen/**/*.py from the working tree on every run.  Nothing is imported
or executed.
"""
import ast
import os
import sys

REPO = os.environ.get('VSTATIC_REPO', '/repo')
PKG = 'setigen'


class AnalysisError(Exception):
    """The analyser could not locate an anchor or parse something: exit 2, never a pass."""


class FuncInfo:
    def __init__(self, module, qual, node, cls=None, parent=None):
        self.module = module          # ModuleInfo
        self.qual = qual              # e.g. 'setigen.frame.Frame.add_signal'
        self.node = node
        self.cls = cls                # ClassInfo or None
        self.parent = parent          # enclosing FuncInfo for nested defs
        self.name = node.name if hasattr(node, 'name') else '<lambda>'
        self.decorators = [ast.unparse(d) for d in getattr(node, 'decorator_list', [])]
        self.is_classmethod = 'classmethod' in self.decorators
        self.is_staticmethod = 'staticmethod' in self.decorators
        self.is_property = 'property' in self.decorators

    @property
    def short(self):
        return self.qual[len(PKG) + 1:] if self.qual.startswith(PKG + '.') else self.qual

    @property
    def file(self):
        return self.module.relpath

    def params(self):
        a = self.node.args
        return [x.arg for x in a.posonlyargs + a.args]

    def all_params(self):
        a = self.node.args
        return [x.arg for x in a.posonlyargs + a.args + a.kwonlyargs]

    def defaults(self):
        """dict param -> default ast node"""
        a = self.node.args
        pos = a.posonlyargs + a.args
        d = {}
        for p, dv in zip(pos[len(pos) - len(a.defaults):], a.defaults):
            d[p.arg] = dv
        for p, dv in zip(a.kwonlyargs, a.kw_defaults):
            if dv is not None:
                d[p.arg] = dv
        return d

    def __repr__(self):
        return f'<Func {self.qual}>'


class ClassInfo:
    def __init__(self, module, qual, node):
        self.module = module
        self.qual = qual
        self.node = node
        self.name = node.name
        self.methods = {}       # name -> FuncInfo
        self.base_exprs = [ast.unparse(b) for b in node.bases]
        self.bases = []         # resolved ClassInfo list (package-internal only)
        self.external_bases = []

    def mro(self):
        out = [self]
        for b in self.bases:
            for c in b.mro():
                if c not in out:
                    out.append(c)
        return out

    def find_method(self, name):
        for c in self.mro():
            if name in c.methods:
                return c.methods[name]
        return None

    def __repr__(self):
        return f'<Class {self.qual}>'


class ModuleInfo:
    def __init__(self, name, path, relpath, src, tree):
        self.name = name
        self.path = path
        self.relpath = relpath
        self.src = src
        self.lines = src.split('\n')
        self.tree = tree
        self.imports = {}       # local name -> ('module', dotted) | ('from', dotted_module, attr)
        self.functions = {}     # top-level name -> FuncInfo
        self.classes = {}       # name -> ClassInfo
        self.globals = {}       # name -> ast value node (simple module-level assignments)
        self.is_pkg = path.endswith('__init__.py')

    def __repr__(self):
        return f'<Module {self.name}>'


def _returns_not_none(node):
    """every path through the function ends in `return <expression that cannot be None>` or raises (syntactic: numeric /
    container / string expressions and conversions; a returned name or an arbitrary call is not accepted)"""
    if not isinstance(node, ast.FunctionDef):
        return False
    if any(isinstance(n, (ast.Yield, ast.YieldFrom)) for n in ast.walk(node)):
        return False

    def value_ok(v):
        if v is None:
            return False
        if isinstance(v, ast.Constant):
            return v.value is not None
        if isinstance(v, (ast.BinOp, ast.Tuple, ast.List, ast.Dict, ast.Set, ast.JoinedStr, ast.Compare, ast.ListComp,
                          ast.DictComp, ast.SetComp)):
            return True
        if isinstance(v, ast.UnaryOp):
            return True
        if isinstance(v, ast.IfExp):
            return value_ok(v.body) and value_ok(v.orelse)
        if isinstance(v, ast.Call):
            f = v.func
            name = f.id if isinstance(f, ast.Name) else (f.attr if isinstance(f, ast.Attribute) else None)
            if isinstance(f, ast.Name) and name in ('int', 'float', 'len', 'str', 'bool', 'abs', 'round', 'min', 'max', 'sum',
                                                    'list', 'tuple', 'dict', 'set', 'sorted', 'bytes', 'bytearray'):
                return True
            if isinstance(f, ast.Attribute) and isinstance(f.value, ast.Name) and f.value.id in ('np', 'xp', 'numpy') and name in (
                    'array', 'zeros', 'ones', 'full', 'empty', 'ceil', 'floor', 'sqrt', 'abs', 'mean', 'std', 'sum', 'round',
                    'concatenate', 'linspace', 'arange', 'maximum', 'minimum', 'exp', 'log', 'cos', 'sin', 'real', 'imag'):
                return True
        return False
    own = []        # return statements of this function (not of nested ones)

    def collect(stmts):
        for st in stmts:
            if isinstance(st, (ast.FunctionDef, ast.ClassDef, ast.AsyncFunctionDef)):
                continue
            if isinstance(st, ast.Return):
                own.append(st)
            for fld in ('body', 'orelse', 'finalbody'):
                sub = getattr(st, fld, None)
                if isinstance(sub, list):
                    collect(sub)
            for h in getattr(st, 'handlers', []) or []:
                collect(h.body)

    def terminal(stmts):
        if not stmts:
            return False
        last = stmts[-1]
        if isinstance(last, (ast.Return, ast.Raise)):
            return True
        if isinstance(last, ast.If):
            return terminal(last.body) and terminal(last.orelse)
        if isinstance(last, ast.With):
            return terminal(last.body)
        if isinstance(last, ast.Try):
            return (terminal(last.finalbody) if last.finalbody else False) or (
                terminal(last.body + last.orelse) and all(terminal(h.body) for h in last.handlers))
        return False
    collect(node.body)
    return bool(own) and terminal(node.body) and all(value_ok(r.value) for r in own)


class _FrontEnd(ast.NodeTransformer):
    """Spelling-only normalisation applied to every module before indexing, so that no rule
    depends on it: annotated assignments become plain ones (a bare annotation is a no-op),
    and every local name of the numpy module -- ``import numpy``, ``import numpy as N``,
    ``from numpy import zeros [as z]`` -- is rewritten to the ``np.<name>`` spelling."""

    def __init__(self, mod_alias, from_names):
        self.mod_alias = mod_alias
        self.from_names = from_names

    def visit_AnnAssign(self, n):
        self.generic_visit(n)
        if n.value is None:
            return ast.copy_location(ast.Pass(), n)
        return ast.copy_location(ast.Assign(targets=[n.target], value=n.value, type_comment=None), n)

    def visit_Import(self, n):
        for a in n.names:
            if a.name == 'numpy':
                a.asname = 'np'
        return n

    def visit_ImportFrom(self, n):
        if n.module == 'numpy' and not n.level:
            return [ast.copy_location(ast.Import(names=[ast.alias(name='numpy', asname='np')]), n), n]
        return n

    def visit_Name(self, n):
        if n.id in self.mod_alias and isinstance(n.ctx, ast.Load):
            return ast.copy_location(ast.Name(id='np', ctx=ast.Load()), n)
        if n.id in self.from_names and isinstance(n.ctx, ast.Load):
            return ast.copy_location(ast.Attribute(value=ast.copy_location(ast.Name(id='np', ctx=ast.Load()), n),
                                                   attr=self.from_names[n.id], ctx=ast.Load()), n)
        return n


def _normalise_front_end(tree):
    mod_alias, from_names, stored = set(), {}, set()
    for n in ast.walk(tree):
        if isinstance(n, ast.Import):
            for a in n.names:
                if a.name == 'numpy' and (a.asname or 'numpy') != 'np':
                    mod_alias.add(a.asname or 'numpy')
        elif isinstance(n, ast.ImportFrom) and n.module == 'numpy' and not n.level:
            for a in n.names:
                if a.name != '*':
                    from_names[a.asname or a.name] = a.name
        elif isinstance(n, ast.Name) and isinstance(n.ctx, (ast.Store, ast.Del)):
            stored.add(n.id)
        elif isinstance(n, ast.arg):
            stored.add(n.arg)
    # a name that is also bound as a variable somewhere in the module is left alone
    mod_alias -= stored
    from_names = {k: v for k, v in from_names.items() if k not in stored}
    has_ann = any(isinstance(n, ast.AnnAssign) for n in ast.walk(tree))
    if not (mod_alias or from_names or has_ann):
        return tree
    tree = _FrontEnd(mod_alias, from_names).visit(tree)
    ast.fix_missing_locations(tree)
    return tree


def toplevel_functions(tree, modname):
    """(short name, FunctionDef) of the module-level functions and the methods of module-level classes"""
    pre = (modname + '.') if modname else ''
    for st in tree.body:
        if isinstance(st, ast.FunctionDef):
            yield pre + st.name, st
        elif isinstance(st, ast.ClassDef):
            for x in st.body:
                if isinstance(x, ast.FunctionDef):
                    yield f'{pre}{st.name}.{x.name}', x


def body_text(node):
    """the statements of a function without its docstring, in ast.unparse form"""
    body = node.body
    if body and isinstance(body[0], ast.Expr) and isinstance(body[0].value, ast.Constant) and isinstance(body[0].value.value, str):
        body = body[1:]
    return '\n'.join(ast.unparse(b) for b in body)


def _restore_renamed(trees):
    """A PRIVATE function of the baseline (vstatic/baseline_functions.txt) that no longer exists under its name, while the
    same class / module has a new private function with (nearly) the same body (vstatic/baseline_bodies.json), has been
    renamed: the old name is put back, in the definition and in every reference of the package, before anything is indexed.
    Names carry no behaviour; the rules and the reference definitions keep addressing the function by the name they know.
    Returns {old short: new name} for the evidence."""
    import difflib
    import json as _json
    from .baseline import BASELINE_FUNCS
    try:
        with open(os.path.join(os.path.dirname(os.path.abspath(__file__)), 'baseline_bodies.json')) as f:
            bodies = _json.load(f)
    except (OSError, ValueError):
        return {}
    cur = {}
    for name, tree in trees.items():
        rel = name[len(PKG) + 1:] if name.startswith(PKG + '.') else ('' if name == PKG else name)
        for short, node in toplevel_functions(tree, rel):
            cur[short] = node
    vanished = [b for b in bodies if b in BASELINE_FUNCS and b not in cur]
    if not vanished:
        return {}
    fresh = [c for c in cur if c not in BASELINE_FUNCS and cur[c].name.startswith('_') and not cur[c].name.startswith('__')]
    pairs = []
    for v in vanished:
        scope = v.rsplit('.', 1)[0]
        for c in fresh:
            if c.rsplit('.', 1)[0] != scope:
                continue
            a, b = bodies[v], body_text(cur[c])
            # (references to the function itself or to other renamed helpers differ: compare with identifiers of both sides blanked)
            r = difflib.SequenceMatcher(None, a, b, autojunk=False).ratio()
            if r >= 0.7:
                pairs.append((r, v, c))
    pairs.sort(reverse=True)
    used_v, used_c, mapping = set(), set(), {}
    for r, v, c in pairs:
        if v in used_v or c in used_c:
            continue
        used_v.add(v)
        used_c.add(c)
        mapping[c] = v
    if not mapping:
        return {}
    # name-level renaming is applied only when it is unambiguous package-wide: the new name denotes nothing else, and the old
    # name is free
    by_new = {}
    for c, v in mapping.items():
        by_new.setdefault(cur[c].name, set()).add(v.rsplit('.', 1)[1])
    all_defs = {}
    for short, node in cur.items():
        all_defs.setdefault(node.name, []).append(short)
    rename = {}
    for new_name, olds in by_new.items():
        if len(olds) != 1:
            continue
        old_name = next(iter(olds))
        if all(d in mapping for d in all_defs.get(new_name, [])):
            rename[new_name] = old_name

    class R(ast.NodeTransformer):
        def visit_FunctionDef(self, n):
            self.generic_visit(n)
            if n.name in rename:
                n.name = rename[n.name]
            return n

        def visit_Attribute(self, n):
            self.generic_visit(n)
            if n.attr in rename:
                n.attr = rename[n.attr]
            return n

        def visit_Name(self, n):
            if n.id in rename:
                n.id = rename[n.id]
            return n
    result = {v: cur[c].name for c, v in mapping.items() if cur[c].name in rename}
    if rename:
        for tree in trees.values():
            R().visit(tree)
    return result


class Program:
    def __init__(self, repo=None):
        self.repo = repo or REPO
        self.modules = {}       # dotted name -> ModuleInfo
        self.functions = {}     # qual -> FuncInfo  (all incl. methods & nested)
        self.classes = {}       # qual -> ClassInfo
        self.by_node = {}       # id(ast node) -> FuncInfo
        self._load()
        self._link()
        from . import terms as _T
        _T.PACKAGE_HEADS.update(fi.short for fi in self.functions.values())
        self.attr_domains = self._attr_domains()
        self.attr_types = self._attr_types()
        _T.LIST_ATTRS.clear()
        _T.LIST_ATTRS.update(self._list_attrs())
        _T.NOTNONE_KEYS.clear()
        _T.NOTNONE_ITEMS.clear()
        _T.NOTNONE_CALLS.clear()
        _T.NOTNONE_CALLS.update(fi.short for fi in self.functions.values() if _returns_not_none(fi.node))

    def _resolve_class_expr(self, m, node):
        """the package class a constructor expression `Name(...)` / `module.Name(...)` refers to, through the module's imports"""
        parts = []
        n = node
        while isinstance(n, ast.Attribute):
            parts.append(n.attr)
            n = n.value
        if not isinstance(n, ast.Name):
            return None
        parts.append(n.id)
        parts.reverse()
        if len(parts) == 1 and parts[0] in m.classes:
            return m.classes[parts[0]]
        imp = m.imports.get(parts[0])
        if imp is None:
            return None
        target = imp[1] if imp[0] == 'module' else f'{imp[1]}.{imp[2]}'
        if len(parts) == 2 and target in self.modules:
            return self.modules[target].classes.get(parts[1])
        if len(parts) == 1 and imp[0] != 'module':
            return self.classes.get(target)
        return None

    def _attr_types(self):
        """class qual -> {attribute: ClassInfo} for attributes of `self` whose every store in the class is a call of the
        constructor of one package class (self.bg_x = data_stream.BackgroundDataStream(...))"""
        out = {}
        for ci in self.classes.values():
            seen = {}
            for mth in ci.methods.values():
                for n in ast.walk(mth.node):
                    tgts = n.targets if isinstance(n, ast.Assign) else [n.target] if isinstance(n, (ast.AugAssign, ast.AnnAssign)) else []
                    for t in tgts:
                        for x in ast.walk(t):
                            if isinstance(x, ast.Attribute) and isinstance(x.ctx, ast.Store) and isinstance(x.value, ast.Name) \
                                    and x.value.id == 'self':
                                c = None
                                if x is t and isinstance(n, ast.Assign) and isinstance(n.value, ast.Call):
                                    c = self._resolve_class_expr(ci.module, n.value.func)
                                seen.setdefault(x.attr, []).append(c)
            types = {a: cs[0] for a, cs in seen.items() if cs and cs[0] is not None and all(c is cs[0] for c in cs)}
            if types:
                out[ci.qual] = types
        return out

    def returns_self_attr(self, fi):
        """the attribute name when every `return` of the method is `return self.<that attribute>` (DataStream.get_samples
        returns self.v): the value of a call that is not analysed further is then a read of that attribute after the call"""
        if not isinstance(fi.node, ast.FunctionDef) or not fi.node.args.args:
            return None
        me = fi.node.args.args[0].arg
        names = set()
        for n in ast.walk(fi.node):
            if isinstance(n, (ast.Yield, ast.YieldFrom)):
                return None
            if isinstance(n, ast.Return):
                v = n.value
                if not (isinstance(v, ast.Attribute) and isinstance(v.value, ast.Name) and v.value.id == me):
                    return None
                names.add(v.attr)
        return names.pop() if len(names) == 1 else None

    def _list_attrs(self):
        """attribute names whose every store in the package assigns a list (literal, comprehension, list()/sorted() call):
        their truth value is `len(x) != 0`"""
        vals = {}
        for m in self.modules.values():
            for n in ast.walk(m.tree):
                if isinstance(n, ast.Assign):
                    for t in n.targets:
                        if isinstance(t, ast.Attribute):
                            vals.setdefault(t.attr, []).append(n.value)
                elif isinstance(n, (ast.AugAssign, ast.AnnAssign)) and isinstance(n.target, ast.Attribute):
                    vals.setdefault(n.target.attr, []).append(None)
                elif isinstance(n, ast.Call) and isinstance(n.func, ast.Name) and n.func.id == 'setattr':
                    vals.setdefault('*', []).append(None)

        def listy(v):
            if isinstance(v, (ast.List, ast.ListComp)):
                return True
            return isinstance(v, ast.Call) and isinstance(v.func, ast.Name) and v.func.id in ('list', 'sorted')
        return {a for a, vs in vals.items() if a != '*' and vs and all(v is not None and listy(v) for v in vs)}

    def _attr_domains(self):
        """(class qual, attribute) -> sorted constants, for attributes with a constructor-checked finite domain:
        `assert p in [c1, c2, ...]` at the top level of __init__ followed by the unconditional `self.a = p`, and no other
        store of `.a` on `self` in the class."""
        out = {}
        for ci in self.classes.values():
            init = ci.methods.get('__init__')
            if init is None:
                continue
            doms = {}
            for st in init.node.body:
                if isinstance(st, ast.Assert) and isinstance(st.test, ast.Compare) and len(st.test.ops) == 1 and \
                        isinstance(st.test.ops[0], ast.In) and isinstance(st.test.left, ast.Name) and \
                        isinstance(st.test.comparators[0], (ast.List, ast.Tuple, ast.Set)) and all(
                            isinstance(e, ast.Constant) and isinstance(e.value, int) and not isinstance(e.value, bool)
                            for e in st.test.comparators[0].elts):
                    doms[st.test.left.id] = sorted(e.value for e in st.test.comparators[0].elts)
            if not doms:
                continue
            stores = {}
            for m in ci.methods.values():
                for n in ast.walk(m.node):
                    if isinstance(n, ast.Attribute) and isinstance(n.ctx, (ast.Store, ast.Del)) and isinstance(n.value, ast.Name) \
                            and n.value.id == 'self':
                        stores.setdefault(n.attr, []).append(m)
            rebound = {n.id for n in ast.walk(init.node) if isinstance(n, ast.Name) and isinstance(n.ctx, ast.Store)}
            for st in init.node.body:
                if isinstance(st, ast.Assign) and len(st.targets) == 1 and isinstance(st.targets[0], ast.Attribute) and \
                        isinstance(st.targets[0].value, ast.Name) and st.targets[0].value.id == 'self' and \
                        isinstance(st.value, ast.Name) and st.value.id in doms and st.value.id not in rebound:
                    a = st.targets[0].attr
                    if len(stores.get(a, [])) == 1:
                        out[(ci.qual, a)] = doms[st.value.id]
        return out

    # ---------------------------------------------------------------- loading
    def _load(self):
        root = os.path.join(self.repo, PKG)
        if not os.path.isdir(root):
            raise AnalysisError(f'package directory {root} not found')
        for dp, dns, fns in os.walk(root):
            dns[:] = sorted(d for d in dns if d != '__pycache__')
            for fn in sorted(fns):
                if not fn.endswith('.py'):
                    continue
                path = os.path.join(dp, fn)
                rel = os.path.relpath(path, self.repo)
                parts = rel[:-3].split(os.sep)
                if parts[-1] == '__init__':
                    parts = parts[:-1]
                name = '.'.join(parts)
                with open(path, encoding='utf-8') as f:
                    src = f.read()
                try:
                    tree = ast.parse(src, filename=path)
                except SyntaxError as e:
                    raise AnalysisError(f'cannot parse {rel}: {e}')
                tree = _normalise_front_end(tree)
                m = ModuleInfo(name, path, rel, src, tree)
                self.modules[name] = m
        self.renamed = _restore_renamed({n_: m_.tree for n_, m_ in self.modules.items()})
        for m in self.modules.values():
            self._index_module(m)

    def _index_module(self, m):
        def walk_body(body, scope_qual, cls, parent_func, toplevel):
            for st in body:
                if isinstance(st, (ast.FunctionDef, ast.AsyncFunctionDef)):
                    q = f'{scope_qual}.{st.name}'
                    # (the setter / deleter of a property has the getter's name: it is indexed beside it, not over it)
                    accessor = next((d.attr for d in st.decorator_list if isinstance(d, ast.Attribute) and d.attr in ('setter', 'deleter')
                                     and isinstance(d.value, ast.Name) and d.value.id == st.name), None)
                    if accessor is not None:
                        q = f'{q}.{accessor}'
                    fi = FuncInfo(m, q, st, cls=cls, parent=parent_func)
                    self.functions[q] = fi
                    self.by_node[id(st)] = fi
                    if accessor is not None:
                        if cls is not None and parent_func is None:
                            cls.methods[f'{st.name}.{accessor}'] = fi
                        index_nested(st, q + '.<locals>', fi)
                        continue
                    if cls is not None and parent_func is None:
                        cls.methods[st.name] = fi
                    elif toplevel:
                        m.functions[st.name] = fi
                    index_nested(st, q + '.<locals>', fi)
                elif isinstance(st, ast.ClassDef):
                    q = f'{scope_qual}.{st.name}'
                    ci = ClassInfo(m, q, st)
                    self.classes[q] = ci
                    if toplevel:
                        m.classes[st.name] = ci
                    walk_body(st.body, q, ci, None, False)
                elif isinstance(st, (ast.If, ast.Try)) and toplevel:
                    # module-level conditional imports (the cupy/numpy idiom)
                    for sub in ast.walk(st):
                        if isinstance(sub, (ast.Import, ast.ImportFrom)):
                            self._index_import(m, sub)
                elif isinstance(st, (ast.Import, ast.ImportFrom)) and toplevel:
                    self._index_import(m, st)
                elif isinstance(st, ast.Assign) and toplevel:
                    for t in st.targets:
                        if isinstance(t, ast.Name):
                            m.globals[t.id] = st.value

        def index_nested(fnode, scope_qual, parent):
            for sub in ast.iter_child_nodes(fnode):
                _nested(sub, scope_qual, parent)

        def _nested(node, scope_qual, parent):
            if isinstance(node, (ast.FunctionDef, ast.AsyncFunctionDef)):
                q = f'{scope_qual}.{node.name}'
                fi = FuncInfo(m, q, node, cls=None, parent=parent)
                self.functions[q] = fi
                self.by_node[id(node)] = fi
                index_nested(node, q + '.<locals>', fi)
                return
            if isinstance(node, ast.Lambda):
                q = f'{scope_qual}.<lambda@{node.lineno}:{node.col_offset}>'
                fi = FuncInfo(m, q, node, cls=None, parent=parent)
                self.functions[q] = fi
                self.by_node[id(node)] = fi
            for sub in ast.iter_child_nodes(node):
                _nested(sub, scope_qual, parent)

        walk_body(m.tree.body, m.name, None, None, True)

    def _index_import(self, m, st):
        if isinstance(st, ast.Import):
            for a in st.names:
                local = a.asname or a.name.split('.')[0]
                target = a.name if a.asname else a.name.split('.')[0]
                if a.name == 'cupy':
                    target = 'numpy'   # xp == numpy (the GPU idiom; semantics-equivalent API)
                m.imports[local] = ('module', target)
        else:
            base = st.module or ''
            if st.level:
                pkg_parts = m.name.split('.')
                if not m.is_pkg:
                    pkg_parts = pkg_parts[:-1]
                pkg_parts = pkg_parts[:len(pkg_parts) - (st.level - 1)]
                base = '.'.join(pkg_parts + ([st.module] if st.module else []))
            for a in st.names:
                local = a.asname or a.name
                m.imports[local] = ('from', base, a.name)

    def _synthesise_factory_properties(self):
        """class body:  name = factory(<constants>)  where the module-level `factory(p, ...)` defines one inner function and
        returns `property(<that function>)`: the class gets a property `name` whose body is the inner function's with the
        factory's parameters bound to the constants (so nine look-alike properties can be generated by one factory)."""
        import copy
        for ci in list(self.classes.values()):
            for st in ci.node.body:
                if not (isinstance(st, ast.Assign) and len(st.targets) == 1 and isinstance(st.targets[0], ast.Name)
                        and isinstance(st.value, ast.Call) and isinstance(st.value.func, ast.Name) and not st.value.keywords
                        and all(isinstance(a, ast.Constant) for a in st.value.args)):
                    continue
                name = st.targets[0].id
                fac = ci.module.functions.get(st.value.func.id)
                if fac is None or name in ci.methods:
                    continue
                inner = [n for n in fac.node.body if isinstance(n, ast.FunctionDef)]
                rets = [n for n in fac.node.body if isinstance(n, ast.Return)]
                if len(inner) != 1 or len(rets) != 1 or not (
                        isinstance(rets[0].value, ast.Call) and isinstance(rets[0].value.func, ast.Name)
                        and rets[0].value.func.id == 'property' and len(rets[0].value.args) == 1
                        and isinstance(rets[0].value.args[0], ast.Name) and rets[0].value.args[0].id == inner[0].name):
                    continue
                params = [a.arg for a in fac.node.args.args]
                if len(params) != len(st.value.args):
                    continue
                fn = copy.deepcopy(inner[0])
                fn.name = name
                binds = [ast.Assign(targets=[ast.Name(id=p_, ctx=ast.Store())], value=copy.deepcopy(a_))
                         for p_, a_ in zip(params, st.value.args)]
                fn.body = binds + list(fn.body)
                fn.decorator_list = [ast.Name(id='property', ctx=ast.Load())]
                ast.copy_location(fn, st)
                for b_ in binds:
                    ast.copy_location(b_, st)
                ast.fix_missing_locations(fn)
                q = f'{ci.qual}.{name}'
                fi = FuncInfo(ci.module, q, fn, cls=ci, parent=None)
                self.functions[q] = fi
                self.by_node[id(fn)] = fi
                ci.methods[name] = fi

    def _link(self):
        self._synthesise_factory_properties()
        for ci in self.classes.values():
            for be in ci.base_exprs:
                r = self.resolve_dotted(ci.module, be)
                if isinstance(r, ClassInfo):
                    ci.bases.append(r)
                else:
                    ci.external_bases.append(be)

    # ---------------------------------------------------------------- resolution
    def resolve_import(self, m, local):
        """Resolve a module-level name through the import table.
        Returns ModuleInfo | FuncInfo | ClassInfo | ('ext', dotted) | None"""
        if local in m.functions:
            return m.functions[local]
        if local in m.classes:
            return m.classes[local]
        imp = m.imports.get(local)
        if imp is None:
            return None
        if imp[0] == 'module':
            if imp[1] in self.modules:
                return self.modules[imp[1]]
            return ('ext', imp[1])
        _, base, attr = imp
        full = f'{base}.{attr}' if base else attr
        if full in self.modules:
            return self.modules[full]
        if base in self.modules:
            bm = self.modules[base]
            if attr in bm.functions:
                return bm.functions[attr]
            if attr in bm.classes:
                return bm.classes[attr]
            if attr in bm.imports and bm is not m:
                return self.resolve_import(bm, attr)
            if attr in bm.globals:
                return ('global', bm, attr)
            return None
        return ('ext', full)

    def resolve_dotted(self, m, expr):
        parts = expr.split('.')
        cur = self.resolve_import(m, parts[0])
        for p in parts[1:]:
            if cur is None:
                return None
            if isinstance(cur, ModuleInfo):
                nxt = cur.functions.get(p) or cur.classes.get(p)
                if nxt is None:
                    sub = f'{cur.name}.{p}'
                    nxt = self.modules.get(sub) or self.resolve_import(cur, p)
                cur = nxt
            elif isinstance(cur, ClassInfo):
                cur = cur.find_method(p)
            elif isinstance(cur, tuple) and cur[0] == 'ext':
                cur = ('ext', cur[1] + '.' + p)
            else:
                return None
        return cur

    # ---------------------------------------------------------------- lookup helpers
    def func(self, short):
        """Lookup by short qualified name, e.g. 'frame.Frame.add_signal'."""
        q = f'{PKG}.{short}'
        fi = self.functions.get(q)
        if fi is None:
            raise AnalysisError(f'anchor function {q} not found in {self.repo}')
        return fi

    def cls(self, short):
        q = f'{PKG}.{short}'
        ci = self.classes.get(q)
        if ci is None:
            raise AnalysisError(f'anchor class {q} not found in {self.repo}')
        return ci

    def try_func(self, short):
        return self.functions.get(f'{PKG}.{short}')

    def module(self, short):
        q = f'{PKG}.{short}' if short else PKG
        m = self.modules.get(q)
        if m is None:
            raise AnalysisError(f'anchor module {q} not found')
        return m

    def mutated_globals(self):
        """{(module name, global name): [(function short, node)]} -- module-level names that some function mutates in
        place (item/slice store, mutating method, augmented assignment) or rebinds through `global`.
        Such a name is STATE shared by all calls in the process, not a constant."""
        if getattr(self, '_mutglob', None) is not None:
            return self._mutglob
        MUT = {'append', 'extend', 'insert', 'update', 'pop', 'remove', 'clear', 'sort', 'reverse', 'setdefault',
               'popitem', 'add', 'discard', 'fill', 'resize', 'appendleft', 'popleft'}
        out = {}
        for fi in self.functions.values():
            if isinstance(fi.node, ast.Lambda):
                continue
            m = fi.module
            local = set(fi.all_params())
            a = fi.node.args
            if a.vararg:
                local.add(a.vararg.arg)
            if a.kwarg:
                local.add(a.kwarg.arg)
            declared_global = set()
            for n in ast.walk(fi.node):
                if isinstance(n, ast.Global):
                    declared_global.update(n.names)
            for n in ast.walk(fi.node):
                if isinstance(n, ast.Name) and isinstance(n.ctx, ast.Store) and n.id not in declared_global:
                    local.add(n.id)
            p = fi.parent
            while p is not None:
                local.update(p.all_params())
                for n in ast.walk(p.node):
                    if isinstance(n, ast.Name) and isinstance(n.ctx, ast.Store):
                        local.add(n.id)
                p = p.parent

            def target_global(e):
                """(module, name) if expression e denotes a module-level variable of the package"""
                if isinstance(e, ast.Name) and e.id not in local:
                    if e.id in m.globals:
                        return (m.name, e.id)
                    r = self.resolve_import(m, e.id)
                    if isinstance(r, tuple) and r[0] == 'global':
                        return (r[1].name, r[2])
                if isinstance(e, ast.Attribute) and isinstance(e.value, ast.Name) and e.value.id not in local:
                    r = self.resolve_import(m, e.value.id)
                    if isinstance(r, ModuleInfo) and e.attr in r.globals:
                        return (r.name, e.attr)
                return None
            for n in ast.walk(fi.node):
                hit = None
                if isinstance(n, ast.Subscript) and isinstance(n.ctx, (ast.Store, ast.Del)):
                    hit = target_global(n.value)
                elif isinstance(n, ast.Call) and isinstance(n.func, ast.Attribute) and n.func.attr in MUT:
                    hit = target_global(n.func.value)
                elif isinstance(n, ast.AugAssign):
                    t = n.target
                    hit = target_global(t if not isinstance(t, ast.Subscript) else t.value)
                    if isinstance(t, ast.Name) and t.id not in declared_global:
                        hit = None
                elif isinstance(n, ast.Name) and isinstance(n.ctx, ast.Store) and n.id in declared_global and n.id in m.globals:
                    hit = (m.name, n.id)
                elif isinstance(n, ast.Attribute) and isinstance(n.ctx, (ast.Store, ast.Del)):
                    hit = target_global(n)
                if hit is not None:
                    out.setdefault(hit, []).append((fi.short, n))
        self._mutglob = out
        return out

    def stats(self):
        ncalls = 0
        for m in self.modules.values():
            for n in ast.walk(m.tree):
                if isinstance(n, ast.Call):
                    ncalls += 1
        return {'modules': len(self.modules), 'functions': len(self.functions),
                'classes': len(self.classes), 'call_sites': ncalls}

    def check_population(self):
        s = self.stats()
        if s['modules'] < 25 or s['functions'] < 180 or s['call_sites'] < 800:
            raise AnalysisError(f'parsed population too small (vacuity guard): {s}')
        return s

    def enclosing_function(self, m, node):
        """FuncInfo whose body contains `node` (innermost)."""
        best = None
        for fi in self.functions.values():
            if fi.module is not m:
                continue
            n = fi.node
            if n.lineno <= node.lineno <= (n.end_lineno or n.lineno):
                if best is None or n.lineno >= best.node.lineno:
                    best = fi
        return best


def stmt_text(node):
    """Normalised statement text used as a line-independent key for findings."""
    try:
        s = ast.unparse(node)
    except Exception:
        s = ast.dump(node)
    s = ' '.join(s.split())
    return s[:200]
