"""vstatic: repository-specific static analyser for bbrzycki/setigen (stdlib ast only)."""
from . import terms, model, sva, sva_expr, sva_call  # noqa: F401
from .model import Program, AnalysisError
from .sva import Interp
